(let ([x (call/cc (λ (k) k))])
  (x (λ (ignore) "hi")))
(((call/cc (λ (k) k)) (λ (x) x)) "HEY!")
