(+ 10 ;adding 10
 5;to the number 5
)
