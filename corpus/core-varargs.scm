(define (list . a) a)
((lambda l l) 10 20)
(make-pair 'apples 'bananas)
'(apples . bananas)
