(define-syntax cond
      (syntax-rules (else =>)
        ((cond (else result1 result2 ...))
         (begin result1 result2 ...))
        ((cond (test => result))
         (let ((temp test))
           (if temp (result temp))))
        ((cond (test => result) clause1 clause2 ...)
         (let ((temp test))
           (if temp
               (result temp)
               (cond clause1 clause2 ...))))
        ((cond (test)) test)
        ((cond (test) clause1 clause2 ...)
         (let ((temp test))
        (if temp temp
               (cond clause1 clause2 ...))))
        ((cond (test result1 result2 ...))
         (if test (begin result1 result2 ...)))
        ((cond (test result1 result2 ...)
               clause1 clause2 ...)
         (if test
             (begin result1 result2 ...)
             (cond clause1 clause2 ...)))))
