(define void (set! void 0))
(define-syntax let
    (syntax-rules ()
    [(let ((name val) ...) body1 body2 ...)
        ((lambda (name ...) body1 body2 ...) val ...)]))
