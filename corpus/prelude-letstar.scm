(define-syntax let*
 (syntax-rules ()
 ((let* () body1 body2 ...)
          (let () body1 body2 ...))
         ((let* ((name1 val1) (name2 val2) ...)
            body1 body2 ...)
          (let ((name1 val1))
            (let* ((name2 val2) ...)
              body1 body2 ...)))))
