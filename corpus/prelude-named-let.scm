
(define-syntax let
    (syntax-rules ()
      ((let ((name val) ...) body1 body2 ...)
       ((lambda (name ...) body1 body2 ...)
        val ...))
    ((let tag ((name val) ...) body1 body2 ...)
       ((letrec ((tag (lambda (name ...)
               body1 body2 ...)))
         tag)
       val ...))))
