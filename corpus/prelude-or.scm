(define-syntax or
  (syntax-rules ()
    [(or) #f]
    [(or test) test]
    [(or test1 test2 ...)
     (let ((var1 test1))
       (if var1 var1 (or test2 ...)))]))
