(list #\a #\A #\) #\( #\newline #\space #\  #\x9b #\𒀀 #\alarm #\tab)
(integer->char (char->integer #\delete))
(string->symbol "12foo")
(string-append "foo \"bar\" baz" "\t\x41;\\" "🐶")
