// shared by the fuzz targets (included with include!)
use mwv::ctx::{fuzz_ctx, Ctx, Outcome};
use std::sync::Once;

static INIT: Once = Once::new();

thread_local! {
    static CTX: std::cell::RefCell<Option<Ctx>> = const { std::cell::RefCell::new(None) };
}

/// Run one case; an unlisted failure aborts the process (libFuzzer saves the input).
fn judge(prop: &str, f: impl FnOnce(&Ctx) -> Outcome) {
    INIT.call_once(|| {
        // keep libFuzzer's own panic=abort behaviour for harness panics, but make SUT
        // panics (caught by sut::guard inside the properties) silent
        mwv::sut::install_panic_hook();
    });
    CTX.with(|c| {
        let mut c = c.borrow_mut();
        if c.is_none() {
            *c = Some(fuzz_ctx(prop));
        }
        let ctx = c.as_ref().unwrap();
        if let Outcome::Fail { sig, detail, .. } = f(ctx) {
            if !ctx.is_known(&sig) {
                eprintln!("FUZZ-VIOLATION property={} sig={} :: {}", prop, sig, detail);
                std::process::abort();
            }
        }
    });
}
