#![no_main]
//! C10: the bytes are a choice sequence for the recursive datum generator;
//! write -> read -> write and quote-evaluate round trips.
use libfuzzer_sys::fuzz_target;
include!("common.rs");

fuzz_target!(|data: &[u8]| {
    judge("C10", |ctx| mwv::props::c10::datum_outcome(ctx, data));
});
