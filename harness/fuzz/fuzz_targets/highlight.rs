#![no_main]
//! C20 (highlighter) on arbitrary text; the first two bytes choose the cursor.
use libfuzzer_sys::fuzz_target;
include!("common.rs");

fuzz_target!(|data: &[u8]| {
    if data.len() < 2 {
        return;
    }
    let text = String::from_utf8_lossy(&data[2..]);
    let cursor = ((data[0] as usize) << 8 | data[1] as usize) % (text.len() + 4);
    judge("C20", |_ctx| match mwv::props::c20::fuzz_text(&text, cursor) {
        Some((sig, detail)) => Outcome::fail(sig, detail, serde_json::json!({"text": text, "cursor": cursor})),
        None => Outcome::Pass,
    });
});
