#![no_main]
//! C01: the bytes are a choice sequence for the typed program generator; the
//! session is compared with the reference interpreter in three VMs.
use libfuzzer_sys::fuzz_target;
include!("common.rs");

fuzz_target!(|data: &[u8]| {
    judge("C01", |ctx| mwv::props::c01::case(ctx, data));
});
