#![no_main]
//! C05: like `program`, with the call/cc productions of the generator switched on.
use libfuzzer_sys::fuzz_target;
include!("common.rs");

fuzz_target!(|data: &[u8]| {
    judge("C05", |ctx| mwv::props::c05::case(ctx, data));
});
