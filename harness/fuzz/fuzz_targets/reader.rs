#![no_main]
//! C11 (reader discipline) on arbitrary bytes interpreted as UTF-8 (lossy).
use libfuzzer_sys::fuzz_target;
include!("common.rs");

fuzz_target!(|data: &[u8]| {
    let text = String::from_utf8_lossy(data);
    judge("C11", |ctx| mwv::props::c11::text_outcome(ctx, "fuzz", &text, None));
});
