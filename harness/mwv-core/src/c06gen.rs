//! Generators of C06 (total API) that do not need marwood: the value palette of
//! the structured domain (Scheme *expressions*, so that every call builds fresh
//! arguments and one case never changes the arguments of the next one), the
//! argument-role table (which positions are allocation sizes / exponents and are
//! therefore bounded by the statement, which kinds a position wants — used only
//! to aim the sampling of arity 3..5), the signature classes, and the
//! evaluation-oriented token soup of the text domain.

use crate::choice::Choices;

// ---------------------------------------------------------------------------
// setup forms evaluated once in every Vm that serves structured cases

/// Helper definitions. Every name starts with `c06-` and is excluded from the
/// procedure sweep. `c06-k` holds a continuation captured by an earlier
/// evaluation (re-entering it finishes that evaluation: `(+ 1 v)`).
pub const SETUP: &[&str] = &[
    "(define (c06-nest n) (if (= n 0) '() (list (c06-nest (- n 1)))))",
    "(define (c06-circ) (let ((x (list 1 2))) (set-cdr! (cdr x) x) x))",
    "(define (c06-circ-car) (let ((x (list 1 2))) (set-car! x x) x))",
    "(define (c06-rho) (let ((x (list 1 2 3 4))) (set-cdr! (cdr (cdr (cdr x))) (cdr x)) x))",
    "(define (c06-selfvec) (let ((v (vector 1 2))) (vector-set! v 0 v) v))",
    "(define c06-k #f)",
    "(+ 1 (call/cc (lambda (c) (set! c06-k c) 1)))",
];

// ---------------------------------------------------------------------------
// palette

#[derive(Clone, Copy, Debug, PartialEq, Eq)]
pub enum Group {
    Bool,
    Nil,
    Int,
    Big,
    Rat,
    Flo,
    Char,
    Str,
    Sym,
    Vector,
    List,
    Proc,
    Cont,
    Macro,
    Void,
    /// circular data: only for list?, length, equal?, display, write and as the value of an evaluation
    Circ,
}

#[derive(Clone, Copy, Debug)]
pub struct Pal {
    pub expr: &'static str,
    /// signature class of the value (input-derived, never per value)
    pub class: &'static str,
    pub group: Group,
    /// member of the sub-palette used for arity 2 in the quick tier
    pub sub: bool,
    /// the mathematical value when it is an integer (exact, rational n/1 or integral float)
    /// that fits i128; used to bound allocation sizes / exponents
    pub int: Option<i128>,
}

const fn p(expr: &'static str, class: &'static str, group: Group, sub: bool, int: Option<i128>) -> Pal {
    Pal { expr, class, group, sub, int }
}

use Group::*;

/// Small bignum: the value 2 carried as a BigInt (same route as C08's reachability expressions).
const BIG_SMALL: &str = "(- (+ 2 (* 4294967296 4294967296)) (* 4294967296 4294967296))";

pub const PALETTE: &[Pal] = &[
    // booleans, empty list
    p("#t", "bool", Bool, true, None),
    p("#f", "bool", Bool, false, None),
    p("'()", "nil", Nil, true, None),
    // fixnums: 0, +-1, radix-sized, index-sized, the allocation bound, i32 and i64 extremes +-1
    p("0", "int:0", Int, true, Some(0)),
    p("1", "int:1", Int, true, Some(1)),
    p("-1", "int:-1", Int, true, Some(-1)),
    p("2", "int:2..36", Int, true, Some(2)),
    p("3", "int:2..36", Int, false, Some(3)),
    p("16", "int:2..36", Int, false, Some(16)),
    p("37", "int:37..1e6", Int, true, Some(37)),
    p("1000", "int:37..1e6", Int, false, Some(1000)),
    p("1000000", "int:37..1e6", Int, false, Some(1_000_000)),
    p("2147483647", "int:i32max", Int, false, Some(2147483647)),
    p("2147483648", "int:>i32", Int, true, Some(2147483648)),
    p("-2147483648", "int:i32min", Int, true, Some(-2147483648)),
    p("-2147483649", "int:<i32", Int, false, Some(-2147483649)),
    p("4294967306", "int:>i32", Int, false, Some(4294967306)),
    p("9223372036854775807", "int:i64max", Int, true, Some(9223372036854775807)),
    p("-9223372036854775808", "int:i64min", Int, true, Some(-9223372036854775808)),
    // bignums: just outside i64, large, and a small value carried as a bignum
    p("9223372036854775808", "big:i64max+1", Big, true, Some(9223372036854775808)),
    p("-9223372036854775809", "big:i64min-1", Big, false, Some(-9223372036854775809)),
    p("(expt 2 100)", "big:pos", Big, false, Some(1i128 << 100)),
    p("(- (expt 2 100))", "big:neg", Big, false, Some(-(1i128 << 100))),
    p(BIG_SMALL, "big:small", Big, false, Some(2)),
    // zero carried as a bignum (bignum arithmetic never demotes its result)
    p("(- (expt 2 70) (expt 2 70))", "big:zero", Big, true, Some(0)),
    // rationals: proper, negative, integer-valued (n/1), i32 extremes in numerator / denominator
    p("1/2", "rat:frac", Rat, true, None),
    p("-7/3", "rat:frac", Rat, false, None),
    p("(/ 6 1)", "rat:int-valued", Rat, true, Some(6)),
    p("(/ -1 1)", "rat:int-valued", Rat, false, Some(-1)),
    p("(/ 0 1)", "rat:int-valued", Rat, false, Some(0)),
    p("(/ -2147483648 1)", "rat:i32min-num,int-valued", Rat, true, Some(-2147483648)),
    p("(/ 2147483647 1)", "rat:i32max-num,int-valued", Rat, false, Some(2147483647)),
    p("-2147483648/3", "rat:i32min-num", Rat, false, None),
    p("2147483647/2", "rat:i32max-num", Rat, false, None),
    p("1/2147483647", "rat:i32max-den", Rat, false, None),
    // floats
    p("1.5", "flo:frac", Flo, true, None),
    p("-0.0", "flo:-0", Flo, false, Some(0)),
    p("2.0", "flo:int-valued", Flo, true, Some(2)),
    p("-1.0", "flo:int-valued", Flo, false, Some(-1)),
    p("1e21", "flo:int-valued,>i64", Flo, false, Some(1_000_000_000_000_000_000_000)),
    p("1e300", "flo:huge", Flo, false, None),
    p("(exp -745)", "flo:tiny", Flo, false, None),
    p("(exp 1000)", "flo:+inf", Flo, true, None),
    p("(- (exp 1000))", "flo:-inf", Flo, false, None),
    p("(- (exp 1000) (exp 1000))", "flo:nan", Flo, true, None),
    // characters
    p("#\\a", "char:ascii", Char, true, None),
    p("#\\7", "char:ascii", Char, false, None),
    p("#\\space", "char:ascii", Char, false, None),
    p("#\\x0", "char:nul", Char, false, None),
    p("#\\λ", "char:non-ascii", Char, true, None),
    p("#\\x1F600", "char:non-ascii", Char, false, None),
    p("#\\ß", "char:non-ascii", Char, false, None),
    // strings (literals are re-read for every call, so they are fresh objects)
    p("\"\"", "str:empty", Str, true, None),
    p("\"a\"", "str:len1", Str, false, None),
    p("\"hello\"", "str:ascii", Str, true, None),
    p("\"12\"", "str:numeric", Str, false, None),
    p("\"-1/2\"", "str:numeric", Str, false, None),
    p("\"1e400\"", "str:numeric", Str, false, None),
    p("\"λ\"", "str:len1,non-ascii", Str, false, None),
    p("\"aλ日本𝒳ß\"", "str:non-ascii", Str, true, None),
    p("(make-string 3 #\\x)", "str:ascii", Str, false, None),
    // symbols
    p("'a", "sym", Sym, true, None),
    p("'λ", "sym:non-ascii", Sym, false, None),
    p("(string->symbol \"\")", "sym:empty", Sym, false, None),
    p("(string->symbol \"a b\")", "sym:escaped", Sym, false, None),
    p("'else", "sym", Sym, false, None),
    // vectors: empty, one element, several, chars, shared element, nested
    p("(vector)", "vec:empty", Vector, true, None),
    p("(vector 1)", "vec:one", Vector, true, None),
    p("(vector 1 2 3)", "vec:many", Vector, true, None),
    p("(vector #\\a #\\λ)", "vec:chars", Vector, false, None),
    p("(let ((x (list 1))) (vector x x))", "vec:shared", Vector, false, None),
    p("(vector (vector) (vector 1))", "vec:nested", Vector, false, None),
    // pairs and lists: one element, several, improper, chars, association list, shared, nested, deep
    p("(list 1)", "list:one", List, true, None),
    p("(list 1 2 3)", "list:many", List, true, None),
    p("(cons 1 2)", "list:improper", List, true, None),
    p("(cons 1 (cons 2 3))", "list:improper", List, false, None),
    p("(list #\\a #\\λ)", "list:chars", List, false, None),
    p("(list \"a\" \"b\")", "list:strings", List, false, None),
    p("(list (cons 1 2) (cons 'a 4))", "list:alist", List, false, None),
    p("(let ((x (list 1))) (list x x))", "list:shared", List, false, None),
    p("(list (list 1 2) (list 3 4))", "list:lists", List, true, None),
    p("(list (list 1 2) (list))", "list:lists", List, false, None),
    p("(list (cons #t 1))", "list:promise", List, false, None),
    p("(list (cons #f (lambda () 1)))", "list:promise", List, false, None),
    p("(c06-nest 60)", "list:deep", List, false, None),
    // programs as data (what `eval` and `apply` are handed): procedure, continuation and macro
    // objects inside a quote form and in operator position, a malformed special form
    p("(list 'quote car)", "list:code-with-object", List, true, None),
    p("(list 'quote (lambda (x) x))", "list:code-with-object", List, false, None),
    p("(list 'quote c06-k)", "list:code-with-object", List, false, None),
    p("(list 'quote (car (list cond)))", "list:code-with-object", List, false, None),
    p("(list car ''(1 2))", "list:code-with-object", List, false, None),
    p("(list 'quote (cons 1 car))", "list:code-with-object", List, false, None),
    p("(list 'quote (vector 1 (list c06-k)))", "list:code-with-object", List, false, None),
    p("(list 'quasiquote (cons 1 car))", "list:code-with-object", List, false, None),
    p("(list 'if)", "list:code", List, false, None),
    p("(list '+ 1 2)", "list:code", List, false, None),
    // procedures: builtin, variadic builtin, closures of arity 1, 0, 2 and variadic
    p("car", "proc:builtin", Proc, true, None),
    p("+", "proc:builtin", Proc, false, None),
    p("(lambda (x) x)", "proc:closure", Proc, true, None),
    p("(lambda () 1)", "proc:closure", Proc, false, None),
    p("(lambda (x y) x)", "proc:closure", Proc, false, None),
    p("(lambda args args)", "proc:variadic", Proc, true, None),
    // a continuation captured by an earlier evaluation. (A fresh one, `(call/cc (lambda (k) k))`,
    // is deliberately absent: two of them in one call can re-enter each other forever, which is a
    // diverging *program* — `(apply k1 k2 '())` — and not the library's fault.)
    p("c06-k", "cont", Cont, true, None),
    // macros as data
    p("(vector-ref (vector let) 0)", "macro", Macro, true, None),
    p("(car (list cond))", "macro", Macro, false, None),
    // the unspecified value
    p("(if #f #f)", "void", Void, true, None),
    // circular data (restricted, see `CIRCULAR_OK`)
    p("(c06-circ)", "list:circular", Circ, true, None),
    p("(c06-circ-car)", "list:circular-car", Circ, false, None),
    // a cycle that does not pass through the first pair
    p("(c06-rho)", "list:circular-after-a-prefix", Circ, true, None),
    p("(c06-selfvec)", "vec:self-containing", Circ, true, None),
];

/// pseudo procedure: the palette expression itself is the program ("as the value of an evaluation")
pub const VALUE_PROC: &str = "<value>";

/// The procedures R7RS requires to cope with circular data (statement of C06).
pub const CIRCULAR_OK: &[&str] = &["list?", "length", "equal?", "display", "write"];

pub fn palette_index(expr: &str) -> Option<usize> {
    PALETTE.iter().position(|p| p.expr == expr)
}

// ---------------------------------------------------------------------------
// roles

#[derive(Clone, Copy, Debug, PartialEq, Eq)]
pub enum Role {
    Any,
    /// requested allocation size: bounded by 10^6 (statement)
    Size,
    /// exponent: the result has about bits(base) * exponent bits; bounded like a size
    Exp,
    Idx,
    Radix,
    Num,
    Int,
    Chr,
    Str,
    Vec,
    List,
    Proc,
}

pub const ALLOC_BOUND: i128 = 1_000_000;
/// `expt` with an exact integer base of magnitude > 2: bits(base) * exponent must stay near the
/// bound, so the exponent is limited to this (2^100 ^ 1000 has 10^5 bits).
pub const EXP_BOUND_BIG_BASE: i128 = 1000;

/// (procedure, roles of the leading positions, role of every further position).
/// Only `Size` and `Exp` restrict what is generated; everything else aims the sampling of
/// arity 3..5. Procedures that are not listed take `Any` everywhere.
pub const ROLES: &[(&str, &[Role], Role)] = &[
    ("make-vector", &[Role::Size, Role::Any], Role::Any),
    ("make-string", &[Role::Size, Role::Chr], Role::Any),
    ("expt", &[Role::Num, Role::Exp], Role::Any),
    ("pow", &[Role::Num, Role::Exp], Role::Any),
    ("vector-ref", &[Role::Vec, Role::Idx], Role::Any),
    ("vector-set!", &[Role::Vec, Role::Idx, Role::Any], Role::Any),
    ("vector-fill!", &[Role::Vec, Role::Any], Role::Any),
    ("vector-copy", &[Role::Vec, Role::Idx, Role::Idx], Role::Any),
    ("vector-copy!", &[Role::Vec, Role::Idx, Role::Vec, Role::Idx, Role::Idx], Role::Any),
    ("string-ref", &[Role::Str, Role::Idx], Role::Any),
    ("string-set!", &[Role::Str, Role::Idx, Role::Chr], Role::Any),
    ("string-fill!", &[Role::Str, Role::Chr, Role::Idx, Role::Idx], Role::Any),
    ("string-copy", &[Role::Str, Role::Idx, Role::Idx], Role::Any),
    ("substring", &[Role::Str, Role::Idx, Role::Idx], Role::Any),
    ("string->list", &[Role::Str, Role::Idx, Role::Idx], Role::Any),
    ("string->number", &[Role::Str, Role::Radix], Role::Any),
    ("number->string", &[Role::Num, Role::Radix], Role::Any),
    ("list-ref", &[Role::List, Role::Idx], Role::Any),
    ("list-tail", &[Role::List, Role::Idx], Role::Any),
    ("apply", &[Role::Proc, Role::Any, Role::Any, Role::Any, Role::List], Role::List),
    ("map", &[Role::Proc], Role::List),
    ("for-each", &[Role::Proc], Role::List),
    ("any?", &[Role::Proc, Role::List], Role::Any),
    ("map1", &[Role::Proc, Role::List], Role::Any),
    ("append", &[], Role::List),
    ("string-append", &[], Role::Str),
    ("string", &[], Role::Chr),
    ("atan", &[Role::Num, Role::Num], Role::Any),
    ("quotient", &[Role::Int, Role::Int], Role::Any),
    ("remainder", &[Role::Int, Role::Int], Role::Any),
    ("modulo", &[Role::Int, Role::Int], Role::Any),
    ("%", &[Role::Int, Role::Int], Role::Any),
    ("+", &[], Role::Num),
    ("-", &[], Role::Num),
    ("*", &[], Role::Num),
    ("/", &[], Role::Num),
    ("=", &[], Role::Num),
    ("<", &[], Role::Num),
    (">", &[], Role::Num),
    ("<=", &[], Role::Num),
    (">=", &[], Role::Num),
    ("min", &[], Role::Num),
    ("max", &[], Role::Num),
    ("symbol=?", &[], Role::Any),
    ("error", &[], Role::Any),
    ("vector", &[], Role::Any),
    ("list", &[], Role::Any),
];

pub fn role_of(proc: &str, pos: usize) -> Role {
    for (name, lead, rest) in ROLES {
        if *name == proc {
            return lead.get(pos).copied().unwrap_or(*rest);
        }
    }
    // families recognised by name (sampling aim only)
    if proc.starts_with("string") && (proc.ends_with('?')) {
        return Role::Str;
    }
    if proc.starts_with("char") && proc.ends_with('?') {
        return Role::Chr;
    }
    Role::Any
}

pub fn group_fits(role: Role, g: Group) -> bool {
    match role {
        Role::Any => true,
        Role::Size | Role::Exp | Role::Idx | Role::Radix | Role::Int => matches!(g, Int | Big | Rat | Flo),
        Role::Num => matches!(g, Int | Big | Rat | Flo),
        Role::Chr => g == Char,
        Role::Str => g == Str,
        Role::Vec => g == Vector,
        Role::List => matches!(g, List | Nil),
        Role::Proc => matches!(g, Proc | Cont),
    }
}

/// Why a call is outside the statement's bounds (and therefore not generated), if it is.
pub fn out_of_bounds(proc: &str, args: &[usize]) -> Option<&'static str> {
    for (i, a) in args.iter().enumerate() {
        let pal = &PALETTE[*a];
        if pal.group == Circ && !CIRCULAR_OK.contains(&proc) && proc != VALUE_PROC {
            return Some("circular-argument-to-other-procedure");
        }
        match role_of(proc, i) {
            Role::Size => {
                if pal.int.map(|v| v > ALLOC_BOUND).unwrap_or(false) {
                    return Some("allocation-size>1e6");
                }
                // (make-vector n fill): the value (and its printed form) has n copies of fill;
                // n * size(fill) is what is requested
                if proc == "make-vector" && pal.int.map(|v| v > 1000).unwrap_or(false) {
                    if let Some(fill) = args.get(i + 1) {
                        if matches!(PALETTE[*fill].group, Str | Vector | List | Big) {
                            return Some("allocation-size*fill-size>1e6");
                        }
                    }
                }
            }
            Role::Exp => {
                if let Some(e) = pal.int {
                    if e > ALLOC_BOUND {
                        return Some("exponent>1e6");
                    }
                    let base_big = i
                        .checked_sub(1)
                        .and_then(|b| args.get(b))
                        .map(|b| {
                            let bp = &PALETTE[*b];
                            matches!(bp.group, Int | Big) && bp.int.map(|v| v.abs() > 2).unwrap_or(true)
                        })
                        .unwrap_or(false);
                    if base_big && e > EXP_BOUND_BIG_BASE {
                        return Some("exponent>1e3-with-integer-base");
                    }
                }
            }
            _ => {}
        }
    }
    None
}

// ---------------------------------------------------------------------------
// signatures

/// Length of a palette container (strings in characters), where index arithmetic depends on it.
pub fn container_len(pal: &Pal) -> Option<usize> {
    Some(match pal.expr {
        "\"\"" | "(vector)" | "'()" => 0,
        "\"a\"" | "\"λ\"" | "(vector 1)" | "(list 1)" | "(list (cons #t 1))" | "(list (cons #f (lambda () 1)))" | "(c06-nest 60)" => 1,
        "\"12\"" | "(vector #\\a #\\λ)" | "(let ((x (list 1))) (vector x x))" | "(vector (vector) (vector 1))" => 2,
        "(make-string 3 #\\x)" | "(vector 1 2 3)" => 3,
        "\"-1/2\"" => 4,
        "\"hello\"" | "\"1e400\"" => 5,
        "\"aλ日本𝒳ß\"" => 6,
        _ => return None,
    })
}

/// Several global names are one Rust function (or a prelude wrapper that only forwards): the
/// signature carries the canonical name, so that one listed finding covers the aliases.
pub fn canonical(proc: &str) -> &str {
    match proc {
        "pow" => "expt",
        "%" => "remainder",
        "substring" => "string-copy",
        "call-with-current-continuation" => "call/cc",
        p => p,
    }
}

/// A boundary predicate of the input that names the root cause where one is known; it is put
/// in front of the argument classes so that one listed signature (`...|<feature>|*`) covers
/// the whole family and nothing else. Computed from the input only.
pub fn feature(proc: &str, args: &[usize]) -> Option<String> {
    let pal = |i: usize| args.get(i).map(|a| &PALETTE[*a]);
    let cls = |i: usize| pal(i).map(|p| p.class).unwrap_or("");
    let grp = |i: usize| pal(i).map(|p| p.group);
    // exact integer value of an argument that is not a float
    let int = |i: usize| pal(i).filter(|p| p.group != Flo).and_then(|p| p.int);
    let len = |i: usize| pal(i).and_then(container_len);
    let n = args.len();
    // circular data anywhere: how many arguments, and which kind of cycle comes first
    let ncirc = args.iter().filter(|a| PALETTE[**a].group == Circ).count();
    if ncirc > 0 {
        let first = args.iter().map(|a| &PALETTE[*a]).find(|p| p.group == Circ).map(|p| p.class).unwrap_or("");
        return Some(if proc == "equal?" {
            format!("circular,argc={},{}", n, if ncirc == 2 { "both" } else { "one" })
        } else {
            format!("circular,argc={},{}", n, first)
        });
    }
    const I32MIN: i128 = -2147483648;
    let rat_extreme = |i: usize| grp(i) == Some(Rat) && cls(i).contains("i32m");
    match canonical(proc) {
        // index arithmetic on empty / one-element containers
        "vector-ref" | "vector-set!" if cls(0) == "vec:empty" && n >= 2 => Some("vec:empty".into()),
        "vector-copy" if cls(0) == "vec:empty" => Some("vec:empty".into()),
        "vector-copy!" if n >= 3 && (cls(0) == "vec:empty" || cls(2) == "vec:empty") => Some("vec:empty".into()),
        "string-fill!" if n == 3 && grp(0) == Some(Str) && matches!((int(2), len(0)), (Some(s), Some(l)) if s > l as i128) => {
            Some("start>length".into())
        }
        "string-fill!"
            if n == 4 && grp(0) == Some(Str) && matches!((int(2), int(3), len(0)), (Some(s), Some(e), Some(l)) if s == l as i128 && e > ALLOC_BOUND) =>
        {
            Some("start=length,end>1e6".into())
        }
        "string-ref" | "string-set!" | "string-copy" | "string->list" | "string-fill!"
            if grp(0) == Some(Str) && n >= (if proc == "string-fill!" { 3 } else { 2 }) =>
        {
            if cls(0) == "str:empty" {
                Some("str:empty".into())
            } else if cls(0).starts_with("str:len1") {
                Some("str:len1".into())
            } else {
                None
            }
        }
        "string->number" if n == 2 => match int(1) {
            Some(r) if !(2..=36).contains(&r) && r >= 0 => Some("radix:outside-2..36".into()),
            _ => None,
        },
        "number->string" if n == 2 => {
            let nonfinite = matches!(cls(0), "flo:+inf" | "flo:-inf" | "flo:nan");
            if grp(0) == Some(Flo) && matches!(int(1), Some(2) | Some(8) | Some(16)) {
                Some(if nonfinite { "flo:non-finite,radix:2-8-16".into() } else { "flo:finite,radix:2-8-16".into() })
            } else {
                None
            }
        }
        // exact arithmetic at the edges of the fixed-width representations
        "quotient" | "remainder" | "modulo" if n == 2 => {
            if int(0) == Some(i64::MIN as i128) && int(1) == Some(-1) {
                Some("i64min,-1".into())
            } else if grp(0) == Some(Rat) && grp(1) == Some(Rat) {
                Some("rat:int-valued,both".into())
            } else {
                None
            }
        }
        "/" if (0..n).any(|i| int(i) == Some(I32MIN) || rat_extreme(i)) => Some("i32-extreme-operand".into()),
        "abs" | "floor" | "ceiling" | "round" | "truncate" if n == 1 && grp(0) == Some(Rat) && cls(0).contains("i32m") => {
            Some("rat:i32-extreme".into())
        }
        "expt" if n == 2 && grp(0) == Some(Rat) => Some("rat-base".into()),
        "for-each" | "map" if n == 1 => Some("no-list".into()),
        _ => None,
    }
}

pub fn call_text(proc: &str, args: &[usize]) -> String {
    let mut s = String::from("(");
    s.push_str(proc);
    for a in args {
        s.push(' ');
        s.push_str(PALETTE[*a].expr);
    }
    s.push(')');
    s
}

// ---------------------------------------------------------------------------
// small deterministic generator for sampled enumeration (seeded from ctx.sub_seed)

pub struct SplitMix(pub u64);

impl SplitMix {
    pub fn next(&mut self) -> u64 {
        self.0 = self.0.wrapping_add(0x9E3779B97F4A7C15);
        let mut z = self.0;
        z = (z ^ (z >> 30)).wrapping_mul(0xBF58476D1CE4E5B9);
        z = (z ^ (z >> 27)).wrapping_mul(0x94D049BB133111EB);
        z ^ (z >> 31)
    }
    pub fn below(&mut self, n: usize) -> usize {
        if n <= 1 {
            0
        } else {
            ((self.next() as u128 * n as u128) >> 64) as usize
        }
    }
}

/// One sampled argument for position `pos` of `proc`: mostly a value of the kind the position
/// wants (so that range and boundary logic behind the type checks is reached), otherwise anything.
pub fn sample_arg(rng: &mut SplitMix, proc: &str, pos: usize, pools: &[Vec<usize>; 12]) -> usize {
    let role = role_of(proc, pos);
    let aimed = rng.below(100) < 70;
    if aimed {
        let pool = &pools[role as usize];
        if !pool.is_empty() {
            return pool[rng.below(pool.len())];
        }
    }
    rng.below(PALETTE.len())
}

pub fn role_pools() -> [Vec<usize>; 12] {
    let roles = [
        Role::Any,
        Role::Size,
        Role::Exp,
        Role::Idx,
        Role::Radix,
        Role::Num,
        Role::Int,
        Role::Chr,
        Role::Str,
        Role::Vec,
        Role::List,
        Role::Proc,
    ];
    let mut out: [Vec<usize>; 12] = Default::default();
    for r in roles {
        let mut v = vec![];
        for (i, pal) in PALETTE.iter().enumerate() {
            if pal.group == Circ {
                continue;
            }
            let ok = match r {
                Role::Any => true,
                // indices, sizes, radices: small integers of every representation, plus the extremes
                Role::Idx | Role::Size | Role::Radix | Role::Exp | Role::Int => {
                    group_fits(r, pal.group) && pal.int.is_some()
                }
                _ => group_fits(r, pal.group),
            };
            if ok {
                v.push(i);
            }
        }
        out[r as usize] = v;
    }
    out
}

// ---------------------------------------------------------------------------
// text domain: an evaluation-oriented token soup (the reader-oriented generators are
// `readergen::{gen_unicode_text, gen_soup, gen_mutation}`)

/// Lexemes that make the compiler and the evaluator do something: special forms, derived forms,
/// procedures, variables, small constants. Deliberately absent: anything that requests memory
/// by a number or doubles a container (make-vector, make-string, expt, string-append, append)
/// and the mutators that build cycles (set-car!, set-cdr!, vector-set!, vector-fill!) — the soup
/// is budgeted in instructions, not in bytes, and a circular result is the structured domain's business.
pub const EVAL_LEXEMES: &[&str] = &[
    "(", "(", "(", ")", ")", ")", ")", "'", "`", ",", "#(", ".", "[", "]",
    "define", "lambda", "if", "set!", "quote", "quasiquote", "unquote", "let", "let*", "letrec", "begin", "cond", "case", "else",
    "=>", "and", "or", "when", "unless", "define-syntax", "syntax-rules", "...", "_", "delay", "force", "do",
    "car", "cdr", "cons", "list", "vector", "vector-ref", "vector-length", "length", "reverse", "map", "for-each", "apply",
    "call/cc", "eval", "error", "+", "-", "*", "/", "=", "<", "quotient", "number->string", "string->number", "string-ref",
    "string-length", "string->symbol", "symbol->string", "list-tail", "list-ref", "memv", "assq", "not", "eq?", "equal?",
    "null?", "pair?", "procedure?", "display", "write", "char->integer", "integer->char", "vector->list", "list->vector",
    "string->list", "list->string", "string-copy", "substring", "exact->inexact", "sqrt", "abs", "min", "max",
    "x", "y", "f", "g", "k", "x", "f",
    "0", "1", "2", "-1", "10", "1/2", "1.5", "#t", "#f", "#\\a", "\"s\"", "\"\"", "'()", "()", "#()",
    // malformed formals and binding lists: numbers, strings, characters, nested lists where a name belongs
    "(define (g x . 1.5) x)", "(lambda (1.5) 1)", "(lambda (x . 2.5) x)", "(lambda () (define (k 1e3) 1) k)", "(let ((1.5 2)) 1)",
    "(lambda (x \"s\") x)", "(define (f #t) 1)", "(lambda (#\\a) 1)", "(define ((f)) 1)", "(lambda (x x) x)", "(let loop ((1 2)) 1)",
    "(define (h . (a 2.0)) 1)", "(lambda (a #(1.5)) a)",
    // literals beyond the double range, with every prefix that converts
    "#i100000000000000000000000000000000000000000000000000000000000000000000000000000000000000000000000000000000000000000000000000000000000000000000000000000000000000000000000000000000000000000000000000000000000000000000000000000000000000000000000000000000000000000000000000000000000000000000000000000000000000000000000000000000", "#e1e400", "#i#xffffffffffffffffffffffffffffffffffffffffffffffffffffffffffffffffffffffffffffffffffffffffffffffffffffffffffffffffffffffffffffffffffffffffffffffffffffffffffffffffffffffffffffffffffffffffffffffffffffffffffffffffffffffffffffffffffffffffffffffffffffffffffffffffffffffffffffff", "#x#iffffffffffffffffffffffffffffffffffffffffffffffffffffffffffffffffffffffffffffffffffffffffffffffffffffffffffffffffffffffffffffffffffffffffffffffffffffffffffffffffffffffffffffffffffffffffffffffffffffffffffffffffffffffffffffffffffffffffffffffffffffffffffffffffffffffffffffff", "#i#b11111111111111111111111111111111111111111111111111111111111111111111111111111111111111111111111111111111111111111111111111111111111111111111111111111111111111111111111111111111111111111111111111111111111111111111111111111111111111111111111111111111111111111111111111111111111111111111111111111111111111111111111111111111111111111111111111111111111111111111111111111111111111111111111111111111111111111111111111111111111111111111111111111111111111111111111111111111111111111111111111111111111111111111111111111111111111111111111111111111111111111111111111111111111111111111111111111111111111111111111111111111111111111111111111111111111111111111111111111111111111111111111111111111111111111111111111111111111111111111111111111111111111111111111111111111111111111111111111111111111111111111111111111111111111111111111111111111111111111111111111111111111111111111111111111111111111111111111111111111111111111111111111111111111111111111111111111111111111111111111111111111111111111111111111111111111111111111111111111111111111111111111111111111111111111111111111111111111111111111111111111111111111111111", "#e1.5e-400", "100000000000000000000000000000000000000000000000000000000000000000000000000000000000000000000000000000000000000000000000000000000000000000000000000000000000000000000000000000000000000000000000000000000000000000000000000000000000000000000000000000000000000000000000000000000000000000000000000000000000000000000000000000000.5", "#i-100000000000000000000000000000000000000000000000000000000000000000000000000000000000000000000000000000000000000000000000000000000000000000000000000000000000000000000000000000000000000000000000000000000000000000000000000000000000000000000000000000000000000000000000000000000000000000000000000000000000000000000000000000000/3",
    // literals with prefixes in both cases, and character literals at the edges of the scalar range
    "#x1F", "#X1F", "#e1.5", "#E1", "#b101", "#B101", "#o17", "#D9", "#i1/2", "#e#x10", "#\\x41", "#\\x110000", "#\\x100000000", "#\\X41",
    "(lambda (x) x)", "(lambda args args)", "(define (f x)", "(define x", "(let ((x 1))", "(let loop ((x 0))", "(f x)", "(loop",
    "(if x", "(call/cc (lambda (k)", "(k 1)", "(set! x", "(cond ((f x)", "(else", "`(1 ,x)", "(x)", "((f))",
];

pub fn gen_eval_soup(c: &mut Choices) -> String {
    let n = 1 + c.below(28);
    let mut s = String::new();
    let mut open: usize = 0;
    for _ in 0..n {
        let lx = *c.pick(EVAL_LEXEMES);
        open += lx.matches(['(', '[']).count();
        open = open.saturating_sub(lx.matches([')', ']']).count());
        s.push_str(lx);
        s.push(' ');
    }
    // usually close what is open, so that forms reach the compiler instead of ending in "incomplete"
    if c.chance(200) {
        for _ in 0..open.min(64) {
            s.push(')');
        }
    }
    s
}

/// Maximum bracket nesting of a text (openers not closed, at their deepest) — the statement
/// bounds nesting depth by 64; deeper texts are not handed to the library.
pub fn nesting_depth(text: &str) -> usize {
    let mut depth = 0usize;
    let mut max = 0usize;
    let mut quotes = 0usize;
    for ch in text.chars() {
        match ch {
            '(' | '[' | '{' => {
                depth += 1;
                max = max.max(depth);
            }
            ')' | ']' | '}' => depth = depth.saturating_sub(1),
            // quote-like prefixes nest as well ('x reads as (quote x)); counted conservatively:
            // every one of them is taken to nest inside all the others
            '\'' | '`' | ',' => quotes += 1,
            _ => {}
        }
    }
    max + quotes
}
