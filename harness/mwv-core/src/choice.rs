//! Choice sequences: every generator in the harness is a pure decoder from a
//! byte string. Alternatives are ordered simplest-first and an exhausted
//! sequence keeps answering 0, i.e. yields the simplest completion, which also
//! bounds the size of what is generated. proptest (and libFuzzer) mutate and
//! shrink the bytes; deleting or lowering bytes yields smaller cases.

#[derive(Clone, Debug)]
pub struct Choices<'a> {
    data: &'a [u8],
    pos: usize,
}

impl<'a> Choices<'a> {
    pub fn new(data: &'a [u8]) -> Choices<'a> {
        Choices { data, pos: 0 }
    }

    pub fn exhausted(&self) -> bool {
        self.pos >= self.data.len()
    }

    pub fn consumed(&self) -> usize {
        self.pos
    }

    pub fn byte(&mut self) -> u8 {
        let b = self.data.get(self.pos).copied().unwrap_or(0);
        self.pos += 1;
        b
    }

    /// Uniform-ish value in 0..n, monotone in the underlying bytes (no `%`),
    /// so that lowering a byte lowers the choice.
    pub fn below(&mut self, n: usize) -> usize {
        if n <= 1 {
            return 0;
        }
        if n <= 256 {
            (self.byte() as usize * n) >> 8
        } else if n <= 65536 {
            let v = ((self.byte() as usize) << 8) | self.byte() as usize;
            (v * n) >> 16
        } else {
            let mut v: u128 = 0;
            for _ in 0..8 {
                v = (v << 8) | self.byte() as u128;
            }
            ((v * n as u128) >> 64) as usize
        }
    }

    /// Inclusive range.
    pub fn range(&mut self, lo: i64, hi: i64) -> i64 {
        debug_assert!(lo <= hi);
        lo + self.below((hi - lo + 1) as usize) as i64
    }

    /// True with probability num/256; false is the simple answer.
    pub fn chance(&mut self, num: u8) -> bool {
        // byte 0 (exhausted) => false
        let b = self.byte();
        b != 0 && (256 - b as u16) <= num as u16
    }

    pub fn flip(&mut self) -> bool {
        self.byte() >= 128
    }

    pub fn pick<'b, T>(&mut self, xs: &'b [T]) -> &'b T {
        &xs[self.below(xs.len())]
    }

    pub fn pick_str(&mut self, xs: &[&'static str]) -> &'static str {
        xs[self.below(xs.len())]
    }

    /// Weighted choice; returns the index. Earlier entries are "simpler".
    pub fn weighted(&mut self, weights: &[u32]) -> usize {
        let total: u64 = weights.iter().map(|w| *w as u64).sum();
        if total == 0 {
            return 0;
        }
        let v = ((self.byte() as u64) << 8) | self.byte() as u64;
        let mut x = (v * total) >> 16;
        for (i, w) in weights.iter().enumerate() {
            if x < *w as u64 {
                return i;
            }
            x -= *w as u64;
        }
        weights.len() - 1
    }

    pub fn u64(&mut self) -> u64 {
        let mut v = 0u64;
        for _ in 0..8 {
            v = (v << 8) | self.byte() as u64;
        }
        v
    }

    pub fn u32(&mut self) -> u32 {
        let mut v = 0u32;
        for _ in 0..4 {
            v = (v << 8) | self.byte() as u32;
        }
        v
    }
}

pub fn hex(bytes: &[u8]) -> String {
    let mut s = String::with_capacity(bytes.len() * 2);
    for b in bytes {
        s.push_str(&format!("{:02x}", b));
    }
    s
}

pub fn unhex(s: &str) -> Vec<u8> {
    let b = s.as_bytes();
    let mut out = Vec::with_capacity(b.len() / 2);
    let mut i = 0;
    while i + 1 < b.len() {
        let h = (b[i] as char).to_digit(16).unwrap_or(0) as u8;
        let l = (b[i + 1] as char).to_digit(16).unwrap_or(0) as u8;
        out.push((h << 4) | l);
        i += 2;
    }
    out
}

/// FNV-1a, used for "distinct case" hashes (stable across runs and processes).
pub fn fnv(bytes: &[u8]) -> u64 {
    let mut h: u64 = 0xcbf29ce484222325;
    for b in bytes {
        h ^= *b as u64;
        h = h.wrapping_mul(0x100000001b3);
    }
    h
}
