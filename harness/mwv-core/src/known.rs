//! KNOWN_FINDINGS.txt: committed, line oriented, never written at run time.
//!
//! ```text
//! finding: property=C08 sig=<signature> :: <what fails, with the concrete input>
//! fixed:   property=C13 <commit> <what failed>
//! ```
//! A signature is matched exactly, or by prefix when the listed signature
//! ends in `*`.

#[derive(Clone, Debug)]
pub struct Finding {
    pub property: String,
    pub sig: String,
    pub text: String,
}

#[derive(Clone, Debug, Default)]
pub struct Known {
    pub findings: Vec<Finding>,
    pub fixed: Vec<(String, String)>,
}

impl Known {
    pub fn parse(text: &str) -> Known {
        let mut k = Known::default();
        for line in text.lines() {
            let line = line.trim();
            if let Some(rest) = line.strip_prefix("finding:") {
                let rest = rest.trim();
                let (head, text) = match rest.split_once(" :: ") {
                    Some((h, t)) => (h, t.trim().to_string()),
                    None => (rest, String::new()),
                };
                let head = head.trim();
                if let Some(p) = head.strip_prefix("property=") {
                    if let Some((prop, sig)) = p.split_once(" sig=") {
                        k.findings.push(Finding {
                            property: prop.trim().to_string(),
                            sig: sig.trim().to_string(),
                            text,
                        });
                    }
                }
            } else if let Some(rest) = line.strip_prefix("fixed:") {
                let rest = rest.trim();
                if let Some(p) = rest.strip_prefix("property=") {
                    let (prop, what) = p.split_once(' ').unwrap_or((p, ""));
                    k.fixed.push((prop.to_string(), what.to_string()));
                }
            }
        }
        k
    }

    pub fn load(path: &str) -> Known {
        match std::fs::read_to_string(path) {
            Ok(t) => Known::parse(&t),
            Err(_) => Known::default(),
        }
    }

    pub fn lookup(&self, property: &str, sig: &str) -> Option<&Finding> {
        self.findings.iter().find(|f| {
            f.property == property
                && (f.sig == sig
                    || (f.sig.ends_with('*') && sig.starts_with(&f.sig[..f.sig.len() - 1])))
        })
    }

    pub fn for_property<'a>(&'a self, property: &'a str) -> impl Iterator<Item = &'a Finding> {
        self.findings.iter().filter(move |f| f.property == property)
    }
}
