pub mod choice;
pub mod known;
pub mod readergen;
pub mod sx;
