pub mod choice;
pub mod known;
pub mod readergen;
pub mod sx;
pub mod ri;
pub mod pg;
pub mod skeleton;
pub mod synrules;
