pub mod choice;
pub mod known;
pub mod store;
pub mod sx;
