pub mod choice;
pub mod known;
pub mod sx;
pub mod numeric;
