//! Boundary-biased numeric palette (NP) and the exact oracle for the numeric
//! properties (C08 arithmetic, C09 comparison, C16 number<->string).
//!
//! Nothing here depends on the system under test. Values are `BigRational`s
//! of the `num` crate (trusted base); doubles are converted *exactly* by
//! decomposing their bit pattern; +-inf are extended values.
//!
//! `NumRepr` mirrors the four internal representations the SUT has, so that a
//! mathematical value can be carried in every representation that can hold it.

use crate::choice::Choices;
use num::bigint::BigInt;
use num::{BigRational, Integer, One, Signed, ToPrimitive, Zero};
use std::cmp::Ordering;

// ---------------------------------------------------------------- values

/// One concrete representation of a number (mirror of the SUT's enum).
/// `Rat(n, d)` is reduced with `d >= 1`; `d == 1` is an integer-valued rational.
#[derive(Clone, Debug)]
pub enum NumRepr {
    Fix(i64),
    Big(BigInt),
    Rat(i32, i32),
    Flo(f64),
}

/// Extended real: what a (non-NaN) number denotes.
#[derive(Clone, Debug, PartialEq)]
pub enum Ext {
    NegInf,
    Fin(BigRational),
    PosInf,
    NaN,
}

pub fn big(i: i64) -> BigInt {
    BigInt::from(i)
}

pub fn pow2(k: u32) -> BigInt {
    BigInt::one() << (k as usize)
}

pub fn rat_i(i: &BigInt) -> BigRational {
    BigRational::from_integer(i.clone())
}

pub fn rat(n: i64, d: i64) -> BigRational {
    BigRational::new(BigInt::from(n), BigInt::from(d))
}

/// Exact value of a finite double (bit decomposition, no rounding anywhere).
pub fn f64_to_exact(f: f64) -> Option<BigRational> {
    if !f.is_finite() {
        return None;
    }
    let bits = f.to_bits();
    let neg = (bits >> 63) != 0;
    let e = ((bits >> 52) & 0x7ff) as i64;
    let m = bits & ((1u64 << 52) - 1);
    let (mant, exp) = if e == 0 { (m, -1074i64) } else { (m | (1u64 << 52), e - 1075) };
    let mant = BigInt::from(mant);
    let r = if exp >= 0 {
        BigRational::from_integer(mant << (exp as usize))
    } else {
        BigRational::new(mant, BigInt::one() << ((-exp) as usize))
    };
    Some(if neg { -r } else { r })
}

pub fn f64_ext(f: f64) -> Ext {
    if f.is_nan() {
        Ext::NaN
    } else if f == f64::INFINITY {
        Ext::PosInf
    } else if f == f64::NEG_INFINITY {
        Ext::NegInf
    } else {
        Ext::Fin(f64_to_exact(f).unwrap())
    }
}

/// The true order of two extended reals; `None` iff a NaN is involved.
pub fn ext_cmp(a: &Ext, b: &Ext) -> Option<Ordering> {
    use Ext::*;
    match (a, b) {
        (NaN, _) | (_, NaN) => None,
        (NegInf, NegInf) | (PosInf, PosInf) => Some(Ordering::Equal),
        (NegInf, _) => Some(Ordering::Less),
        (_, NegInf) => Some(Ordering::Greater),
        (PosInf, _) => Some(Ordering::Greater),
        (_, PosInf) => Some(Ordering::Less),
        (Fin(x), Fin(y)) => Some(x.cmp(y)),
    }
}

pub fn next_up(f: f64) -> f64 {
    if f.is_nan() || f == f64::INFINITY {
        return f;
    }
    if f == 0.0 {
        return f64::from_bits(1);
    }
    let b = f.to_bits();
    if f > 0.0 {
        f64::from_bits(b + 1)
    } else {
        f64::from_bits(b - 1)
    }
}

pub fn next_down(f: f64) -> f64 {
    -next_up(-f)
}

/// A double close to `r` (within a few ulps; used only to *generate* floats
/// adjacent to exact palette members, never inside an oracle).
pub fn near_f64(r: &BigRational) -> f64 {
    // scale so that the integer quotient has ~64 significant bits
    if r.is_zero() {
        return 0.0;
    }
    let nb = r.numer().bits() as i64;
    let db = r.denom().bits() as i64;
    let shift = 64 - (nb - db);
    let q = if shift >= 0 {
        (r.numer().clone() << (shift as usize)) / r.denom()
    } else {
        r.numer().clone() / (r.denom().clone() << ((-shift) as usize))
    };
    let qf = q.to_f64().unwrap_or(0.0);
    qf * 2f64.powi((-shift).clamp(-2000, 2000) as i32)
}

impl NumRepr {
    /// Representation class: fix | big | ratint | rat | flo
    pub fn class(&self) -> &'static str {
        match self {
            NumRepr::Fix(_) => "fix",
            NumRepr::Big(_) => "big",
            NumRepr::Rat(_, 1) => "ratint",
            NumRepr::Rat(_, _) => "rat",
            NumRepr::Flo(_) => "flo",
        }
    }

    pub fn is_exact(&self) -> bool {
        !matches!(self, NumRepr::Flo(_))
    }

    pub fn exact(&self) -> Option<BigRational> {
        match self {
            NumRepr::Fix(i) => Some(BigRational::from_integer(BigInt::from(*i))),
            NumRepr::Big(b) => Some(BigRational::from_integer(b.clone())),
            NumRepr::Rat(n, d) => Some(BigRational::new(BigInt::from(*n), BigInt::from(*d))),
            NumRepr::Flo(_) => None,
        }
    }

    pub fn ext(&self) -> Ext {
        match self {
            NumRepr::Flo(f) => f64_ext(*f),
            other => Ext::Fin(other.exact().unwrap()),
        }
    }

    /// Strict equality used by the harness: same exactness, same value
    /// (floats by bit pattern). The *representation* of exact values is not
    /// compared.
    pub fn same_number(&self, other: &NumRepr) -> bool {
        match (self, other) {
            (NumRepr::Flo(a), NumRepr::Flo(b)) => a.to_bits() == b.to_bits(),
            (NumRepr::Flo(_), _) | (_, NumRepr::Flo(_)) => false,
            (a, b) => a.exact() == b.exact(),
        }
    }

    /// Stable, parseable rendering: `fix:-5`, `big:5`, `rat:-1/2`, `flo:3ff8000000000000(1.5)`.
    pub fn render(&self) -> String {
        match self {
            NumRepr::Fix(i) => format!("fix:{}", i),
            NumRepr::Big(b) => format!("big:{}", b),
            NumRepr::Rat(n, d) => format!("rat:{}/{}", n, d),
            NumRepr::Flo(f) => format!("flo:{:016x}({:e})", f.to_bits(), f),
        }
    }

    pub fn parse(s: &str) -> Option<NumRepr> {
        let (k, v) = s.split_once(':')?;
        match k {
            "fix" => v.parse::<i64>().ok().map(NumRepr::Fix),
            "big" => v.parse::<BigInt>().ok().map(NumRepr::Big),
            "rat" => {
                let (n, d) = v.split_once('/')?;
                Some(NumRepr::Rat(n.parse().ok()?, d.parse().ok()?))
            }
            "flo" => {
                let hex = v.split('(').next()?;
                u64::from_str_radix(hex, 16).ok().map(|b| NumRepr::Flo(f64::from_bits(b)))
            }
            _ => None,
        }
    }
}

pub fn fits_i32(i: &BigInt) -> bool {
    i.to_i32().is_some()
}

pub fn fits_i64(i: &BigInt) -> bool {
    i.to_i64().is_some()
}

/// marwood's documented exact number model: integers of any size; otherwise a
/// reduced rational with numerator in [-2^31, 2^31-1], denominator in [1, 2^31-1].
pub fn representable(t: &BigRational) -> bool {
    t.is_integer() || (fits_i32(t.numer()) && fits_i32(t.denom()))
}

/// Every representation that can hold the exact value `v`
/// (order: fix, big, ratint | rat). Empty iff `v` is not representable.
pub fn reprs_of(v: &BigRational) -> Vec<NumRepr> {
    let mut out = vec![];
    if v.is_integer() {
        let i = v.to_integer();
        if let Some(x) = i.to_i64() {
            out.push(NumRepr::Fix(x));
        }
        out.push(NumRepr::Big(i.clone()));
        if let Some(x) = i.to_i32() {
            out.push(NumRepr::Rat(x, 1));
        }
    } else if let (Some(n), Some(d)) = (v.numer().to_i32(), v.denom().to_i32()) {
        out.push(NumRepr::Rat(n, d));
    }
    out
}

/// The representation the reader would choose (fix if it fits, else big; rat).
pub fn canonical_repr(v: &BigRational) -> Option<NumRepr> {
    reprs_of(v).into_iter().next()
}

// ---------------------------------------------------------------- classes

/// Magnitude / boundary class of an exact value (used in signatures and in
/// the class histograms). Input-derived, finite.
pub fn mag_class(v: &BigRational) -> String {
    if v.is_integer() {
        let i = v.to_integer();
        for (k, name) in [(31u32, "2^31"), (63u32, "2^63")] {
            let p = pow2(k);
            for (sgn, s) in [(1i64, "+"), (-1i64, "-")] {
                let d = &i - &p * BigInt::from(sgn);
                if d.abs() <= BigInt::from(2) {
                    let j = d.to_i64().unwrap();
                    return if j == 0 {
                        format!("{}{}", s, name)
                    } else {
                        format!("{}{}{:+}", s, name, j)
                    };
                }
            }
        }
        if i.is_zero() {
            "0".into()
        } else if fits_i32(&i) {
            "i32".into()
        } else if fits_i64(&i) {
            "i64".into()
        } else {
            "beyond-i64".into()
        }
    } else {
        let nmin = *v.numer() == -pow2(31);
        let nnear = (v.numer().abs() - pow2(31)).abs() <= BigInt::from(2);
        let dnear = (v.denom() - pow2(31)).abs() <= BigInt::from(2);
        if !representable(v) {
            "q-unrepresentable".into()
        } else if nmin {
            "q:num=-2^31".into()
        } else if nnear && dnear {
            "q:num,den~2^31".into()
        } else if nnear {
            "q:num~2^31".into()
        } else if dnear {
            "q:den~2^31".into()
        } else {
            "q".into()
        }
    }
}

/// Coarse size class of an exact value: i32 | i64 | beyond-i64 for integers,
/// q (representable non-integer) | q-unrepresentable.
pub fn size_class(v: &BigRational) -> &'static str {
    if v.is_integer() {
        let i = v.to_integer();
        if fits_i32(&i) {
            "i32"
        } else if fits_i64(&i) {
            "i64"
        } else {
            "beyond-i64"
        }
    } else if representable(v) {
        "q"
    } else {
        "q-unrepresentable"
    }
}

/// Within 2 of +-2^31 or +-2^63 (integers), or numerator/denominator within 2
/// of 2^31 in magnitude (rationals).
pub fn near_boundary(v: &BigRational) -> bool {
    let two = BigInt::from(2);
    let near = |i: &BigInt| {
        let a = i.abs();
        (&a - pow2(31)).abs() <= two || (&a - pow2(63)).abs() <= two
    };
    if v.is_integer() {
        near(&v.to_integer())
    } else {
        (v.numer().abs() - pow2(31)).abs() <= two || (v.denom() - pow2(31)).abs() <= two
    }
}

// ---------------------------------------------------------------- palette

/// Boundary integers: 0, +-1, +-2, and everything within 2 of +-2^k for
/// k in {31, 63} (`extended`: also 32, 53, 64).
pub fn boundary_ints(extended: bool) -> Vec<BigInt> {
    let mut v: Vec<BigInt> = vec![0, 1, -1, 2, -2].into_iter().map(BigInt::from).collect();
    let ks: &[u32] = if extended { &[31, 63, 32, 53, 64] } else { &[31, 63] };
    for k in ks {
        for j in [0i64, -1, 1, -2, 2] {
            for sgn in [1i64, -1] {
                v.push((pow2(*k) + BigInt::from(j)) * BigInt::from(sgn));
            }
        }
    }
    v
}

/// Boundary rationals: non-integral, reduced, numerator in [-2^31, 2^31-1],
/// denominator in [2, 2^31-1], with numerator and/or denominator at the edge
/// of the 32-bit range or at the square root of it.
pub fn boundary_rats() -> Vec<BigRational> {
    let i32max = i32::MAX as i64;
    let i32min = i32::MIN as i64;
    let nums = [1i64, -1, 3, i32max, -i32max, i32min, i32max - 1, i32min + 1, 65537, -46341];
    let dens = [2i64, 3, i32max, i32max - 1, 65536, 46341];
    let mut out: Vec<BigRational> = vec![];
    for n in nums {
        for d in dens {
            let r = rat(n, d);
            if r.is_integer() || !representable(&r) {
                continue;
            }
            if !out.contains(&r) {
                out.push(r);
            }
        }
    }
    out
}

fn random_bits(c: &mut Choices, bits: u32) -> BigInt {
    // signed value of up to `bits` bits; the bit length itself is chosen first so
    // that all lengths up to `bits` occur
    let len = 1 + c.below(bits as usize) as u32;
    let mut v = BigInt::zero();
    let mut got = 0;
    while got < len {
        v = (v << 8usize) | BigInt::from(c.byte());
        got += 8;
    }
    v >>= (got - len) as usize;
    // force the top bit so that the length really is `len`
    v |= pow2(len - 1);
    if c.flip() {
        -v
    } else {
        v
    }
}

/// An integer of the palette.
pub fn gen_int(c: &mut Choices) -> BigInt {
    match c.weighted(&[3, 6, 2, 2, 1, 1, 2]) {
        0 => BigInt::from(c.range(-16, 16)),
        1 => {
            let b = boundary_ints(true);
            c.pick(&b).clone()
        }
        2 => random_bits(c, 32),
        3 => random_bits(c, 64),
        4 => random_bits(c, 128),
        5 => random_bits(c, 256),
        _ => {
            // factors whose products/squares land on or next to a boundary
            let xs: [i64; 12] = [
                46340, 46341, 65535, 65536, 65537, 3037000499, 3037000500, 4294967295, 4294967297,
                1073741824, 715827883, 2147483629,
            ];
            let x = BigInt::from(*c.pick(&xs));
            if c.flip() {
                -x
            } else {
                x
            }
        }
    }
}

/// A non-integral, representable rational of the palette.
pub fn gen_rat(c: &mut Choices) -> BigRational {
    let r = match c.weighted(&[3, 4, 3, 2]) {
        0 => rat(c.range(-20, 20), c.range(2, 12)),
        1 => {
            let b = boundary_rats();
            c.pick(&b).clone()
        }
        2 => {
            let n = c.u32() as i32 as i64;
            let d = ((c.u32() >> 1) as i64).max(2);
            rat(n, d)
        }
        _ => {
            // one side at the edge, the other small
            let edge = [i32::MAX as i64, i32::MAX as i64 - 1, i32::MIN as i64, i32::MIN as i64 + 1, 65536, 46341];
            if c.flip() {
                rat(*c.pick(&edge), c.range(2, 9))
            } else {
                let d = (*c.pick(&edge)).abs().min(i32::MAX as i64);
                rat(c.range(-9, 9), d)
            }
        }
    };
    if r.is_integer() || !representable(&r) {
        // simplest non-integral completion
        let n = r.to_integer();
        let cand = BigRational::new(n * BigInt::from(2) + BigInt::one(), BigInt::from(2));
        if representable(&cand) {
            cand
        } else {
            rat(1, 2)
        }
    } else {
        r
    }
}

/// An exact number of the palette (integer or non-integral rational).
pub fn gen_exact(c: &mut Choices) -> BigRational {
    if c.below(5) < 3 {
        BigRational::from_integer(gen_int(c))
    } else {
        gen_rat(c)
    }
}

/// A float of the palette (never NaN). `allow_inf`: +-inf may be produced.
/// `anchor`: an exact palette member; its neighbouring doubles are produced
/// with priority.
pub fn gen_float(c: &mut Choices, anchor: Option<&BigRational>, allow_inf: bool) -> f64 {
    let special: [f64; 20] = [
        0.0,
        -0.0,
        1.0,
        -1.0,
        0.5,
        0.1,
        1e10,
        1e21,
        9007199254740992.0,
        9007199254740994.0,
        -9007199254740992.0,
        9223372036854775808.0,
        -9223372036854775808.0,
        2147483648.0,
        -2147483648.0,
        4294967296.0,
        f64::MIN_POSITIVE,
        5e-324,
        f64::MAX,
        -f64::MAX,
    ];
    let f = match c.weighted(&[3, 5, 3, 2, 1]) {
        0 => *c.pick(&special),
        1 => {
            let base = match anchor {
                Some(a) => near_f64(a),
                None => near_f64(&BigRational::from_integer(gen_int(c))),
            };
            match c.below(5) {
                0 => base,
                1 => next_up(base),
                2 => next_down(base),
                3 => next_up(next_up(base)),
                _ => next_down(next_down(base)),
            }
        }
        2 => f64::from_bits(c.u64()),
        3 => {
            // subnormals and the smallest normals
            let m = c.u64() & ((1u64 << 53) - 1);
            let f = f64::from_bits(m);
            if c.flip() {
                -f
            } else {
                f
            }
        }
        _ => {
            if allow_inf {
                if c.flip() {
                    f64::NEG_INFINITY
                } else {
                    f64::INFINITY
                }
            } else {
                0.25
            }
        }
    };
    if f.is_nan() {
        1.5
    } else if f.is_infinite() && !allow_inf {
        if f > 0.0 {
            f64::MAX
        } else {
            -f64::MAX
        }
    } else {
        f
    }
}

// ---------------------------------------------------------------- oracle

#[derive(Clone, Copy, Debug, PartialEq, Eq)]
pub enum Op {
    Add,
    Sub,
    Mul,
    Div,
    Abs,
    Floor,
    Ceiling,
    Truncate,
    Numerator,
    Denominator,
    Expt,
    Quotient,
    Remainder,
    Modulo,
}

pub const ALL_OPS: [Op; 14] = [
    Op::Add,
    Op::Sub,
    Op::Mul,
    Op::Div,
    Op::Abs,
    Op::Floor,
    Op::Ceiling,
    Op::Truncate,
    Op::Numerator,
    Op::Denominator,
    Op::Expt,
    Op::Quotient,
    Op::Remainder,
    Op::Modulo,
];

impl Op {
    pub fn name(&self) -> &'static str {
        match self {
            Op::Add => "+",
            Op::Sub => "-",
            Op::Mul => "*",
            Op::Div => "/",
            Op::Abs => "abs",
            Op::Floor => "floor",
            Op::Ceiling => "ceiling",
            Op::Truncate => "truncate",
            Op::Numerator => "numerator",
            Op::Denominator => "denominator",
            Op::Expt => "expt",
            Op::Quotient => "quotient",
            Op::Remainder => "remainder",
            Op::Modulo => "modulo",
        }
    }
    pub fn from_name(s: &str) -> Option<Op> {
        ALL_OPS.iter().copied().find(|o| o.name() == s)
    }
    pub fn is_unary(&self) -> bool {
        matches!(
            self,
            Op::Abs | Op::Floor | Op::Ceiling | Op::Truncate | Op::Numerator | Op::Denominator
        )
    }
    pub fn is_integer_division(&self) -> bool {
        matches!(self, Op::Quotient | Op::Remainder | Op::Modulo)
    }
}

/// Is `args` inside the domain of `op` as C08 states it?
pub fn in_domain(op: Op, args: &[BigRational]) -> bool {
    match op {
        Op::Add | Op::Mul => args.len() >= 2,
        Op::Sub => args.len() == 2,
        Op::Div => args.len() == 2 && !args[1].is_zero(),
        Op::Expt => {
            args.len() == 2
                && args[1].is_integer()
                && !args[1].is_negative()
                && (args[1].to_integer() <= BigInt::from(64)
                    // larger exponents only where the exact power stays of moderate size
                    || (args[1].to_integer() <= BigInt::from(2048) && {
                        let m = args[0].abs();
                        m > BigRational::new(BigInt::from(1), BigInt::from(2)) && m < BigRational::from_integer(BigInt::from(2))
                    }))
        }
        Op::Quotient | Op::Remainder | Op::Modulo => {
            args.len() == 2 && args[0].is_integer() && args[1].is_integer() && !args[1].is_zero()
        }
        _ => args.len() == 1,
    }
}

/// The mathematically exact result.
pub fn exact_result(op: Op, args: &[BigRational]) -> BigRational {
    match op {
        Op::Add => args.iter().fold(BigRational::zero(), |a, b| a + b),
        Op::Mul => args.iter().fold(BigRational::one(), |a, b| a * b),
        Op::Sub => &args[0] - &args[1],
        Op::Div => &args[0] / &args[1],
        Op::Abs => args[0].abs(),
        Op::Floor => args[0].floor(),
        Op::Ceiling => args[0].ceil(),
        Op::Truncate => args[0].trunc(),
        Op::Numerator => BigRational::from_integer(args[0].numer().clone()),
        Op::Denominator => BigRational::from_integer(args[0].denom().clone()),
        Op::Expt => {
            let e = args[1].to_integer().to_u32().unwrap();
            let mut r = BigRational::one();
            for _ in 0..e {
                r *= &args[0];
            }
            r
        }
        Op::Quotient => {
            let (a, b) = (args[0].to_integer(), args[1].to_integer());
            // truncating division: BigInt's `/` truncates toward zero
            let q = &a / &b;
            debug_assert!((&a - &q * &b).abs() < b.abs());
            BigRational::from_integer(q)
        }
        Op::Remainder => {
            let (a, b) = (args[0].to_integer(), args[1].to_integer());
            let q = &a / &b;
            BigRational::from_integer(&a - &q * &b)
        }
        Op::Modulo => {
            let (a, b) = (args[0].to_integer(), args[1].to_integer());
            BigRational::from_integer(a.mod_floor(&b))
        }
    }
}

/// |r - t| <= 2^-50 * max(|operands|, |t|), decided exactly.
pub fn within_bound(r: f64, t: &BigRational, operands: &[BigRational]) -> bool {
    let re = match f64_to_exact(r) {
        Some(x) => x,
        None => return false,
    };
    let mut m = t.abs();
    for o in operands {
        if o.abs() > m {
            m = o.abs();
        }
    }
    let err = (re - t).abs();
    err * BigRational::from_integer(pow2(50)) <= m
}

#[cfg(test)]
mod tests {
    use super::*;

    #[test]
    fn exact_floats() {
        assert_eq!(f64_to_exact(0.5), Some(rat(1, 2)));
        assert_eq!(f64_to_exact(-3.0), Some(rat(-3, 1)));
        assert_eq!(f64_to_exact(5e-324), Some(BigRational::new(BigInt::one(), pow2(1074))));
        assert_eq!(
            f64_to_exact(9007199254740992.0),
            Some(BigRational::from_integer(pow2(53)))
        );
        assert_eq!(f64_to_exact(f64::INFINITY), None);
        assert_eq!(ext_cmp(&f64_ext(f64::INFINITY), &Ext::Fin(rat(1, 1))), Some(Ordering::Greater));
        assert_eq!(ext_cmp(&f64_ext(0.0), &f64_ext(-0.0)), Some(Ordering::Equal));
    }

    #[test]
    fn neighbours() {
        assert!(next_up(1.0) > 1.0);
        assert!(next_down(1.0) < 1.0);
        assert_eq!(next_up(-0.0), 5e-324);
        assert_eq!(next_down(0.0), -5e-324);
        assert_eq!(near_f64(&rat(1, 2)), 0.5);
        assert_eq!(near_f64(&BigRational::from_integer(pow2(63))), 9223372036854775808.0);
        let third = near_f64(&rat(1, 3));
        assert!((third - 1.0 / 3.0).abs() < 1e-15);
    }

    #[test]
    fn oracle_ops() {
        let r = |n, d| rat(n, d);
        assert_eq!(exact_result(Op::Quotient, &[r(-7, 1), r(2, 1)]), r(-3, 1));
        assert_eq!(exact_result(Op::Remainder, &[r(-7, 1), r(2, 1)]), r(-1, 1));
        assert_eq!(exact_result(Op::Modulo, &[r(-7, 1), r(2, 1)]), r(1, 1));
        assert_eq!(exact_result(Op::Modulo, &[r(7, 1), r(-2, 1)]), r(-1, 1));
        assert_eq!(exact_result(Op::Floor, &[r(-7, 2)]), r(-4, 1));
        assert_eq!(exact_result(Op::Ceiling, &[r(-7, 2)]), r(-3, 1));
        assert_eq!(exact_result(Op::Truncate, &[r(-7, 2)]), r(-3, 1));
        assert_eq!(exact_result(Op::Numerator, &[r(6, 4)]), r(3, 1));
        assert_eq!(exact_result(Op::Denominator, &[r(6, 4)]), r(2, 1));
        assert_eq!(exact_result(Op::Expt, &[r(1, 2), r(3, 1)]), r(1, 8));
        assert_eq!(exact_result(Op::Expt, &[r(0, 1), r(0, 1)]), r(1, 1));
        assert!(representable(&r(i32::MIN as i64, 3)));
        assert!(!representable(&r(1, 1 << 31)));
        assert!(!representable(&r(1 << 31, 3)));
        assert!(within_bound(0.3333333333333333, &r(1, 3), &[r(1, 1), r(3, 1)]));
        assert!(!within_bound(0.33333, &r(1, 3), &[r(1, 1), r(3, 1)]));
    }

    #[test]
    fn palette_is_in_model() {
        for b in boundary_rats() {
            assert!(!b.is_integer() && representable(&b));
            assert_eq!(reprs_of(&b).len(), 1);
        }
        let data: Vec<u8> = (0..4096u32).map(|i| (i.wrapping_mul(2654435761) >> 13) as u8).collect();
        let mut c = Choices::new(&data);
        for _ in 0..300 {
            let r = gen_rat(&mut c);
            assert!(!r.is_integer() && representable(&r), "{}", r);
            let f = gen_float(&mut c, Some(&r), false);
            assert!(f.is_finite());
        }
        assert_eq!(reprs_of(&rat(5, 1)).len(), 3);
        assert_eq!(reprs_of(&BigRational::from_integer(pow2(40))).len(), 2);
        assert_eq!(reprs_of(&BigRational::from_integer(pow2(70))).len(), 1);
    }
}
