//! Program generator (PG): typed, scope-aware, size-bounded generator of
//! Scheme sessions, a pure decoder from a choice sequence.
//!
//! Soundness restrictions (each because R7RS leaves the behaviour open or the
//! SUT's suite pins a deviation; see DESIGN.md 3.6):
//!  * operators are variable references or lambda literals (operator vs.
//!    operand order is unobservable);
//!  * eq? only on symbols/booleans/()/objects with identity, eqv?/memv/assv/
//!    case keys additionally on small exact integers and characters;
//!  * mutation only of freshly allocated pairs/vectors (never literals,
//!    never quasiquote results);
//!  * standard names and syntactic keywords are never (re)bound; generated
//!    names never collide with the prelude's macro temporaries, except in the
//!    dedicated probes;
//!  * known deviations of the SUT (DESIGN.md section 5) are produced only at a
//!    configurable probe rate and tagged as features of the session.

use crate::choice::Choices;
use crate::sx::Sx;
use std::collections::BTreeSet;
use std::rc::Rc;

#[derive(Clone, Debug, PartialEq)]
pub enum Ty {
    Int,
    /// integer known to be in 0..=5 (recursion counters, indices)
    Small,
    Bool,
    Char,
    Sym,
    Str,
    List(Box<Ty>),
    Vector,
    Any,
    Unit,
    Proc(Rc<ProcTy>),
    /// escaping continuation accepting one value of the given type
    Cont(Box<Ty>),
    Promise(Box<Ty>),
}

#[derive(Clone, Debug, PartialEq)]
pub struct ProcTy {
    pub params: Vec<Ty>,
    pub rest: Option<Ty>,
    pub ret: Ty,
}

#[derive(Clone, Debug)]
pub struct Cfg {
    pub max_forms: usize,
    pub depth: usize,
    pub node_budget: usize,
    pub callcc: bool,
    pub output: bool,
    /// probe rates (x/256) for constructs that hit known deviations
    pub probe_qq_outer: u8,
    pub probe_qq_vector_twice: u8,
    pub probe_qq_dotted: u8,
    pub probe_qq_keyword: u8,
    pub probe_temp_capture: u8,
    pub probe_begin_define: u8,
    pub probe_qq_vector_derived: u8,
}

impl Default for Cfg {
    fn default() -> Cfg {
        Cfg {
            max_forms: 8,
            depth: 5,
            node_budget: 80,
            callcc: false,
            output: true,
            // repaired in /repo (fix: commits), hence generated freely
            probe_qq_outer: 255,
            probe_qq_vector_twice: 12,
            probe_qq_dotted: 40,
            // repaired in /repo: generated freely
            probe_qq_keyword: 60,
            probe_temp_capture: 3,
            // repaired in /repo
            probe_begin_define: 6,
            probe_qq_vector_derived: 255,
        }
    }
}

#[derive(Clone, Debug)]
struct Var {
    name: String,
    ty: Ty,
    contour: usize,
    global: bool,
    /// holds a freshly allocated pair/vector that may be mutated
    fresh_data: bool,
    assignable: bool,
}

pub struct Session {
    pub forms: Vec<Sx>,
    pub features: BTreeSet<&'static str>,
    pub globals: Vec<String>,
}

pub struct Gen<'a, 'b> {
    c: &'a mut Choices<'b>,
    cfg: Cfg,
    scope: Vec<Var>,
    contour: usize,
    qq_floor: Option<usize>,
    nodes: usize,
    pub features: BTreeSet<&'static str>,
    next_global: usize,
    next_proc: usize,
    /// inside an expression whose value must not depend on evaluation order of map
    pure_only: usize,
    /// while the body of global procedure fK is generated only global
    /// procedures fM with M < K are visible (call chains strictly descend, so
    /// every generated program terminates apart from the bounded loop templates)
    proc_limit: Option<usize>,
    /// > 0: only constants, variables and plain arithmetic (no derived forms)
    plain_only: usize,
    /// global continuation holders (name, guard counter, type of the value the
    /// stored continuation accepts) for re-entry scenarios
    holders: Vec<(String, String, Option<Ty>)>,
    /// > 0 while the argument of a stored-continuation invocation is generated:
    /// storing a new continuation there would re-enter after the guard (a loop)
    no_store: usize,
}

const LOCALS: [&str; 10] = ["x", "y", "z", "a", "b", "n", "lst", "acc", "i", "v"];
const SYMS: [&str; 6] = ["alpha", "beta", "gamma", "p", "q", "r"];
const STRS: [&str; 5] = ["", "abc", "hello world", "x", "Scheme"];
const CHARS: [char; 5] = ['a', 'b', 'z', ' ', '0'];

fn s(x: &str) -> Sx {
    Sx::sym(x)
}
fn call(h: &str, args: Vec<Sx>) -> Sx {
    Sx::call(h, args)
}
fn lst(v: Vec<Sx>) -> Sx {
    Sx::List(v)
}
fn int(i: i64) -> Sx {
    Sx::int(i)
}
fn list_of(t: Ty) -> Ty {
    Ty::List(Box::new(t))
}
fn proc_ty(params: Vec<Ty>, rest: Option<Ty>, ret: Ty) -> Ty {
    Ty::Proc(Rc::new(ProcTy { params, rest, ret }))
}

impl<'a, 'b> Gen<'a, 'b> {
    pub fn new(c: &'a mut Choices<'b>, cfg: Cfg) -> Gen<'a, 'b> {
        Gen {
            c,
            cfg,
            scope: vec![],
            contour: 0,
            qq_floor: None,
            nodes: 0,
            features: BTreeSet::new(),
            next_global: 0,
            next_proc: 0,
            pure_only: 0,
            proc_limit: None,
            plain_only: 0,
            holders: vec![],
            no_store: 0,
        }
    }

    // ------------------------------------------------------------ scope

    fn visible(&self) -> Vec<Var> {
        let mut seen: BTreeSet<&str> = BTreeSet::new();
        let mut out = vec![];
        for v in self.scope.iter().rev() {
            if seen.insert(v.name.as_str()) {
                if let (Some(limit), true, Ty::Proc(_)) = (self.proc_limit, v.global, &v.ty) {
                    let idx: usize = v.name[1..].parse().unwrap_or(0);
                    if idx >= limit {
                        continue;
                    }
                }
                if let Some(floor) = self.qq_floor {
                    if !v.global && v.contour < floor {
                        continue;
                    }
                }
                out.push(v.clone());
            }
        }
        out
    }

    fn compatible(have: &Ty, want: &Ty) -> bool {
        match (have, want) {
            (Ty::Small, Ty::Int) => true,
            (a, b) if a == b => true,
            (_, Ty::Any) => !matches!(have, Ty::Unit | Ty::Cont(_) | Ty::Promise(_) | Ty::Proc(_)),
            _ => false,
        }
    }

    fn vars_of(&self, ty: &Ty) -> Vec<Var> {
        self.visible().into_iter().filter(|v| Self::compatible(&v.ty, ty)).collect()
    }

    fn pick_var(&mut self, ty: &Ty) -> Option<Var> {
        let vs = self.vars_of(ty);
        if vs.is_empty() {
            None
        } else {
            let i = self.c.below(vs.len());
            Some(vs[i].clone())
        }
    }

    fn local_name(&mut self) -> String {
        LOCALS[self.c.below(LOCALS.len())].to_string()
    }

    fn bind_local(&mut self, name: &str, ty: Ty, fresh_data: bool) {
        let assignable = !matches!(ty, Ty::Proc(_) | Ty::Cont(_) | Ty::Promise(_));
        self.scope.push(Var {
            name: name.to_string(),
            ty,
            contour: self.contour,
            global: false,
            fresh_data,
            assignable,
        });
    }

    /// distinct names for one parameter list / binding group
    fn distinct_names(&mut self, n: usize) -> Vec<String> {
        let mut names: Vec<String> = vec![];
        let mut guard = 0;
        while names.len() < n {
            let nm = self.local_name();
            guard += 1;
            if !names.contains(&nm) {
                names.push(nm);
            } else if guard > 40 {
                names.push(format!("w{}", names.len()));
            }
        }
        names
    }

    /// a local name not yet bound in the current contour (parameters and
    /// internal defines of one body must be distinct)
    fn name_new_in_contour(&mut self) -> String {
        for _ in 0..20 {
            let nm = self.local_name();
            if !self.scope.iter().any(|v| !v.global && v.contour == self.contour && v.name == nm) {
                return nm;
            }
        }
        let n = self.scope.len();
        format!("u{}", n)
    }

    fn budget_left(&self) -> bool {
        self.nodes < self.cfg.node_budget
    }

    // ------------------------------------------------------------ types

    fn data_ty(&mut self) -> Ty {
        match self.c.weighted(&[6, 3, 2, 2, 1, 3, 2, 1]) {
            0 => Ty::Int,
            1 => Ty::Bool,
            2 => Ty::Sym,
            3 => list_of(Ty::Int),
            4 => Ty::Str,
            5 => list_of(Ty::Any),
            6 => Ty::Vector,
            _ => Ty::Char,
        }
    }

    fn param_ty(&mut self) -> Ty {
        match self.c.weighted(&[6, 2, 2, 2, 2, 1]) {
            0 => Ty::Int,
            1 => Ty::Bool,
            2 => list_of(Ty::Int),
            3 => Ty::Any,
            4 => Ty::Sym,
            _ => proc_ty(vec![Ty::Int], None, Ty::Int),
        }
    }

    fn ret_ty(&mut self) -> Ty {
        match self.c.weighted(&[6, 2, 2, 2, 1]) {
            0 => Ty::Int,
            1 => Ty::Bool,
            2 => list_of(Ty::Int),
            3 => Ty::Any,
            _ => Ty::Sym,
        }
    }

    fn gen_proc_ty(&mut self) -> Rc<ProcTy> {
        let n = self.c.below(4);
        let mut params = vec![];
        for _ in 0..n {
            params.push(self.param_ty());
        }
        let rest = if self.c.chance(70) {
            Some(if self.c.flip() { Ty::Int } else { Ty::Any })
        } else {
            None
        };
        let ret = self.ret_ty();
        Rc::new(ProcTy { params, rest, ret })
    }

    // ------------------------------------------------------------ constants

    fn const_of(&mut self, ty: &Ty) -> Sx {
        self.nodes += 1;
        match ty {
            Ty::Int => int(self.c.range(-3, 12)),
            Ty::Small => int(self.c.range(0, 5)),
            Ty::Bool => Sx::Bool(self.c.flip()),
            Ty::Char => Sx::Char(*self.c.pick(&CHARS)),
            Ty::Sym => Sx::quote(s(self.c.pick_str(&SYMS))),
            Ty::Str => Sx::Str(self.c.pick_str(&STRS).to_string()),
            Ty::List(t) => {
                let n = self.c.below(4);
                let mut items = vec![];
                for _ in 0..n {
                    items.push(self.datum_of(t));
                }
                Sx::quote(lst(items))
            }
            Ty::Vector => {
                let n = self.c.below(4);
                let mut items = vec![];
                for _ in 0..n {
                    items.push(self.datum_of(&Ty::Any));
                }
                Sx::Vector(items)
            }
            Ty::Any => {
                let t = self.data_ty();
                self.const_of(&t)
            }
            Ty::Unit => call("if", vec![Sx::Bool(false), Sx::Bool(false)]),
            Ty::Proc(p) => self.lambda_literal(&p.clone(), 0),
            Ty::Cont(_) => Sx::Bool(false),
            Ty::Promise(t) => {
                let e = self.const_of(&t.clone());
                call("delay", vec![e])
            }
        }
    }

    /// literal datum (the thing after a quote)
    fn datum_of(&mut self, ty: &Ty) -> Sx {
        self.nodes += 1;
        match ty {
            Ty::Int | Ty::Small => int(self.c.range(-3, 12)),
            Ty::Bool => Sx::Bool(self.c.flip()),
            Ty::Char => Sx::Char(*self.c.pick(&CHARS)),
            Ty::Sym => s(self.c.pick_str(&SYMS)),
            Ty::Str => Sx::Str(self.c.pick_str(&STRS).to_string()),
            Ty::List(t) => {
                let n = self.c.below(3);
                lst((0..n).map(|_| self.datum_of(t)).collect())
            }
            Ty::Vector => {
                let n = self.c.below(3);
                Sx::Vector((0..n).map(|_| self.datum_of(&Ty::Any)).collect())
            }
            _ => match self.c.below(6) {
                0 => int(self.c.range(-3, 12)),
                1 => s(self.c.pick_str(&SYMS)),
                2 => Sx::Bool(self.c.flip()),
                3 => Sx::Str(self.c.pick_str(&STRS).to_string()),
                4 => {
                    let n = self.c.below(3);
                    lst((0..n).map(|_| self.datum_of(&Ty::Int)).collect())
                }
                _ => {
                    // quoted data may contain keyword symbols: quote protects them
                    let kw = *self.c.pick(&["if", "and", "let", "else", "define", "lambda", "quote"][..]);
                    lst(vec![s(kw), int(1)])
                }
            },
        }
    }

    fn leaf(&mut self, ty: &Ty) -> Sx {
        if !matches!(ty, Ty::Unit) && self.c.chance(150) {
            if let Some(v) = self.pick_var(ty) {
                self.nodes += 1;
                return s(&v.name);
            }
        }
        self.const_of(ty)
    }

    // ------------------------------------------------------------ expressions

    pub fn gen(&mut self, ty: &Ty, d: usize) -> Sx {
        self.nodes += 1;
        if d == 0 || !self.budget_left() {
            return self.leaf(ty);
        }
        if self.c.chance(40) {
            return self.leaf(ty);
        }
        if self.plain_only > 0 {
            return match ty {
                Ty::Int => {
                    let op = *self.c.pick(&["+", "-", "*"][..]);
                    let a = self.gen(&Ty::Int, d - 1);
                    let b = self.gen(&Ty::Int, d - 1);
                    call(op, vec![a, b])
                }
                _ => self.leaf(ty),
            };
        }
        // a generic wrapper?
        if !matches!(ty, Ty::Cont(_)) && self.c.chance(90) {
            if let Some(e) = self.wrapper(ty, d) {
                return e;
            }
        }
        // an escape through a visible continuation variable (any type: never returns)
        if self.cfg.callcc && self.pure_only == 0 && self.c.chance(70) {
            let conts: Vec<Var> = self.visible().into_iter().filter(|v| matches!(v.ty, Ty::Cont(_))).collect();
            if !conts.is_empty() {
                let k = conts[self.c.below(conts.len())].clone();
                if let Ty::Cont(t) = &k.ty {
                    let e = self.gen(&t.clone(), d - 1);
                    self.features.insert("escape-call");
                    return lst(vec![s(&k.name), e]);
                }
            }
        }
        // re-entry of a stored continuation, guarded by a counter so that programs terminate
        if self.cfg.callcc && self.pure_only == 0 && self.plain_only == 0 && !matches!(ty, Ty::Proc(_) | Ty::Promise(_) | Ty::Cont(_)) && self.c.chance(64) {
            let ready: Vec<(String, String, Ty)> = self
                .holders
                .iter()
                .filter_map(|(k, c, t)| t.clone().map(|t| (k.clone(), c.clone(), t)))
                .collect();
            if !ready.is_empty() {
                let (k, cnt, t) = ready[self.c.below(ready.len())].clone();
                let limit = 1 + self.c.below(3) as i64;
                self.no_store += 1;
                let v = self.gen(&t, d - 1);
                self.no_store -= 1;
                let other = self.gen(ty, d - 1);
                self.features.insert("stored-continuation-invocation");
                if self.contour > 0 {
                    self.features.insert("stored-continuation-invocation-inside-procedure");
                }
                return call(
                    "if",
                    vec![
                        call("<", vec![s(&cnt), int(limit)]),
                        call("begin", vec![call("set!", vec![s(&cnt), call("+", vec![s(&cnt), int(1)])]), lst(vec![s(&k), v])]),
                        other,
                    ],
                );
            }
        }
        // a call of a procedure-valued variable returning this type
        if self.c.chance(70) {
            if let Some(e) = self.call_var(ty, d) {
                return e;
            }
        }
        match ty {
            Ty::Int | Ty::Small => self.gen_int(ty, d),
            Ty::Bool => self.gen_bool(d),
            Ty::Char => self.gen_char(d),
            Ty::Sym => self.gen_sym(d),
            Ty::Str => self.gen_str(d),
            Ty::List(t) => self.gen_list(&t.clone(), d),
            Ty::Vector => self.gen_vector(d),
            Ty::Any => self.gen_any(d),
            Ty::Unit => self.gen_unit(d),
            Ty::Proc(p) => self.lambda_literal(&p.clone(), d),
            Ty::Cont(_) => self.leaf(ty),
            Ty::Promise(t) => {
                let e = self.gen(&t.clone(), d - 1);
                call("delay", vec![e])
            }
        }
    }

    fn gen_int(&mut self, ty: &Ty, d: usize) -> Sx {
        if *ty == Ty::Small {
            return self.leaf(ty);
        }
        match self.c.weighted(&[8, 1, 1, 1, 2, 1, 1, 1, 1, 1, 1, 2, 1]) {
            0 => {
                let op = *self.c.pick(&["+", "-", "*"][..]);
                let a = self.gen(&Ty::Int, d - 1);
                let b = self.gen(&Ty::Int, d - 1);
                call(op, vec![a, b])
            }
            1 => {
                let op = *self.c.pick(&["+", "*"][..]);
                let n = self.c.below(4);
                let args = (0..n).map(|_| self.gen(&Ty::Int, d - 1)).collect();
                call(op, args)
            }
            2 => {
                let op = *self.c.pick(&["quotient", "remainder", "modulo"][..]);
                let a = self.gen(&Ty::Int, d - 1);
                let k = *self.c.pick(&[2i64, 3, -2, 5, 7, -3][..]);
                call(op, vec![a, int(k)])
            }
            3 => {
                let op = *self.c.pick(&["abs", "min", "max"][..]);
                let a = self.gen(&Ty::Int, d - 1);
                if op == "abs" {
                    call(op, vec![a])
                } else {
                    let b = self.gen(&Ty::Int, d - 1);
                    call(op, vec![a, b])
                }
            }
            4 => {
                let t = if self.c.flip() { Ty::Int } else { Ty::Any };
                let l = self.gen(&list_of(t), d - 1);
                call("length", vec![l])
            }
            5 => {
                let v = self.gen(&Ty::Vector, d - 1);
                call("vector-length", vec![v])
            }
            6 => {
                let v = self.gen(&Ty::Str, d - 1);
                call("string-length", vec![v])
            }
            7 => {
                let v = self.gen(&Ty::Char, d - 1);
                call("char->integer", vec![v])
            }
            8 => {
                // car/cadr of a list known to be long enough
                let a = self.gen(&Ty::Int, d - 1);
                let b = self.gen(&Ty::Int, d - 1);
                let r = self.gen(&list_of(Ty::Int), d - 1);
                let l = call("cons", vec![a, call("cons", vec![b, r])]);
                call(*self.c.pick(&["car", "cadr"][..]), vec![l])
            }
            9 => {
                let n = 1 + self.c.below(3);
                let items: Vec<Sx> = (0..n).map(|_| self.gen(&Ty::Int, d - 1)).collect();
                let idx = self.c.below(n) as i64;
                if self.c.flip() {
                    call("vector-ref", vec![call("vector", items), int(idx)])
                } else {
                    call("list-ref", vec![call("list", items), int(idx)])
                }
            }
            10 => {
                let l = self.gen(&list_of(Ty::Int), d - 1);
                call("apply", vec![s(*self.c.pick(&["+", "*", "max"][..])), int(1), int(2), l])
            }
            11 => self.loop_int(d),
            _ => {
                // rare canonical failure: car of a possibly empty list
                let l = self.gen(&list_of(Ty::Int), d - 1);
                self.features.insert("maybe-car-of-empty");
                call("car", vec![l])
            }
        }
    }

    /// (let loop ((i 0) (acc INIT)) (if (< i N) (loop (+ i 1) STEP) acc))
    fn loop_int(&mut self, d: usize) -> Sx {
        self.features.insert("named-let");
        let mut init = self.gen(&Ty::Int, d - 1);
        let mut tag = "loop".to_string();
        // now and then the loop is named like a variable that its own initialiser reads: the
        // initialisers are outside the scope of the tag
        if self.c.chance(36) {
            if let Some(v) = self.pick_var(&Ty::Int) {
                if !matches!(v.name.as_str(), "i" | "acc" | "loop") {
                    tag = v.name.clone();
                    init = call("+", vec![s(&v.name), init]);
                    self.features.insert("named-let-tag-shadows-a-variable-its-initialiser-reads");
                }
            }
        }
        let n = self.c.range(0, 5);
        let mark = self.scope.len();
        self.contour += 1;
        if tag != "loop" {
            // inside the loop the name denotes the loop procedure: hide the integer
            let hidden = ProcTy { params: vec![Ty::Promise(Box::new(Ty::Vector))], rest: None, ret: Ty::Promise(Box::new(Ty::Vector)) };
            self.bind_local(&tag, Ty::Proc(Rc::new(hidden)), false);
        }
        self.bind_local("i", Ty::Small, false);
        self.bind_local("acc", Ty::Int, false);
        let step = self.gen(&Ty::Int, d - 1);
        self.scope.truncate(mark);
        self.contour -= 1;
        lst(vec![
            s("let"),
            s(&tag),
            lst(vec![lst(vec![s("i"), int(0)]), lst(vec![s("acc"), init])]),
            call(
                "if",
                vec![
                    call("<", vec![s("i"), int(n)]),
                    call(&tag, vec![call("+", vec![s("i"), int(1)]), step]),
                    s("acc"),
                ],
            ),
        ])
    }

    fn gen_bool(&mut self, d: usize) -> Sx {
        match self.c.weighted(&[6, 2, 2, 2, 2, 2, 2, 2, 1, 1, 1, 2]) {
            0 => {
                let op = *self.c.pick(&["<", "=", ">", "<=", ">="][..]);
                let a = self.gen(&Ty::Int, d - 1);
                let b = self.gen(&Ty::Int, d - 1);
                call(op, vec![a, b])
            }
            1 => {
                let op = *self.c.pick(&["zero?", "even?", "odd?", "positive?", "negative?"][..]);
                let a = self.gen(&Ty::Int, d - 1);
                call(op, vec![a])
            }
            2 => {
                let a = self.gen(&Ty::Bool, d - 1);
                call("not", vec![a])
            }
            3 => {
                let t = if self.c.flip() { Ty::Int } else { Ty::Any };
                let l = self.gen(&list_of(t), d - 1);
                call("null?", vec![l])
            }
            4 => {
                let op = *self.c.pick(&["pair?", "symbol?", "list?", "vector?", "boolean?", "string?", "number?", "procedure?", "char?"][..]);
                let a = self.gen(&Ty::Any, d - 1);
                call(op, vec![a])
            }
            5 => {
                let a = self.gen(&Ty::Sym, d - 1);
                let b = self.gen(&Ty::Sym, d - 1);
                call(*self.c.pick(&["eq?", "eqv?", "equal?"][..]), vec![a, b])
            }
            6 => {
                let a = self.gen(&Ty::Int, d - 1);
                let b = self.gen(&Ty::Int, d - 1);
                call(*self.c.pick(&["eqv?", "equal?"][..]), vec![a, b])
            }
            7 => {
                let a = self.gen(&Ty::Any, d - 1);
                let b = self.gen(&Ty::Any, d - 1);
                call("equal?", vec![a, b])
            }
            8 => {
                let a = self.gen(&Ty::Str, d - 1);
                let b = self.gen(&Ty::Str, d - 1);
                call("string=?", vec![a, b])
            }
            9 => {
                let a = self.gen(&Ty::Char, d - 1);
                let b = self.gen(&Ty::Char, d - 1);
                call("char=?", vec![a, b])
            }
            10 => {
                // identity of a fresh object with itself / with a copy
                let items: Vec<Sx> = (0..1 + self.c.below(2)).map(|_| self.gen(&Ty::Int, d - 1)).collect();
                let nm = self.local_name();
                let same = self.c.flip();
                let other = if same { s(&nm) } else { call("list", items.clone()) };
                lst(vec![
                    s("let"),
                    lst(vec![lst(vec![s(&nm), call("list", items)])]),
                    call("eq?", vec![s(&nm), other]),
                ])
            }
            _ => {
                let op = *self.c.pick(&["and", "or"][..]);
                let n = self.c.below(4);
                let args = (0..n).map(|_| self.gen(&Ty::Bool, d - 1)).collect();
                self.features.insert(if op == "and" { "and" } else { "or" });
                call(op, args)
            }
        }
    }

    fn gen_char(&mut self, d: usize) -> Sx {
        if self.c.flip() {
            let st = *self.c.pick(&["abc", "hello", "xyz"][..]);
            let i = self.c.below(3) as i64;
            let _ = d;
            call("string-ref", vec![Sx::Str(st.to_string()), int(i)])
        } else {
            self.leaf(&Ty::Char)
        }
    }

    fn gen_sym(&mut self, d: usize) -> Sx {
        match self.c.below(4) {
            0 => {
                let l = self.const_of(&list_of(Ty::Sym));
                let first = Sx::quote(s(self.c.pick_str(&SYMS)));
                call("car", vec![call("cons", vec![first, l])])
            }
            1 => call("string->symbol", vec![Sx::Str(self.c.pick_str(&SYMS).to_string())]),
            2 => {
                let c = self.gen(&Ty::Bool, d - 1);
                let a = self.gen(&Ty::Sym, d - 1);
                let b = self.gen(&Ty::Sym, d - 1);
                call("if", vec![c, a, b])
            }
            _ => self.leaf(&Ty::Sym),
        }
    }

    fn gen_str(&mut self, d: usize) -> Sx {
        match self.c.below(4) {
            0 => {
                let a = self.gen(&Ty::Str, d - 1);
                let b = self.gen(&Ty::Str, d - 1);
                call("string-append", vec![a, b])
            }
            1 => {
                let a = self.gen(&Ty::Sym, d - 1);
                call("symbol->string", vec![a])
            }
            2 => {
                let a = self.gen(&Ty::Int, d - 1);
                call("number->string", vec![a])
            }
            _ => self.leaf(&Ty::Str),
        }
    }

    fn gen_list(&mut self, t: &Ty, d: usize) -> Sx {
        match self.c.weighted(&[4, 4, 2, 2, 2, 3, 2, 2, 2, 1, 2]) {
            0 => {
                let n = self.c.below(4);
                let items = (0..n).map(|_| self.gen(t, d - 1)).collect();
                call("list", items)
            }
            1 => {
                let a = self.gen(t, d - 1);
                let r = self.gen(&list_of(t.clone()), d - 1);
                call("cons", vec![a, r])
            }
            2 => {
                let a = self.gen(t, d - 1);
                let r = self.gen(&list_of(t.clone()), d - 1);
                call("cdr", vec![call("cons", vec![a, r])])
            }
            3 => {
                let n = self.c.below(4);
                let args = (0..n).map(|_| self.gen(&list_of(t.clone()), d - 1)).collect();
                call("append", args)
            }
            4 => {
                let r = self.gen(&list_of(t.clone()), d - 1);
                call("reverse", vec![r])
            }
            5 => self.gen_map(t, d),
            6 => self.gen_quasi_list(t, d),
            7 => {
                // rest-argument capture
                let n = self.c.below(4);
                let items: Vec<Sx> = (0..n).map(|_| self.gen(t, d - 1)).collect();
                self.features.insert("rest-only-lambda");
                let nm = self.local_name();
                let mut v = vec![lst(vec![s("lambda"), s(&nm), s(&nm)])];
                v.extend(items);
                lst(v)
            }
            8 => {
                let n = 1 + self.c.below(3);
                let items: Vec<Sx> = (0..n).map(|_| self.gen(t, d - 1)).collect();
                let k = self.c.below(n + 1) as i64;
                call("list-tail", vec![call("list", items), int(k)])
            }
            9 => {
                if *t == Ty::Any {
                    let v = self.gen(&Ty::Vector, d - 1);
                    call("vector->list", vec![v])
                } else {
                    self.leaf(&list_of(t.clone()))
                }
            }
            _ => self.loop_list(t, d),
        }
    }

    fn loop_list(&mut self, t: &Ty, d: usize) -> Sx {
        self.features.insert("named-let");
        let n = self.c.range(0, 4);
        let mark = self.scope.len();
        self.contour += 1;
        self.bind_local("i", Ty::Small, false);
        self.bind_local("acc", list_of(t.clone()), false);
        let item = self.gen(t, d - 1);
        self.scope.truncate(mark);
        self.contour -= 1;
        lst(vec![
            s("let"),
            s("loop"),
            lst(vec![lst(vec![s("i"), int(0)]), lst(vec![s("acc"), Sx::quote(lst(vec![]))])]),
            call(
                "if",
                vec![
                    call("<", vec![s("i"), int(n)]),
                    call("loop", vec![call("+", vec![s("i"), int(1)]), call("cons", vec![item, s("acc")])]),
                    s("acc"),
                ],
            ),
        ])
    }

    fn gen_map(&mut self, t: &Ty, d: usize) -> Sx {
        self.features.insert("map");
        // callbacks of map have no order-dependent effects
        self.pure_only += 1;
        let two = self.c.chance(60);
        let src_t = if self.c.flip() { Ty::Int } else { t.clone() };
        let p = ProcTy {
            params: if two { vec![src_t.clone(), Ty::Int] } else { vec![src_t.clone()] },
            rest: None,
            ret: t.clone(),
        };
        let f = if self.c.chance(60) {
            match self.pick_var(&Ty::Proc(Rc::new(p.clone()))) {
                Some(v) => s(&v.name),
                None => self.lambda_literal(&p, d - 1),
            }
        } else {
            self.lambda_literal(&p, d - 1)
        };
        self.pure_only -= 1;
        let l1 = self.gen(&list_of(src_t), d - 1);
        if two {
            let l2 = self.gen(&list_of(Ty::Int), d - 1);
            call("map", vec![f, l1, l2])
        } else {
            call("map", vec![f, l1])
        }
    }

    /// quasiquote template producing a list of `t`
    fn gen_quasi_list(&mut self, t: &Ty, d: usize) -> Sx {
        self.features.insert("quasiquote");
        let saved_floor = self.qq_floor;
        let outer_probe = self.c.chance(self.cfg.probe_qq_outer);
        if outer_probe {
            // may reference variables of outer contours inside the unquote (known deviation a)
            self.features.insert("qq-outer-variable-possible");
        } else if self.qq_floor.is_none() {
            self.qq_floor = Some(self.contour);
        }
        let n = 1 + self.c.below(4);
        let mut items = vec![];
        for _ in 0..n {
            if self.c.chance(150) {
                let e = self.gen(t, d - 1);
                items.push(lst(vec![s("unquote"), e]));
            } else {
                items.push(self.qq_datum(t, d));
            }
        }
        let mut template = lst(items.clone());
        if self.c.chance(self.cfg.probe_qq_dotted) {
            // `(a . ,x)
            let tail = self.gen(&list_of(t.clone()), d - 1);
            self.features.insert("qq-dotted-unquote");
            items.push(s("unquote"));
            items.push(tail);
            template = lst(items);
        }
        self.qq_floor = saved_floor;
        lst(vec![s("quasiquote"), template])
    }

    /// constant part of a quasiquote template of element type t
    fn qq_datum(&mut self, t: &Ty, d: usize) -> Sx {
        if *t == Ty::Any && d > 1 && self.c.chance(60) {
            // nested list / nested quasiquote level / vector inside the template
            return match self.c.below(3) {
                0 => {
                    let e = self.gen(&Ty::Int, d - 1);
                    lst(vec![int(1), lst(vec![s("unquote"), e])])
                }
                1 => {
                    // one level deeper: inner unquote stays data unless doubly unquoted
                    let e = self.gen(&Ty::Int, d - 1);
                    self.features.insert("nested-quasiquote");
                    lst(vec![
                        s("quasiquote"),
                        lst(vec![s("b"), lst(vec![s("unquote"), lst(vec![s("c"), lst(vec![s("unquote"), e])])])]),
                    ])
                }
                _ => {
                    if self.c.chance(self.cfg.probe_qq_keyword) {
                        self.features.insert("qq-keyword-list");
                        lst(vec![s(*self.c.pick(&["and", "or", "let", "begin", "when", "cond"][..])), int(1), int(2)])
                    } else {
                        lst(vec![s("f"), int(1), Sx::Str("s".into())])
                    }
                }
            };
        }
        match t {
            Ty::Any => {
                let tt = match self.c.below(4) {
                    0 => Ty::Int,
                    1 => Ty::Sym,
                    2 => Ty::Str,
                    _ => Ty::Bool,
                };
                self.datum_of(&tt)
            }
            other => self.datum_of(other),
        }
    }

    fn gen_vector(&mut self, d: usize) -> Sx {
        match self.c.weighted(&[4, 2, 2, 2, 2]) {
            0 => {
                let n = self.c.below(4);
                let items = (0..n).map(|_| self.gen(&Ty::Any, d - 1)).collect();
                call("vector", items)
            }
            1 => {
                let k = self.c.range(0, 4);
                let fill = self.gen(&Ty::Any, d - 1);
                call("make-vector", vec![int(k), fill])
            }
            2 => {
                let l = self.gen(&list_of(Ty::Any), d - 1);
                call("list->vector", vec![l])
            }
            3 => {
                // quasiquoted vector template, evaluated once here (twice only in the probe)
                self.features.insert("quasiquote-vector");
                let saved_floor = self.qq_floor;
                if self.qq_floor.is_none() {
                    self.qq_floor = Some(self.contour);
                }
                let n = 1 + self.c.below(3);
                let mut items = vec![];
                // derived forms inside an unquote inside a quasiquoted vector are
                // not macro-expanded by the SUT (known deviation): probe rate only
                let plain = !self.c.chance(self.cfg.probe_qq_vector_derived);
                if plain {
                    self.plain_only += 1;
                }
                for _ in 0..n {
                    if self.c.flip() {
                        let e = self.gen(&Ty::Int, d - 1);
                        items.push(lst(vec![s("unquote"), e]));
                    } else {
                        items.push(self.datum_of(&Ty::Int));
                    }
                }
                if plain {
                    self.plain_only -= 1;
                }
                self.qq_floor = saved_floor;
                lst(vec![s("quasiquote"), Sx::Vector(items)])
            }
            _ => self.leaf(&Ty::Vector),
        }
    }

    fn gen_any(&mut self, d: usize) -> Sx {
        match self.c.weighted(&[10, 1, 1, 1, 1, 1, 1]) {
            0 => {
                let t = self.data_ty();
                self.gen(&t, d)
            }
            1 => {
                let k = self.gen(&Ty::Int, d - 1);
                let l = self.gen(&list_of(Ty::Int), d - 1);
                call(*self.c.pick(&["memv", "member"][..]), vec![k, l])
            }
            2 => {
                let k = self.gen(&Ty::Sym, d - 1);
                let alist = Sx::quote(lst(vec![
                    lst(vec![s("alpha"), int(1)]),
                    lst(vec![s("beta"), int(2)]),
                    Sx::Dotted(vec![s("p")], Box::new(int(3))),
                ]));
                call(*self.c.pick(&["assq", "assv", "assoc"][..]), vec![k, alist])
            }
            3 => {
                let b = self.gen(&Ty::Bool, d - 1);
                let x = self.gen(&Ty::Any, d - 1);
                self.features.insert("and");
                call("and", vec![b, x])
            }
            4 => {
                let k = self.gen(&Ty::Sym, d - 1);
                let l = self.gen(&list_of(Ty::Sym), d - 1);
                self.features.insert("or");
                call("or", vec![call("memq", vec![k, l]), Sx::quote(s("none"))])
            }
            5 => {
                // quasiquote template with a literal dotted tail (a constant that only the
                // template's code refers to): `(,x ... . tail)
                self.features.insert("quasiquote");
                self.features.insert("qq-literal-dotted-tail");
                let saved_floor = self.qq_floor;
                let n = 1 + self.c.below(3);
                let mut items = vec![];
                for _ in 0..n {
                    if self.c.chance(170) {
                        let e = self.gen(&Ty::Int, d - 1);
                        items.push(lst(vec![s("unquote"), e]));
                    } else {
                        items.push(self.datum_of(&Ty::Int));
                    }
                }
                self.qq_floor = saved_floor;
                let tail = match self.c.below(4) {
                    0 => s(*self.c.pick(&["the-end", "tail-sym", "omega"][..])),
                    1 => Sx::Str("tail".into()),
                    2 => Sx::Vector(vec![int(1), s("v")]),
                    _ => int(7),
                };
                lst(vec![s("quasiquote"), Sx::Dotted(items, Box::new(tail))])
            }
            _ => {
                let c = self.gen(&Ty::Bool, d - 1);
                let t1 = self.data_ty();
                let t2 = self.data_ty();
                let a = self.gen(&t1, d - 1);
                let b = self.gen(&t2, d - 1);
                call("if", vec![c, a, b])
            }
        }
    }

    /// statements (value unspecified or ignored)
    fn gen_unit(&mut self, d: usize) -> Sx {
        self.nodes += 1;
        if d == 0 || !self.budget_left() {
            return self.const_of(&Ty::Unit);
        }
        let vis = self.visible();
        let assignable: Vec<&Var> = vis
            .iter()
            .filter(|v| v.assignable && !matches!(v.ty, Ty::Unit | Ty::Small) && self.pure_only == 0)
            .collect();
        let fresh: Vec<&Var> = vis.iter().filter(|v| v.fresh_data && self.pure_only == 0).collect();
        let w_set = if assignable.is_empty() { 0 } else { 6 };
        let w_mut = if fresh.is_empty() { 0 } else { 4 };
        let w_out = if self.cfg.output && self.pure_only == 0 { 4 } else { 0 };
        let w_foreach = if self.pure_only == 0 { 2 } else { 0 };
        match self.c.weighted(&[w_set, w_mut, w_out, w_foreach, 2, 1]) {
            0 => {
                let v = assignable[self.c.below(assignable.len())].clone();
                let e = self.gen(&v.ty, d - 1);
                self.features.insert(if v.global { "set!-global" } else { "set!-local" });
                call("set!", vec![s(&v.name), e])
            }
            1 => {
                let v = fresh[self.c.below(fresh.len())].clone();
                self.features.insert("data-mutation");
                match &v.ty {
                    Ty::Vector => {
                        // scalar values only: storing a container could tie a cycle
                        let st = match self.c.below(3) {
                            0 => Ty::Int,
                            1 => Ty::Sym,
                            _ => Ty::Bool,
                        };
                        let e = self.gen(&st, d - 1);
                        // index 0 of a vector that was created non-empty
                        call("vector-set!", vec![s(&v.name), int(0), e])
                    }
                    Ty::List(t) => {
                        let st = if **t == Ty::Any { Ty::Int } else { (**t).clone() };
                        let e = self.gen(&st, d - 1);
                        call("set-car!", vec![s(&v.name), e])
                    }
                    _ => call("if", vec![Sx::Bool(false), Sx::Bool(false)]),
                }
            }
            2 => {
                let e = self.gen(&Ty::Any, d - 1);
                self.features.insert("output");
                call(*self.c.pick(&["display", "write"][..]), vec![e])
            }
            3 => {
                self.features.insert("for-each");
                let nm = self.local_name();
                let mark = self.scope.len();
                self.contour += 1;
                self.bind_local(&nm, Ty::Int, false);
                let body = self.gen_unit(d - 1);
                self.scope.truncate(mark);
                self.contour -= 1;
                let l = self.gen(&list_of(Ty::Int), d - 1);
                call("for-each", vec![lst(vec![s("lambda"), lst(vec![s(&nm)]), body]), l])
            }
            4 => {
                let c = self.gen(&Ty::Bool, d - 1);
                let kw = *self.c.pick(&["when", "unless"][..]);
                self.features.insert(if kw == "when" { "when" } else { "unless" });
                self.contour += 1; // body is a begin = lambda
                let n = 1 + self.c.below(2);
                let mut v = vec![c];
                for _ in 0..n {
                    let st = self.gen_unit(d - 1);
                    v.push(st);
                }
                self.contour -= 1;
                call(kw, v)
            }
            _ => {
                let c = self.gen(&Ty::Bool, d - 1);
                let st = self.gen_unit(d - 1);
                call("if", vec![c, st])
            }
        }
    }

    // ------------------------------------------------------------ procedures

    /// (lambda formals body...) of the given type; parameters are bound while
    /// the body is generated.
    fn lambda_literal(&mut self, p: &ProcTy, d: usize) -> Sx {
        self.nodes += 1;
        self.features.insert("lambda");
        let n = p.params.len() + if p.rest.is_some() { 1 } else { 0 };
        let names = self.distinct_names(n);
        let mark = self.scope.len();
        self.contour += 1;
        for (nm, t) in names.iter().zip(p.params.iter()) {
            self.bind_local(nm, t.clone(), false);
        }
        if let Some(rt) = &p.rest {
            self.bind_local(&names[n - 1], list_of(rt.clone()), false);
            self.features.insert(if p.params.is_empty() { "rest-only-lambda" } else { "n+rest-lambda" });
        }
        let body = self.body(&p.ret, d);
        self.scope.truncate(mark);
        self.contour -= 1;
        let formals = match &p.rest {
            None => lst(names.iter().map(|x| s(x)).collect()),
            Some(_) => {
                if p.params.is_empty() {
                    s(&names[0])
                } else {
                    Sx::Dotted(
                        names[..n - 1].iter().map(|x| s(x)).collect(),
                        Box::new(s(&names[n - 1])),
                    )
                }
            }
        };
        let mut v = vec![s("lambda"), formals];
        v.extend(body);
        lst(v)
    }

    /// body of a lambda-like form: optional internal defines, statements, result
    fn body(&mut self, ret: &Ty, d: usize) -> Vec<Sx> {
        let mut out = vec![];
        let dd = d.saturating_sub(1);
        if d > 0 && self.budget_left() && self.c.chance(50) {
            self.features.insert("internal-define");
            let k = 1 + self.c.below(2);
            for _ in 0..k {
                if self.c.chance(100) {
                    // internal procedure
                    let p = self.gen_proc_ty();
                    let nm = self.name_new_in_contour();
                    // visible to later defines and the body (letrec*), not to itself here
                    let lam = self.lambda_literal(&p, dd);
                    let (formals, body) = match lam {
                        Sx::List(mut v) => {
                            let body = v.split_off(2);
                            (v.pop().unwrap(), body)
                        }
                        _ => unreachable!(),
                    };
                    let head = match formals {
                        Sx::List(mut ps) => {
                            let mut h = vec![s(&nm)];
                            h.append(&mut ps);
                            lst(h)
                        }
                        Sx::Dotted(ps, t) => {
                            let mut h = vec![s(&nm)];
                            h.extend(ps);
                            Sx::Dotted(h, t)
                        }
                        other => Sx::Dotted(vec![s(&nm)], Box::new(other)),
                    };
                    let mut v = vec![s("define"), head];
                    v.extend(body);
                    out.push(lst(v));
                    self.bind_local(&nm, Ty::Proc(p), false);
                } else {
                    let t = self.data_ty();
                    let (e, fresh) = self.init_expr(&t, dd);
                    let nm = self.name_new_in_contour();
                    out.push(call("define", vec![s(&nm), e]));
                    self.bind_local(&nm, t, fresh);
                }
            }
        }
        if d > 0 && self.budget_left() && self.c.chance(70) {
            let k = 1 + self.c.below(2);
            for _ in 0..k {
                let st = self.gen_unit(dd.max(1));
                out.push(st);
            }
        }
        out.push(self.gen(ret, dd));
        out
    }

    /// initialiser for a new variable; says whether it is freshly allocated mutable data
    fn init_expr(&mut self, t: &Ty, d: usize) -> (Sx, bool) {
        match t {
            Ty::List(et) if self.c.chance(120) => {
                let n = 1 + self.c.below(3);
                let items = (0..n).map(|_| self.gen(&et.clone(), d.saturating_sub(1))).collect();
                (call("list", items), true)
            }
            Ty::Vector if self.c.chance(160) => {
                let n = 1 + self.c.below(3);
                let items = (0..n).map(|_| self.gen(&Ty::Any, d.saturating_sub(1))).collect();
                (call("vector", items), true)
            }
            _ => (self.gen(t, d), false),
        }
    }

    fn args_for(&mut self, p: &ProcTy, d: usize) -> Vec<Sx> {
        let mut args: Vec<Sx> = p.params.iter().map(|t| self.gen(t, d)).collect();
        if let Some(rt) = &p.rest {
            let k = self.c.below(4);
            for _ in 0..k {
                args.push(self.gen(rt, d));
            }
        }
        args
    }

    /// call of a procedure-valued variable whose result has type `ty`
    fn call_var(&mut self, ty: &Ty, d: usize) -> Option<Sx> {
        let cands: Vec<Var> = self
            .visible()
            .into_iter()
            .filter(|v| match &v.ty {
                Ty::Proc(p) => Self::compatible(&p.ret, ty) && (self.pure_only == 0 || !v.global),
                _ => false,
            })
            .collect();
        if cands.is_empty() {
            return None;
        }
        let v = cands[self.c.below(cands.len())].clone();
        let p = match &v.ty {
            Ty::Proc(p) => p.clone(),
            _ => unreachable!(),
        };
        self.features.insert(if v.global { "call-global-procedure" } else { "call-local-procedure" });
        Some(self.make_call(s(&v.name), &p, d - 1))
    }

    /// apply `f` (an operator expression) to generated arguments, directly or through apply
    fn make_call(&mut self, f: Sx, p: &ProcTy, d: usize) -> Sx {
        let args = self.args_for(p, d);
        if self.c.chance(60) {
            // through apply: 0-2 leading arguments, the rest as a list
            self.features.insert("apply");
            let lead = self.c.below(3).min(args.len());
            let mut v = vec![f];
            v.extend(args[..lead].iter().cloned());
            v.push(call("list", args[lead..].to_vec()));
            call("apply", v)
        } else {
            let mut v = vec![f];
            v.extend(args);
            lst(v)
        }
    }

    // ------------------------------------------------------------ wrappers

    fn wrapper(&mut self, ty: &Ty, d: usize) -> Option<Sx> {
        let is_value = !matches!(ty, Ty::Unit);
        let w_and_or = if matches!(ty, Ty::Bool) { 0 } else { 0 };
        let w_eval = if is_value && !matches!(ty, Ty::Proc(_) | Ty::Promise(_)) && self.pure_only == 0 { 2 } else { 0 };
        let w_callcc = if self.cfg.callcc && is_value && self.pure_only == 0 && !matches!(ty, Ty::Proc(_) | Ty::Promise(_)) { 12 } else { 0 };
        let w_force = if is_value && !matches!(ty, Ty::Proc(_) | Ty::Promise(_)) { 2 } else { 0 };
        let w_case = 3;
        let choice = self.c.weighted(&[6, 8, 3, 3, 4, 5, w_case, 5, w_force, w_eval, w_callcc, w_and_or, 2]);
        Some(match choice {
            0 => {
                let c = self.gen(&Ty::Bool, d - 1);
                let a = self.gen(ty, d - 1);
                let b = self.gen(ty, d - 1);
                self.features.insert("if");
                call("if", vec![c, a, b])
            }
            1 => self.let_form(ty, d, "let"),
            2 => self.let_form(ty, d, "let*"),
            3 => self.letrec_form(ty, d),
            4 => {
                // begin: a lambda in the SUT (contour + 1)
                self.features.insert("begin");
                self.contour += 1;
                let n = 1 + self.c.below(2);
                let mut v = vec![];
                for _ in 0..n {
                    let st = self.gen_unit(d - 1);
                    v.push(st);
                }
                v.push(self.gen(ty, d - 1));
                self.contour -= 1;
                call("begin", v)
            }
            5 => self.cond_form(ty, d),
            6 => self.case_form(ty, d),
            7 => {
                // lambda literal applied directly (fixed, n+rest, rest-only)
                let n = self.c.below(3);
                let params: Vec<Ty> = (0..n).map(|_| self.param_ty()).collect();
                let rest = if self.c.chance(60) { Some(Ty::Int) } else { None };
                let p = ProcTy { params, rest, ret: ty.clone() };
                self.features.insert("lambda-literal-application");
                // operands are generated in the outer scope, the operator afterwards
                let args = self.args_for(&p, d - 1);
                let f = self.lambda_literal(&p, d - 1);
                let mut v = vec![f];
                v.extend(args);
                lst(v)
            }
            8 => {
                self.features.insert("delay-force");
                if self.c.flip() {
                    let e = self.gen(ty, d - 1);
                    call("force", vec![call("delay", vec![e])])
                } else {
                    // promise bound to a variable and forced twice: the body runs once
                    let nm = self.local_name();
                    self.contour += 1; // delay's thunk
                    let e = self.gen(ty, d - 1);
                    self.contour -= 1;
                    lst(vec![
                        s("let"),
                        lst(vec![lst(vec![s(&nm), call("delay", vec![e])])]),
                        call("force", vec![s(&nm)]),
                        call("force", vec![s(&nm)]),
                    ])
                }
            }
            9 => self.eval_form(ty, d),
            10 => self.callcc_form(ty, d),
            12 => {
                // data round trip
                let e = self.gen(ty, d - 1);
                let other = self.gen(&Ty::Any, d - 1);
                if matches!(ty, Ty::Unit) {
                    return None;
                }
                match self.c.below(3) {
                    0 => call("car", vec![call("list", vec![e, other])]),
                    1 => call("vector-ref", vec![call("vector", vec![other, e]), int(1)]),
                    _ => call("cdr", vec![call("cons", vec![other, e])]),
                }
            }
            _ => return None,
        })
    }

    fn let_form(&mut self, ty: &Ty, d: usize, kw: &str) -> Sx {
        self.features.insert(if kw == "let" { "let" } else { "let*" });
        let n = 1 + self.c.below(3);
        let names = if kw == "let" {
            self.distinct_names(n)
        } else {
            (0..n).map(|_| self.local_name()).collect()
        };
        let mark = self.scope.len();
        let mut bindings = vec![];
        let mut pending: Vec<(String, Ty, bool)> = vec![];
        for nm in &names {
            let t = if self.c.chance(40) { Ty::Proc(self.gen_proc_ty()) } else { self.data_ty() };
            let (e, fresh) = if let Ty::Proc(p) = &t {
                (self.lambda_literal(&p.clone(), d - 1), false)
            } else {
                self.init_expr(&t, d - 1)
            };
            bindings.push(lst(vec![s(nm), e]));
            if kw == "let*" {
                // each binding is its own nested let (= lambda) in the SUT
                self.contour += 1;
                self.bind_local(nm, t, fresh);
            } else {
                pending.push((nm.clone(), t, fresh));
            }
        }
        if kw == "let" {
            self.contour += 1;
            for (nm, t, fresh) in pending {
                self.bind_local(&nm, t, fresh);
            }
        }
        if kw == "let*" && n == 0 {
            self.contour += 1;
        }
        let body = self.body(ty, d - 1);
        self.scope.truncate(mark);
        self.contour -= if kw == "let" { 1 } else { n.max(1) };
        let mut v = vec![s(kw), lst(bindings)];
        v.extend(body);
        lst(v)
    }

    fn letrec_form(&mut self, ty: &Ty, d: usize) -> Sx {
        self.features.insert("letrec");
        // mutually recursive even?/odd?-style counters, or a single recursive procedure
        let mark = self.scope.len();
        self.contour += 1;
        let ret = self.ret_ty();
        let p1 = Rc::new(ProcTy { params: vec![Ty::Small], rest: None, ret: ret.clone() });
        let names = self.distinct_names(2);
        let two = self.c.flip();
        self.bind_local(&names[0], Ty::Proc(p1.clone()), false);
        if two {
            self.bind_local(&names[1], Ty::Proc(p1.clone()), false);
        }
        // (lambda (k) (if (<= k 0) BASE (other (- k 1))))
        let mut lambdas = vec![];
        for idx in 0..(if two { 2 } else { 1 }) {
            let callee = if two { &names[1 - idx] } else { &names[0] };
            self.contour += 1;
            let m2 = self.scope.len();
            self.bind_local("k", Ty::Small, false);
            let base = self.gen(&ret, d - 1);
            self.scope.truncate(m2);
            self.contour -= 1;
            lambdas.push(lst(vec![
                s("lambda"),
                lst(vec![s("k")]),
                call("if", vec![call("<=", vec![s("k"), int(0)]), base, lst(vec![s(callee), call("-", vec![s("k"), int(1)])])]),
            ]));
        }
        self.contour += 1; // (let () body)
        let body = self.body(ty, d - 1);
        self.contour -= 1;
        self.scope.truncate(mark);
        self.contour -= 1;
        let mut bindings = vec![lst(vec![s(&names[0]), lambdas[0].clone()])];
        if two {
            bindings.push(lst(vec![s(&names[1]), lambdas[1].clone()]));
        }
        let mut v = vec![s("letrec"), lst(bindings)];
        v.extend(body);
        lst(v)
    }

    fn clause_body(&mut self, ty: &Ty, d: usize) -> Vec<Sx> {
        // (test r1 r2 ...) results live in a begin (= lambda)
        self.contour += 1;
        let mut v = vec![];
        if self.c.chance(50) {
            let st = self.gen_unit(d.max(1));
            v.push(st);
        }
        v.push(self.gen(ty, d));
        self.contour -= 1;
        v
    }

    fn cond_form(&mut self, ty: &Ty, d: usize) -> Sx {
        self.features.insert("cond");
        let n = 1 + self.c.below(3);
        let mut clauses = vec![];
        let mut extra_contours = 0;
        for _ in 0..n {
            match self.c.weighted(&[6, 2, if matches!(ty, Ty::Any | Ty::Bool) { 1 } else { 0 }]) {
                0 => {
                    let t = self.gen(&Ty::Bool, d - 1);
                    let mut c = vec![t];
                    c.extend(self.clause_body(ty, d - 1));
                    clauses.push(lst(c));
                }
                1 => {
                    // (test => receiver): test yields a list or #f
                    self.features.insert("cond=>");
                    let k = self.gen(&Ty::Int, d - 1);
                    let l = self.gen(&list_of(Ty::Int), d - 1);
                    let test = call("memv", vec![k, l]);
                    let p = ProcTy { params: vec![list_of(Ty::Int)], rest: None, ret: ty.clone() };
                    // the receiver is evaluated inside (let ((temp test)) ...)
                    self.contour += 1;
                    extra_contours += 1;
                    let f = self.lambda_literal(&p, d - 1);
                    clauses.push(lst(vec![test, s("=>"), f]));
                }
                _ => {
                    // (test) clause: value of the test itself
                    let t = self.gen(&Ty::Bool, d - 1);
                    clauses.push(lst(vec![t]));
                    self.contour += 1;
                    extra_contours += 1;
                }
            }
        }
        if !matches!(ty, Ty::Unit) || self.c.flip() {
            let mut c = vec![s("else")];
            c.extend(self.clause_body(ty, d - 1));
            clauses.push(lst(c));
        }
        self.contour -= extra_contours;
        let mut v = vec![s("cond")];
        v.extend(clauses);
        lst(v)
    }

    fn case_form(&mut self, ty: &Ty, d: usize) -> Sx {
        self.features.insert("case");
        let sym_key = self.c.chance(90);
        let key_ty = if sym_key { Ty::Sym } else { Ty::Int };
        let key = self.gen(&key_ty, d - 1);
        // a list-shaped key expression is first bound to atom-key by the macro: one more lambda
        let compound = matches!(key, Sx::List(_));
        if compound {
            self.contour += 1;
        }
        let n = 1 + self.c.below(3);
        let mut clauses = vec![];
        for _ in 0..n {
            let m = 1 + self.c.below(3);
            let data: Vec<Sx> = (0..m).map(|_| self.datum_of(&key_ty)).collect();
            if self.c.chance(50) {
                self.features.insert("case=>");
                let p = ProcTy { params: vec![key_ty.clone()], rest: None, ret: ty.clone() };
                let f = self.lambda_literal(&p, d - 1);
                clauses.push(lst(vec![lst(data), s("=>"), f]));
            } else {
                let mut c = vec![lst(data)];
                c.extend(self.clause_body(ty, d - 1));
                clauses.push(lst(c));
            }
        }
        if !matches!(ty, Ty::Unit) || self.c.flip() {
            if self.c.chance(50) {
                self.features.insert("case=>");
                let p = ProcTy { params: vec![key_ty.clone()], rest: None, ret: ty.clone() };
                let f = self.lambda_literal(&p, d - 1);
                clauses.push(lst(vec![s("else"), s("=>"), f]));
            } else {
                let mut c = vec![s("else")];
                c.extend(self.clause_body(ty, d - 1));
                clauses.push(lst(c));
            }
        }
        if compound {
            self.contour -= 1;
        }
        let mut v = vec![s("case"), key];
        v.extend(clauses);
        lst(v)
    }

    /// (eval <datum>) where the datum is a closed expression over constants and globals
    fn eval_form(&mut self, ty: &Ty, d: usize) -> Sx {
        self.features.insert("eval");
        // generate the inner expression with only globals visible
        let saved_scope = std::mem::take(&mut self.scope);
        self.scope = saved_scope.iter().filter(|v| v.global).cloned().collect();
        let saved_contour = self.contour;
        let saved_floor = self.qq_floor.take();
        self.contour = 0;
        let inner = self.gen(ty, d.saturating_sub(1).min(2));
        self.scope = saved_scope;
        self.contour = saved_contour;
        self.qq_floor = saved_floor;
        if matches!(ty, Ty::Int | Ty::Bool) && self.c.flip() {
            // quasi-built form with a value computed outside spliced in (self-evaluating)
            let saved_floor = self.qq_floor;
            if self.qq_floor.is_none() {
                self.qq_floor = Some(self.contour);
            }
            let outer = self.gen(&Ty::Int, d - 1);
            self.qq_floor = saved_floor;
            // the form is built at run time with list/quote (a quasiquote template
            // containing keyword-headed lists would hit known deviation d)
            let form = if *ty == Ty::Int {
                call("list", vec![Sx::quote(s("+")), outer, Sx::quote(inner)])
            } else {
                call(
                    "list",
                    vec![
                        Sx::quote(s("if")),
                        call("list", vec![Sx::quote(s("<")), outer, int(3)]),
                        Sx::quote(inner),
                        Sx::Bool(false),
                    ],
                )
            };
            self.features.insert("eval-of-constructed-form");
            call("eval", vec![form])
        } else {
            call("eval", vec![Sx::quote(inner)])
        }
    }

    /// call/cc in this position: the receiver may escape through k
    fn callcc_form(&mut self, ty: &Ty, d: usize) -> Sx {
        self.features.insert("call/cc");
        let nm = "k".to_string();
        let mark = self.scope.len();
        self.contour += 1;
        self.scope.push(Var {
            name: nm.clone(),
            ty: Ty::Cont(Box::new(ty.clone())),
            contour: self.contour,
            global: false,
            fresh_data: false,
            assignable: false,
        });
        let mut body = self.body(ty, d - 1);
        self.scope.truncate(mark);
        self.contour -= 1;
        // store the continuation for later re-entry (same or later top-level form)?
        let storable = matches!(ty, Ty::Int | Ty::Bool | Ty::Sym | Ty::Any) || *ty == list_of(Ty::Int);
        if storable && self.no_store == 0 && !self.holders.is_empty() && self.c.chance(150) {
            let hi = self.c.below(self.holders.len());
            let fits = match &self.holders[hi].2 {
                None => true,
                Some(t) => t == ty,
            };
            if fits {
                self.holders[hi].2 = Some(ty.clone());
                let hname = self.holders[hi].0.clone();
                self.features.insert("continuation-stored-in-global");
                // after internal defines (if any), before the rest of the body
                let pos = body.iter().take_while(|f| f.head_is("define")).count();
                body.insert(pos, call("set!", vec![s(&hname), s(&nm)]));
            }
        }
        let mut lam = vec![s("lambda"), lst(vec![s(&nm)])];
        lam.extend(body);
        let op = *self.c.pick(&["call/cc", "call-with-current-continuation"][..]);
        call(op, vec![lst(lam)])
    }

    // ------------------------------------------------------------ sessions

    fn define_global_data(&mut self, d: usize) -> Sx {
        // redefinition keeps the type (earlier-compiled code stays well typed)
        let existing: Vec<Var> = self
            .scope
            .iter()
            .filter(|v| v.global && !matches!(v.ty, Ty::Proc(_)))
            .cloned()
            .collect();
        if !existing.is_empty() && self.c.chance(70) {
            let v = existing[self.c.below(existing.len())].clone();
            self.features.insert("redefine-global");
            let (e, fresh) = self.init_expr(&v.ty, d);
            for sv in self.scope.iter_mut() {
                if sv.global && sv.name == v.name {
                    sv.fresh_data = fresh;
                }
            }
            return call("define", vec![s(&v.name), e]);
        }
        let t = self.data_ty();
        let (e, fresh) = self.init_expr(&t, d);
        let name = format!("g{}", self.next_global);
        self.next_global += 1;
        self.scope.push(Var { name: name.clone(), ty: t, contour: 0, global: true, fresh_data: fresh, assignable: true });
        call("define", vec![s(&name), e])
    }

    fn define_global_proc(&mut self, d: usize) -> Sx {
        let existing: Vec<Var> = self
            .scope
            .iter()
            .filter(|v| v.global && matches!(v.ty, Ty::Proc(_)))
            .cloned()
            .collect();
        let (name, p, redefine) = if !existing.is_empty() && self.c.chance(70) {
            let v = existing[self.c.below(existing.len())].clone();
            let p = match &v.ty {
                Ty::Proc(p) => p.clone(),
                _ => unreachable!(),
            };
            self.features.insert("redefine-global-procedure");
            (v.name, p, true)
        } else {
            let name = format!("f{}", self.next_proc);
            self.next_proc += 1;
            (name, self.gen_proc_ty(), false)
        };
        let style = self.c.below(4);
        let my_index: usize = name[1..].parse().unwrap_or(0);
        self.proc_limit = Some(my_index);
        let form = match style {
            0 if !redefine && !p.params.is_empty() && p.params[0] == Ty::Int => {
                // recursive: (define (f n . rest) (if (<= n 0) BASE (COMB (f (- n 1) ...))))
                self.features.insert("recursive-procedure");
                let mut pr = (*p).clone();
                pr.params[0] = Ty::Small;
                let pr = Rc::new(pr);
                let n = pr.params.len() + if pr.rest.is_some() { 1 } else { 0 };
                let mut names = self.distinct_names(n);
                names[0] = "n".to_string();
                for j in 1..names.len() {
                    if names[j] == "n" {
                        names[j] = format!("m{}", j);
                    }
                }
                let mark = self.scope.len();
                self.contour += 1;
                for (nm, t) in names.iter().zip(pr.params.iter()) {
                    self.bind_local(nm, t.clone(), false);
                }
                if let Some(rt) = &pr.rest {
                    self.bind_local(&names[n - 1], list_of(rt.clone()), false);
                }
                let base = self.gen(&pr.ret, d.saturating_sub(1));
                // recursive call: (f (- n 1) other-args...)
                let mut rec_args = vec![call("-", vec![s("n"), int(1)])];
                for t in pr.params.iter().skip(1) {
                    rec_args.push(self.gen(t, 1));
                }
                let mut rec = vec![s(&name)];
                rec.extend(rec_args);
                let rec = lst(rec);
                let step = match &pr.ret {
                    Ty::Int => call("+", vec![s("n"), rec]),
                    Ty::List(t) if **t == Ty::Int => call("cons", vec![s("n"), rec]),
                    Ty::Bool => call("not", vec![rec]),
                    _ => rec, // tail call
                };
                self.scope.truncate(mark);
                self.contour -= 1;
                self.proc_limit = None;
                self.scope.push(Var { name: name.clone(), ty: Ty::Proc(pr.clone()), contour: 0, global: true, fresh_data: false, assignable: false });
                let head = match &pr.rest {
                    None => lst(std::iter::once(s(&name)).chain(names.iter().map(|x| s(x))).collect()),
                    Some(_) => Sx::Dotted(
                        std::iter::once(s(&name)).chain(names[..n - 1].iter().map(|x| s(x))).collect(),
                        Box::new(s(&names[n - 1])),
                    ),
                };
                return lst(vec![
                    s("define"),
                    head,
                    call("if", vec![call("<=", vec![s("n"), int(0)]), base, step]),
                ]);
            }
            1 => {
                // (define f (lambda ...))
                let lam = self.lambda_literal(&p, d);
                call("define", vec![s(&name), lam])
            }
            2 if p.params.is_empty() && p.rest.is_none() && p.ret == Ty::Int => {
                // counter closure: state persists across top-level forms
                self.features.insert("closure-counter");
                let init = self.gen(&Ty::Int, 1);
                call(
                    "define",
                    vec![
                        s(&name),
                        lst(vec![
                            s("let"),
                            lst(vec![lst(vec![s("n"), init])]),
                            lst(vec![
                                s("lambda"),
                                lst(vec![]),
                                call("set!", vec![s("n"), call("+", vec![s("n"), int(1)])]),
                                s("n"),
                            ]),
                        ]),
                    ],
                )
            }
            _ => {
                // (define (f . formals) body...)
                let lam = self.lambda_literal(&p, d);
                match lam {
                    Sx::List(mut v) => {
                        let body = v.split_off(2);
                        let formals = v.pop().unwrap();
                        let head = match formals {
                            Sx::List(mut ps) => {
                                let mut h = vec![s(&name)];
                                h.append(&mut ps);
                                lst(h)
                            }
                            Sx::Dotted(ps, t) => {
                                let mut h = vec![s(&name)];
                                h.extend(ps);
                                Sx::Dotted(h, t)
                            }
                            other => Sx::Dotted(vec![s(&name)], Box::new(other)),
                        };
                        let mut f = vec![s("define"), head];
                        f.extend(body);
                        lst(f)
                    }
                    _ => unreachable!(),
                }
            }
        };
        self.proc_limit = None;
        if !redefine {
            self.scope.push(Var { name, ty: Ty::Proc(p), contour: 0, global: true, fresh_data: false, assignable: false });
        }
        form
    }

    pub fn session(&mut self) -> Session {
        let n = 1 + self.c.below(self.cfg.max_forms);
        let mut forms = vec![];
        if self.cfg.callcc {
            let nh = 1 + self.c.below(2);
            for i in 0..nh {
                let (k, c) = (format!("kc{}", i), format!("cc{}", i));
                forms.push(call("define", vec![s(&k), Sx::Bool(false)]));
                forms.push(call("define", vec![s(&c), int(0)]));
                self.holders.push((k, c, None));
            }
        }
        for _ in 0..n {
            self.nodes = 0;
            self.contour = 0;
            self.qq_floor = None;
            let d = 1 + self.c.below(self.cfg.depth);
            let has_globals = self.scope.iter().any(|v| v.global);
            let w_set = if self.scope.iter().any(|v| v.global && v.assignable) { 2 } else { 0 };
            let form = match self.c.weighted(&[if has_globals { 8 } else { 3 }, 4, 5, w_set, 1]) {
                0 => {
                    let t = if self.c.chance(40) { Ty::Unit } else if self.c.chance(120) { Ty::Any } else { self.data_ty() };
                    self.gen(&t, d)
                }
                1 => self.define_global_data(d),
                2 => self.define_global_proc(d),
                3 => {
                    let gs: Vec<Var> = self.scope.iter().filter(|v| v.global && v.assignable).cloned().collect();
                    let v = gs[self.c.below(gs.len())].clone();
                    let (e, fresh) = self.init_expr(&v.ty, d);
                    for sv in self.scope.iter_mut() {
                        if sv.global && sv.name == v.name {
                            sv.fresh_data = fresh;
                        }
                    }
                    self.features.insert("set!-global");
                    call("set!", vec![s(&v.name), e])
                }
                _ => self.probe_form(d),
            };
            forms.push(form);
        }
        // now and then a run of consecutive top-level forms becomes one top-level `begin`, its
        // first forms in a nested `begin` (a top-level begin is spliced: same meaning, one form)
        if !self.cfg.callcc && forms.len() >= 2 && self.c.chance(48) {
            let len = 2 + self.c.below((forms.len() - 1).min(3));
            let start = self.c.below(forms.len() - len + 1);
            let group: Vec<Sx> = forms.drain(start..start + len).collect();
            let mut outer = vec![s("begin")];
            if group.len() >= 3 || self.c.flip() {
                let k = 2.min(group.len() - 1).max(1);
                let mut inner = vec![s("begin")];
                inner.extend(group[..k].iter().cloned());
                outer.push(lst(inner));
                outer.extend(group[k..].iter().cloned());
            } else {
                outer.extend(group);
            }
            forms.insert(start, lst(outer));
            self.features.insert("toplevel-forms-grouped-in-nested-begin");
        }
        let globals = self.scope.iter().filter(|v| v.global).map(|v| v.name.clone()).collect();
        Session { forms, features: self.features.clone(), globals }
    }

    /// forms that deliberately hit known deviations (probe rate, tagged)
    fn probe_form(&mut self, d: usize) -> Sx {
        if self.c.chance(self.cfg.probe_qq_vector_twice) {
            self.features.insert("qq-vector-evaluated-twice");
            let e = self.gen(&Ty::Int, 1);
            // a procedure whose body is a quasiquoted vector, called twice
            return lst(vec![
                s("let"),
                lst(vec![lst(vec![s("mk"), lst(vec![s("lambda"), lst(vec![s("x")]), lst(vec![s("quasiquote"), Sx::Vector(vec![int(1), lst(vec![s("unquote"), s("x")])])])])])]),
                call("mk", vec![e.clone()]),
                call("mk", vec![e]),
            ]);
        }
        if self.c.chance(self.cfg.probe_temp_capture.saturating_mul(20)) {
            self.features.insert("kf-macro-temporary-capture");
            let tmp = *self.c.pick(&["var1", "temp", "atom-key"][..]);
            let e = self.gen(&Ty::Int, 1);
            return match tmp {
                "var1" => lst(vec![s("let"), lst(vec![lst(vec![s("var1"), e])]), call("or", vec![Sx::Bool(false), s("var1")])]),
                "temp" => lst(vec![
                    s("let"),
                    lst(vec![lst(vec![s("temp"), e])]),
                    call("cond", vec![lst(vec![Sx::Bool(false)]), lst(vec![s("else"), s("temp")])]),
                ]),
                _ => lst(vec![
                    s("let"),
                    lst(vec![lst(vec![s("atom-key"), e])]),
                    call("case", vec![call("+", vec![int(1), int(1)]), lst(vec![lst(vec![int(2)]), s("atom-key")]), lst(vec![s("else"), int(0)])]),
                ]),
            };
        }
        if self.c.chance(self.cfg.probe_begin_define.saturating_mul(20)) {
            self.features.insert("toplevel-begin-define");
            let name = format!("g{}", self.next_global);
            self.next_global += 1;
            let e = self.gen(&Ty::Int, 1);
            self.scope.push(Var { name: name.clone(), ty: Ty::Int, contour: 0, global: true, fresh_data: false, assignable: true });
            return call("begin", vec![call("define", vec![s(&name), e])]);
        }
        self.gen(&Ty::Any, d)
    }
}

pub fn gen_session(bytes: &[u8], cfg: &Cfg) -> Session {
    let mut c = Choices::new(bytes);
    let mut g = Gen::new(&mut c, cfg.clone());
    g.session()
}

/// Syntactic feature detector for the known deviations (signatures are
/// computed from the program text, not from generator bookkeeping, so that a
/// shrunk or hand-written program is classified the same way).
pub fn kf_features(forms: &[Sx]) -> Vec<&'static str> {
    let mut out = BTreeSet::new();
    for f in forms {
        scan(f, false, &mut out);
        // variables named like the prelude's macro temporaries
        let mut binds_temp = false;
        f.walk(&mut |x| {
            if let Sx::Sym(n) = x {
                if n == "var1" || n == "temp" || n == "atom-key" {
                    binds_temp = true;
                }
            }
        });
        if binds_temp {
            out.insert("macro-temporary-name");
        }
    }
    out.into_iter().collect()
}

const KEYWORDS: [&str; 13] = ["let", "letrec", "letrec*", "or", "and", "when", "begin", "unless", "let*", "cond", "case", "delay", "delay-force"];

fn scan(x: &Sx, in_qq: bool, out: &mut BTreeSet<&'static str>) {
    match x {
        Sx::List(v) if !v.is_empty() => {
            let head = v[0].as_sym();
            if head == Some("quote") {
                return;
            }
            if head == Some("quasiquote") && v.len() == 2 {
                scan_template(&v[1], out);
                return;
            }
            if in_qq {
                return;
            }
            for e in v {
                scan(e, false, out);
            }
        }
        Sx::Vector(v) => {
            for e in v {
                scan(e, in_qq, out);
            }
        }
        _ => {}
    }
}

fn has_keyword_list(x: &Sx) -> bool {
    let mut found = false;
    x.walk(&mut |n| {
        if let Sx::List(v) = n {
            if let Some(h) = v.first().and_then(|h| h.as_sym()) {
                if KEYWORDS.contains(&h) {
                    found = true;
                }
            }
        }
    });
    found
}

fn scan_vector_template(t: &Sx, out: &mut BTreeSet<&'static str>) {
    match t {
        Sx::List(v) if v.len() == 2 && v[0].as_sym() == Some("unquote") => {
            if has_keyword_list(&v[1]) {
                out.insert("qq-vector-unquote-derived-form");
            }
        }
        Sx::List(v) | Sx::Vector(v) => {
            for e in v {
                scan_vector_template(e, out);
            }
        }
        _ => {}
    }
}

fn scan_template(t: &Sx, out: &mut BTreeSet<&'static str>) {
    match t {
        Sx::List(v) if !v.is_empty() => {
            if v.len() == 2 && v[0].as_sym() == Some("unquote") {
                scan(&v[1], false, out);
                return;
            }
            let n = v.len();
            for e in v {
                scan_template(e, out);
            }
        }
        Sx::Vector(v) => {
            for e in v {
                scan_template(e, out);
            }
        }
        Sx::Dotted(v, tl) => {
            for e in v {
                scan_template(e, out);
            }
            scan_template(tl, out);
        }
        _ => {}
    }
}
