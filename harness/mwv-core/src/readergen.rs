//! Generators and reference scanners for the reader properties C10 (written
//! data reads back) and C11 (reader discipline). Nothing here depends on
//! marwood: data are the harness' own `Datum`, texts are plain strings, and the
//! reference gap scanner / token-class parser work on spans and classes only.

use crate::choice::Choices;
use crate::sx::Sx;
use num::bigint::{BigInt, Sign};
use num::BigRational;

// ---------------------------------------------------------------------------
// corpus (seed programs lifted from /repo/marwood/tests/*.rs and prelude.scm)

pub const CORPUS: &[(&str, &str)] = &[
    ("prelude-let", include_str!("../../../corpus/prelude-let.scm")),
    ("prelude-named-let", include_str!("../../../corpus/prelude-named-let.scm")),
    ("prelude-or", include_str!("../../../corpus/prelude-or.scm")),
    ("prelude-letstar", include_str!("../../../corpus/prelude-letstar.scm")),
    ("prelude-cond", include_str!("../../../corpus/prelude-cond.scm")),
    ("core-comments", include_str!("../../../corpus/core-comments.scm")),
    ("core-quasiquote", include_str!("../../../corpus/core-quasiquote.scm")),
    ("core-closures", include_str!("../../../corpus/core-closures.scm")),
    ("core-varargs", include_str!("../../../corpus/core-varargs.scm")),
    ("string-chars", include_str!("../../../corpus/string-chars.scm")),
    ("cont-lambda", include_str!("../../../corpus/cont-lambda.scm")),
    ("number-literals", include_str!("../../../corpus/number-literals.scm")),
    ("vector-dotted", include_str!("../../../corpus/vector-dotted.scm")),
];

// ---------------------------------------------------------------------------
// characters

pub const HEAVY: &[char] = &['#', '\\', '"', ';', '\'', '`', ',', '.', '(', ')', '[', ']', '{', '}'];
pub const WS_KINDS: &[char] = &[
    ' ', '\n', '\t', '\r', '\u{b}', '\u{c}', '\u{85}', '\u{a0}', '\u{1680}', '\u{2003}', '\u{2028}',
    '\u{2029}', '\u{202f}', '\u{3000}', '\u{feff}', '\u{200b}',
];

/// A random Unicode scalar value over all planes.
pub fn gen_scalar(c: &mut Choices) -> char {
    let v = match c.weighted(&[2, 1, 6, 4, 1]) {
        0 => 0x20 + c.below(0x60),
        1 => 0x80 + c.below(0x80),
        2 => 0x100 + c.below(0xff00),
        3 => 0x10000 + c.below(0x100000),
        _ => *c.pick(&[0x10ffffusize, 0xffff, 0xd7ff, 0xe000, 0xfffd, 0x1ffff, 0xfdd0]),
    };
    char::from_u32(v as u32).unwrap_or('\u{fffd}')
}

/// A character for C10 (as a character datum or inside a string): every class
/// the printer or the reader could treat specially.
pub fn gen_char(c: &mut Choices) -> char {
    match c.weighted(&[8, 6, 4, 8, 3, 3, 5, 4, 5, 5, 3, 3, 3, 4, 2, 5, 4]) {
        0 => (b'a' + c.below(26) as u8) as char,
        1 => *c.pick(&['x', 'a', 'f', 'e', 'b', 'd', 'i', 'o', 't', 'n', 's', 'A', 'F', 'X', 'Z']),
        2 => (b'0' + c.below(10) as u8) as char,
        3 => *c.pick(&[
            '(', ')', '[', ']', '{', '}', '"', ';', '\'', '`', ',', '#', '\\', '|', '.', '+', '-', '/', '@',
            '!', '~', '<',
        ]),
        4 => ' ',
        5 => '\n',
        6 => *c.pick(&['\t', '\r', '\0', '\u{7}', '\u{8}', '\u{1b}', '\u{7f}', '\u{b}', '\u{c}']),
        7 => char::from_u32(1 + c.below(0x1f) as u32).unwrap(),
        8 => {
            if c.flip() {
                '\u{85}'
            } else {
                char::from_u32(0x80 + c.below(0x20) as u32).unwrap()
            }
        }
        9 => *c.pick(&[
            '\u{a0}', '\u{1680}', '\u{2000}', '\u{2003}', '\u{200a}', '\u{2028}', '\u{2029}', '\u{202f}',
            '\u{205f}', '\u{3000}',
        ]),
        10 => *c.pick(&['\u{200b}', '\u{200d}', '\u{feff}', '\u{ad}', '\u{2060}', '\u{200e}']),
        11 => *c.pick(&['\u{301}', '\u{308}', '\u{20d7}', '\u{fe0f}', '\u{345}', '\u{1ab0}']),
        12 => *c.pick(&['é', 'ß', '×', '÷', '¿', 'µ', 'ª', '¡', 'ÿ', '¬']),
        13 => {
            if c.flip() {
                *c.pick(&['λ', '日', '本', 'Ж', 'ع', 'अ', 'ǅ', 'ʰ', 'Ⅷ', '①', '€'])
            } else {
                char::from_u32(0x100 + c.below(0xd700) as u32).unwrap_or('λ')
            }
        }
        14 => *c.pick(&['\u{e000}', '\u{f8ff}', '\u{fffd}', '\u{fffe}', '\u{ffff}', '\u{fdd0}']),
        15 => {
            if c.flip() {
                *c.pick(&[
                    '\u{1f436}', '\u{1d4b3}', '\u{10000}', '\u{1f600}', '\u{2a6d6}', '\u{e0001}', '\u{f0000}',
                    '\u{10ffff}', '\u{1ffff}', '\u{12000}', '\u{1d7d8}',
                ])
            } else {
                char::from_u32(0x10000 + c.below(0x100000) as u32).unwrap_or('\u{10000}')
            }
        }
        _ => gen_scalar(c),
    }
}

/// Feature class of a character (for histograms and signatures).
pub fn char_class(ch: char) -> &'static str {
    let v = ch as u32;
    match ch {
        ' ' => "space",
        '\n' => "newline",
        '\t' | '\r' | '\0' | '\u{7}' | '\u{8}' | '\u{1b}' | '\u{7f}' => "named-control",
        'x' => "x",
        _ if v < 0x20 => "c0-control",
        _ if (0x80..0xa0).contains(&v) => "c1-control",
        '(' | ')' | '[' | ']' | '{' | '}' | '"' | ';' | '\'' | '`' | ',' | '|' => "delimiter",
        '#' | '\\' => "hash-or-backslash",
        _ if ch.is_ascii_hexdigit() && ch.is_ascii_alphabetic() => "hex-letter",
        _ if ch.is_ascii_alphabetic() => "ascii-alpha",
        _ if ch.is_ascii_digit() => "ascii-digit",
        _ if v < 0x80 => "ascii-punct",
        '\u{a0}' => "latin1-nbsp",
        _ if ch.is_whitespace() => "unicode-space",
        '\u{200b}' | '\u{200d}' | '\u{feff}' | '\u{ad}' | '\u{2060}' | '\u{200e}' => "format",
        '\u{300}'..='\u{36f}' | '\u{20d0}'..='\u{20ff}' | '\u{fe00}'..='\u{fe0f}' | '\u{1ab0}'..='\u{1aff}' => {
            "combining"
        }
        _ if v < 0x100 => "latin1",
        '\u{e000}'..='\u{f8ff}' | '\u{fdd0}'..='\u{fdef}' | '\u{fff0}'..='\u{ffff}' => "private-or-nonchar",
        _ if v < 0x10000 => "bmp",
        _ => "astral",
    }
}

/// Does `write` need more than the raw character to spell this one?
pub fn char_needs_escape(ch: char) -> bool {
    ch.is_control() || ch == ' ' || ch == '"' || ch == '\\'
}

// ---------------------------------------------------------------------------
// the datum of C10

#[derive(Clone, Debug)]
pub enum Datum {
    Bool(bool),
    Fix(i64),
    /// always built as a bignum cell, whatever the magnitude
    Big(BigInt),
    /// reduced, denominator > 0; denominator 1 = integer-valued rational
    Rat(i32, i32),
    Flo(f64),
    Char(char),
    Str(String),
    Sym(String),
    /// proper list; empty = ()
    List(Vec<Datum>),
    /// improper list: >= 1 element, tail never a list
    Dotted(Vec<Datum>, Box<Datum>),
    Vector(Vec<Datum>),
}

impl Datum {
    pub fn sym(s: &str) -> Datum {
        Datum::Sym(s.to_string())
    }

    /// The value the round trip must preserve (exact integers of every
    /// representation are one value; everything else is strict).
    pub fn to_sx(&self) -> Sx {
        match self {
            Datum::Bool(b) => Sx::Bool(*b),
            Datum::Fix(i) => Sx::Int(BigInt::from(*i)),
            Datum::Big(b) => Sx::Int(b.clone()),
            Datum::Rat(n, d) => {
                if *d == 1 {
                    Sx::Int(BigInt::from(*n))
                } else {
                    Sx::Rat(BigRational::new(BigInt::from(*n), BigInt::from(*d)))
                }
            }
            Datum::Flo(f) => Sx::Real(*f),
            Datum::Char(c) => Sx::Char(*c),
            Datum::Str(s) => Sx::Str(s.clone()),
            Datum::Sym(s) => Sx::Sym(s.clone()),
            Datum::List(v) => Sx::List(v.iter().map(|x| x.to_sx()).collect()),
            Datum::Dotted(v, t) => Sx::Dotted(v.iter().map(|x| x.to_sx()).collect(), Box::new(t.to_sx())),
            Datum::Vector(v) => Sx::Vector(v.iter().map(|x| x.to_sx()).collect()),
        }
    }

    pub fn children(&self) -> Vec<&Datum> {
        match self {
            Datum::List(v) | Datum::Vector(v) => v.iter().collect(),
            Datum::Dotted(v, t) => {
                let mut o: Vec<&Datum> = v.iter().collect();
                o.push(t);
                o
            }
            _ => vec![],
        }
    }

    pub fn depth(&self) -> usize {
        match self {
            Datum::List(v) if v.is_empty() => 0,
            Datum::List(_) | Datum::Vector(_) | Datum::Dotted(_, _) => {
                1 + self.children().iter().map(|x| x.depth()).max().unwrap_or(0)
            }
            _ => 0,
        }
    }

    pub fn size(&self) -> usize {
        1 + self.children().iter().map(|x| x.size()).sum::<usize>()
    }

    pub fn walk<F: FnMut(&Datum)>(&self, f: &mut F) {
        f(self);
        for ch in self.children() {
            ch.walk(f);
        }
    }

    fn is_quote_sym(&self) -> bool {
        matches!(self, Datum::Sym(s) if s == "quote")
    }

    /// Feature class of this node alone (leaves: fine grained).
    pub fn class(&self) -> String {
        match self {
            Datum::Bool(_) => "bool".into(),
            Datum::Fix(i) => {
                if i.unsigned_abs() <= 1 << 20 {
                    "int:fix:small".into()
                } else if *i > i64::MAX - 16 || *i < i64::MIN + 16 {
                    "int:fix:at-2^63".into()
                } else {
                    "int:fix".into()
                }
            }
            Datum::Big(b) => {
                if b.bits() <= 63 {
                    "int:big:fits-i64".into()
                } else if b.bits() <= 65 {
                    "int:big:just-beyond-2^63".into()
                } else {
                    "int:big:huge".into()
                }
            }
            Datum::Rat(n, d) => {
                if *d == 1 {
                    "rat:integral".into()
                } else if *n == i32::MIN || *n == i32::MAX || *d == i32::MAX {
                    "rat:i32-boundary".into()
                } else {
                    "rat:nonintegral".into()
                }
            }
            Datum::Flo(f) => format!("float:{}", float_class(*f)),
            Datum::Char(c) => format!("char:{}", char_class(*c)),
            Datum::Str(s) => format!("str:{}", str_class(s)),
            Datum::Sym(s) => format!("sym:{}", sym_class(s)),
            Datum::List(v) => {
                if v.is_empty() {
                    "nil".into()
                } else if v[0].is_quote_sym() {
                    match v.len() {
                        1 => "quote-degenerate:(quote)".into(),
                        2 => "quote-form".into(),
                        _ => "quote-degenerate:(quote a b)".into(),
                    }
                } else {
                    "list".into()
                }
            }
            Datum::Dotted(v, _) => {
                if v[0].is_quote_sym() && v.len() == 1 {
                    "quote-degenerate:(quote . a)".into()
                } else {
                    "dotted".into()
                }
            }
            Datum::Vector(v) => {
                if v.is_empty() {
                    "vector:empty".into()
                } else {
                    "vector".into()
                }
            }
        }
    }

    /// Non-trivial by the rule of C10: contains a float, a character/string
    /// needing an escape, a peculiar symbol, or nesting >= 3.
    pub fn nontrivial(&self) -> bool {
        if self.depth() >= 3 {
            return true;
        }
        let mut nt = false;
        self.walk(&mut |d| match d {
            Datum::Flo(_) => nt = true,
            Datum::Char(c) if char_needs_escape(*c) => nt = true,
            Datum::Str(s) if s.chars().any(char_needs_escape) => nt = true,
            Datum::Sym(s) if sym_class(s) != "plain" => nt = true,
            _ => {}
        });
        nt
    }

    /// The harness' own spelling (used for samples, hashes and as seed text for
    /// C11's mutations; it is *not* an oracle for the SUT's printer).
    pub fn write_ref(&self, out: &mut String) {
        match self {
            Datum::Bool(b) => out.push_str(if *b { "#t" } else { "#f" }),
            Datum::Fix(i) => out.push_str(&i.to_string()),
            Datum::Big(b) => out.push_str(&b.to_string()),
            Datum::Rat(n, d) => {
                if *d == 1 {
                    out.push_str(&n.to_string())
                } else {
                    out.push_str(&format!("{}/{}", n, d))
                }
            }
            Datum::Flo(f) => {
                if f.fract() == 0.0 && f.abs() < 1e15 {
                    out.push_str(&format!("{:.1}", f))
                } else {
                    out.push_str(&format!("{:e}", f))
                }
            }
            Datum::Char(c) => crate::sx::write_char_literal(*c, out),
            Datum::Str(s) => crate::sx::write_string_literal(s, out),
            Datum::Sym(s) => out.push_str(s),
            Datum::List(v) => {
                out.push('(');
                for (i, x) in v.iter().enumerate() {
                    if i > 0 {
                        out.push(' ');
                    }
                    x.write_ref(out);
                }
                out.push(')');
            }
            Datum::Dotted(v, t) => {
                out.push('(');
                for x in v.iter() {
                    x.write_ref(out);
                    out.push(' ');
                }
                out.push_str(". ");
                t.write_ref(out);
                out.push(')');
            }
            Datum::Vector(v) => {
                out.push_str("#(");
                for (i, x) in v.iter().enumerate() {
                    if i > 0 {
                        out.push(' ');
                    }
                    x.write_ref(out);
                }
                out.push(')');
            }
        }
    }

    pub fn render(&self) -> String {
        let mut s = String::new();
        self.write_ref(&mut s);
        s
    }
}

pub fn float_class(f: f64) -> String {
    let a = f.abs();
    let base = if f == 0.0 {
        if f.is_sign_negative() {
            return "neg-zero".into();
        }
        return "zero".into();
    } else if a < f64::MIN_POSITIVE {
        "subnormal"
    } else if a.fract() == 0.0 {
        if a > 1e10 {
            "integral>1e10"
        } else if a == 1e10 {
            "integral=1e10"
        } else {
            "integral<1e10"
        }
    } else if a > 1e10 {
        "nonintegral>1e10"
    } else if a < 1e-5 {
        "tiny<1e-5"
    } else if a < 1.0 {
        "fraction"
    } else {
        "nonintegral"
    };
    if f < 0.0 {
        format!("{}:neg", base)
    } else {
        base.to_string()
    }
}

pub fn str_class(s: &str) -> &'static str {
    if s.is_empty() {
        return "empty";
    }
    let mut best = "plain";
    let mut rank = 0;
    for ch in s.chars() {
        let (r, k) = match ch {
            '"' | '\\' => (6, "quote-or-backslash"),
            '\t' | '\n' | '\r' | '\u{7}' | '\u{8}' | '\u{1b}' | '\u{b}' | '\u{c}' => (5, "named-escape"),
            c if c.is_control() => (7, "hex-escape-control"),
            c if c.is_whitespace() && c != ' ' => (4, "unicode-space"),
            c if (c as u32) >= 0x10000 => (3, "astral"),
            c if (c as u32) >= 0x80 => (2, "non-ascii"),
            ';' | '(' | ')' | '#' | '\'' => (1, "delimiter"),
            _ => (0, "plain"),
        };
        if r > rank {
            rank = r;
            best = k;
        }
    }
    best
}

pub fn sym_class(s: &str) -> &'static str {
    let first = s.chars().next().unwrap_or('a');
    if s.contains(';') {
        "contains-semicolon"
    } else if s.contains('\\') {
        "contains-backslash"
    } else if first.is_ascii_digit() || first == '+' || first == '-' || first == '.' {
        "peculiar"
    } else if !s.is_ascii() {
        "non-ascii"
    } else if matches!(s, "quote" | "quasiquote" | "unquote") {
        "quote-keyword"
    } else {
        "plain"
    }
}

// ---------------------------------------------------------------------------
// leaf generators

const FLOAT_BOUNDARY: &[f64] = &[
    0.0,
    5e-324,
    1e-323,
    2.225073858507201e-308,  // largest subnormal
    2.2250738585072014e-308, // smallest normal
    f64::MAX,
    f64::EPSILON,
    1e10,
    10000000000.5,
    9999999999.5,
    9999999999.0,
    10000000001.0,
    1.2345678901234567e10,
    1e11,
    1e9,
    99999999999.0,
    1e15,
    1e16,
    1e17,
    1e20,
    1e21,
    1e22,
    1e23,
    9007199254740992.0,
    9007199254740994.0,
    9.223372036854775807e18,
    1.8446744073709552e19,
    0.1,
    0.2,
    0.30000000000000004,
    0.3333333333333333,
    0.6666666666666666,
    1e-5,
    1e-6,
    1e-7,
    1e-10,
    1e-300,
    2e-300,
    1e300,
    1.7976931348623157e308,
    123456789.12345679,
    1.5,
    0.5,
    1.0,
    100.0,
    4.35,
    5e-5,
    2.5e-8,
    3.141592653589793,
    2147483648.0,
    4294967296.5,
];

pub fn gen_float(c: &mut Choices) -> f64 {
    let f = match c.weighted(&[6, 8, 3, 4, 3]) {
        0 => {
            let b = *c.pick(FLOAT_BOUNDARY);
            match c.below(4) {
                0 => f64::from_bits(b.to_bits().wrapping_add(1)),
                1 if b != 0.0 => f64::from_bits(b.to_bits() - 1),
                _ => b,
            }
        }
        1 => f64::from_bits(c.u64()),
        2 => {
            let sh = c.below(64) as u32;
            ((c.u64() as i64) >> sh) as f64
        }
        3 => {
            // short decimal mantissa x power of ten (correctly rounded by the standard library)
            let digits = 1 + c.below(17) as u32;
            let m = c.u64() % 10u64.pow(digits.min(18));
            let e = c.range(-30, 30);
            format!("{}e{}", m, e).parse::<f64>().unwrap_or(1.0)
        }
        _ => 1e10 + (c.range(-4000, 4000) as f64) / 8.0,
    };
    let f = if f.is_finite() { f } else { f64::from_bits(f.to_bits() & !(1u64 << 62)) };
    let f = if f.is_finite() { f } else { 1.5 };
    if c.chance(80) {
        -f
    } else {
        f
    }
}

fn gen_bigint_bits(c: &mut Choices, bits: usize) -> BigInt {
    let nbytes = (bits + 7) / 8;
    let mut v: Vec<u8> = (0..nbytes).map(|_| c.byte()).collect();
    if let Some(first) = v.first_mut() {
        *first |= 0x80; // keep the magnitude
    }
    let sign = if c.flip() { Sign::Minus } else { Sign::Plus };
    BigInt::from_bytes_be(sign, &v)
}

/// Exact integers across the fixnum/bignum boundary.
pub fn gen_integer(c: &mut Choices) -> Datum {
    match c.weighted(&[4, 5, 4, 5, 4, 1, 2]) {
        0 => Datum::Fix(c.range(-16, 16)),
        1 => {
            let sh = c.below(64) as u32;
            Datum::Fix((c.u64() as i64) >> sh)
        }
        2 => {
            let k = c.below(4) as i64;
            if c.flip() {
                Datum::Fix(i64::MAX - k)
            } else {
                Datum::Fix(i64::MIN + k)
            }
        }
        3 => {
            let k = BigInt::from(c.below(4) as i64);
            let two63 = BigInt::from(1u8) << 63usize;
            if c.flip() {
                Datum::Big(two63 + k)
            } else {
                Datum::Big(-two63 - BigInt::from(1) - k)
            }
        }
        4 => {
            if c.flip() {
                let bits = 65 + c.below(200);
                Datum::Big(gen_bigint_bits(c, bits))
            } else {
                let k = 19 + c.below(30) as u32;
                let p = num::pow(BigInt::from(10), k as usize);
                Datum::Big(if c.flip() { -p } else { p })
            }
        }
        5 => Datum::Big(BigInt::from(c.range(-1000, 1000))),
        _ => {
            let b = *c.pick(&[
                i32::MAX as i64,
                i32::MIN as i64,
                i32::MAX as i64 + 1,
                i32::MIN as i64 - 1,
                u32::MAX as i64,
                u32::MAX as i64 + 1,
                1 << 53,
                (1 << 53) + 1,
            ]);
            Datum::Fix(b)
        }
    }
}

fn gcd(mut a: i64, mut b: i64) -> i64 {
    a = a.abs();
    b = b.abs();
    while b != 0 {
        let t = a % b;
        a = b;
        b = t;
    }
    a
}

/// Reduced rationals within i32 (mostly non-integral).
pub fn gen_rational(c: &mut Choices) -> Datum {
    let n: i64 = match c.weighted(&[4, 4, 2]) {
        0 => c.range(-40, 40),
        1 => (c.u32() as i32) as i64,
        _ => *c.pick(&[i32::MIN as i64, i32::MAX as i64, i32::MIN as i64 + 1, -1, 1]),
    };
    let d: i64 = match c.weighted(&[5, 3, 2, 1]) {
        0 => c.range(2, 60),
        1 => ((c.u32() >> 1) as i64).max(2),
        2 => *c.pick(&[i32::MAX as i64, i32::MAX as i64 - 1, 1 << 30, 3, 7, 10, 1000000007]),
        _ => 1,
    };
    let n = if n == 0 && d != 1 { 1 } else { n };
    let g = gcd(n, d).max(1);
    Datum::Rat((n / g) as i32, (d / g) as i32)
}

pub fn gen_string(c: &mut Choices) -> String {
    let n = match c.weighted(&[2, 6, 3]) {
        0 => 0,
        1 => 1 + c.below(4),
        _ => 4 + c.below(8),
    };
    let mut s = String::new();
    for _ in 0..n {
        if c.chance(24) {
            s.push_str(*c.pick(&["\\x41;", "\\", "\\\\", "\"", "\\\"", "#\\(", ";", "\\n", "x41;", "\\x", "\r\n"]));
        } else {
            s.push(gen_char(c));
        }
    }
    s
}

const PECULIAR: &[&str] = &[
    "+", "-", "...", "1+", "-a", ".a", "a.b", "+.", "--", "..", "+a", "-1a", "1a", "1/0", "1.2.3", "1..2", "-.", "+.a",
    "1e", "1e+", "0x1", "1/2/3", ".1.2", "+5+", "-1-", "1f", "-f", ".g", "->", "->x", "1/", "/1", "1//2", "+-", "-+1",
    "0/0", "1e5x", "1.5.", "12ab.", "-..", ".+", ".e1", "+e", "1-", "1+2", "-inf", "+nan", "1/-2", "-0/0",
];
const KEYWORDS: &[&str] = &[
    "quote", "quasiquote", "unquote", "lambda", "define", "if", "else", "set!", "let", "car", "vector", "list->vector",
    "call/cc", "string->symbol", "<=?", "a", "x", "t", "f", "nil",
];
const ID_INITIAL: &[char] = &['!', '$', '%', '&', '*', '/', ':', '<', '=', '>', '?', '^', '_', '~'];
const ID_SPECIAL: &[char] = &['+', '-', '.', '@'];

fn gen_id_initial(c: &mut Choices, ascii_only: bool) -> char {
    match c.weighted(&[10, 2, 3, if ascii_only { 0 } else { 4 }]) {
        0 => (b'a' + c.below(26) as u8) as char,
        1 => (b'A' + c.below(26) as u8) as char,
        2 => *c.pick(ID_INITIAL),
        _ => *c.pick(&['λ', 'é', '日', '本', 'Ж', '\u{1f436}', '\u{1d4b3}', '\u{2028}', '\u{3000}', '\u{301}', 'ß', 'µ', '€']),
    }
}

/// A candidate symbol spelled by the lexer's identifier grammar. Whether the
/// reader really produces it is decided by the caller's filter.
pub fn gen_symbol_candidate(c: &mut Choices) -> String {
    match c.weighted(&[8, 5, 4, 3, 2, 3]) {
        0 => {
            let n = c.below(7);
            let mut s = String::new();
            s.push(gen_id_initial(c, true));
            for _ in 0..n {
                match c.weighted(&[8, 3, 2]) {
                    0 => s.push(gen_id_initial(c, true)),
                    1 => s.push((b'0' + c.below(10) as u8) as char),
                    _ => s.push(*c.pick(ID_SPECIAL)),
                }
            }
            s
        }
        1 => c.pick(PECULIAR).to_string(),
        2 => {
            let n = 1 + c.below(4);
            let mut s = String::new();
            for _ in 0..n {
                s.push(gen_id_initial(c, false));
            }
            s
        }
        3 => c
            .pick(&["a;b", "\\x41;", "\\x31;2foo", "a\\b", "\\", "a;", "\\x20;foo", "x;;", "\\x;", "a;(", "λ;λ"])
            .to_string(),
        4 => {
            // number-like soup: mostly numbers (rejected by the filter), sometimes not
            let n = 1 + c.below(5);
            let mut s = String::new();
            s.push(*c.pick(&['1', '9', '0', '+', '-', '.']));
            for _ in 0..n {
                s.push(*c.pick(&['0', '1', '5', '.', '/', 'e', 'a', 'f', '+', '-', 'x']));
            }
            s
        }
        _ => c.pick(KEYWORDS).to_string(),
    }
}

// ---------------------------------------------------------------------------
// the recursive datum generator of C10

pub struct DatumGen<'f> {
    /// the definition of "symbol the reader can produce"
    pub accept_symbol: &'f dyn Fn(&str) -> bool,
    pub sym_candidates: u64,
    pub sym_rejected: u64,
    pub max_depth: usize,
    budget: usize,
}

impl<'f> DatumGen<'f> {
    pub fn new(accept_symbol: &'f dyn Fn(&str) -> bool) -> DatumGen<'f> {
        DatumGen { accept_symbol, sym_candidates: 0, sym_rejected: 0, max_depth: 6, budget: 40 }
    }

    pub fn symbol(&mut self, c: &mut Choices) -> Datum {
        let s = gen_symbol_candidate(c);
        self.sym_candidates += 1;
        if (self.accept_symbol)(&s) {
            Datum::Sym(s)
        } else {
            self.sym_rejected += 1;
            Datum::sym("sym")
        }
    }

    pub fn leaf(&mut self, c: &mut Choices) -> Datum {
        match c.weighted(&[2, 6, 3, 9, 9, 7, 9, 2]) {
            0 => Datum::Bool(c.flip()),
            1 => gen_integer(c),
            2 => gen_rational(c),
            3 => Datum::Flo(gen_float(c)),
            4 => Datum::Char(gen_char(c)),
            5 => Datum::Str(gen_string(c)),
            6 => self.symbol(c),
            _ => Datum::List(vec![]),
        }
    }

    fn items(&mut self, c: &mut Choices, depth: usize, min: usize, max: usize) -> Vec<Datum> {
        let n = min + c.below(max - min + 1);
        (0..n).map(|_| self.datum(c, depth + 1)).collect()
    }

    /// A tail for an improper list: never a list.
    fn tail(&mut self, c: &mut Choices, depth: usize) -> Datum {
        if depth + 1 < self.max_depth && c.chance(40) {
            Datum::Vector(self.items(c, depth + 1, 0, 2))
        } else {
            match self.leaf(c) {
                Datum::List(_) => Datum::Fix(0),
                d => d,
            }
        }
    }

    pub fn datum(&mut self, c: &mut Choices, depth: usize) -> Datum {
        if depth >= self.max_depth || self.budget == 0 {
            return self.leaf(c);
        }
        self.budget -= 1;
        match c.weighted(&[16, 7, 3, 5, 4, 1, 1, 1, 1, 2]) {
            0 => self.leaf(c),
            1 => Datum::List(self.items(c, depth, 0, 4)),
            2 => {
                let v = self.items(c, depth, 1, 3);
                let t = self.tail(c, depth);
                Datum::Dotted(v, Box::new(t))
            }
            3 => Datum::Vector(self.items(c, depth, 0, 4)),
            4 => {
                let head = *c.pick(&["quote", "quote", "quote", "quasiquote", "unquote"]);
                Datum::List(vec![Datum::sym(head), self.datum(c, depth + 1)])
            }
            5 => Datum::List(vec![Datum::sym("quote")]),
            6 => {
                let mut v = vec![Datum::sym("quote")];
                v.extend(self.items(c, depth, 2, 3));
                Datum::List(v)
            }
            7 => {
                let t = self.tail(c, depth);
                Datum::Dotted(vec![Datum::sym("quote")], Box::new(t))
            }
            8 => {
                // a character whose spelling could run into what follows it
                let ch = *c.pick(&['x', 'x', 'a', 'f', 's', 'n', 't', '1', '\u{1}', '\u{9b}', 'λ', '#']);
                let next = match c.below(4) {
                    0 => Datum::Fix(c.range(0, 0xffff)),
                    1 => Datum::sym(*c.pick(&["ab", "pace", "ewline", "ab1", "ff", "x41"])),
                    2 => Datum::Char(*c.pick(&['4', 'x', 'a'])),
                    _ => Datum::Str("41".into()),
                };
                if c.flip() {
                    Datum::List(vec![Datum::Char(ch), next])
                } else {
                    Datum::Vector(vec![Datum::Char(ch), next])
                }
            }
            _ => {
                // a chain, so that deep nesting is well represented
                let levels = 2 + c.below(self.max_depth.saturating_sub(depth + 1).max(1));
                let mut d = self.leaf(c);
                for _ in 0..levels.min(self.max_depth - depth) {
                    d = match c.below(4) {
                        0 => Datum::List(vec![d]),
                        1 => Datum::Vector(vec![d]),
                        2 => Datum::List(vec![Datum::sym("quote"), d]),
                        _ => Datum::List(vec![self.leaf(c), d]),
                    };
                }
                d
            }
        }
    }

    pub fn top(&mut self, c: &mut Choices) -> Datum {
        self.budget = 40;
        // a container at top level more often than not
        if !c.chance(40) {
            let d = self.datum(c, 0);
            if d.depth() == 0 {
                let e = self.datum(c, 1);
                match c.below(3) {
                    0 => Datum::List(vec![d, e]),
                    1 => Datum::Vector(vec![d, e]),
                    _ => Datum::List(vec![e, d]),
                }
            } else {
                d
            }
        } else {
            self.leaf(c)
        }
    }
}

// ---------------------------------------------------------------------------
// reference scanners and the token-class level parser (C11)

/// Token classes as far as datum structure is concerned.
#[derive(Clone, Copy, Debug, PartialEq, Eq)]
pub enum TC {
    Open,
    Close,
    HashOpen,
    /// ' ` ,
    Quote,
    Dot,
    NumPrefix,
    Atom,
}

/// The harness' own scanner for what may separate tokens:
/// `(whitespace | ';' to end of line)*`. Returns the byte offset (within `gap`)
/// of the first character that is neither, or None when the gap is clean.
pub fn gap_offender(gap: &str) -> Option<(usize, char)> {
    let mut in_comment = false;
    for (i, ch) in gap.char_indices() {
        if in_comment {
            if ch == '\n' {
                in_comment = false;
            }
            continue;
        }
        if ch == ';' {
            in_comment = true;
        } else if !ch.is_whitespace() {
            return Some((i, ch));
        }
    }
    None
}

#[derive(Clone, Copy, Debug, PartialEq, Eq)]
pub enum Extent {
    /// one datum occupies tokens [start, end)
    Complete(usize),
    /// the tokens end inside the datum
    Incomplete,
    /// not a datum at the token-class level (stray `)`, misplaced dot)
    Malformed,
}

/// Reference parser over token classes: the extent of the datum starting at
/// token `i`. Bracket shapes and the spelling of atoms are irrelevant to the
/// extent; a number prefix takes the one token that follows the prefixes.
pub fn ref_extent(tc: &[TC], i: usize) -> Extent {
    if i >= tc.len() {
        return Extent::Incomplete;
    }
    match tc[i] {
        TC::Atom => Extent::Complete(i + 1),
        TC::NumPrefix => {
            let mut j = i;
            while j < tc.len() && tc[j] == TC::NumPrefix {
                j += 1;
            }
            if j >= tc.len() {
                Extent::Incomplete
            } else {
                Extent::Complete(j + 1)
            }
        }
        TC::Quote => ref_extent(tc, i + 1),
        TC::Close | TC::Dot => Extent::Malformed,
        TC::Open => {
            let mut j = i + 1;
            let mut count = 0;
            loop {
                if j >= tc.len() {
                    return Extent::Incomplete;
                }
                match tc[j] {
                    TC::Close => return Extent::Complete(j + 1),
                    TC::Dot => {
                        if count == 0 {
                            return Extent::Malformed;
                        }
                        if j + 1 >= tc.len() {
                            return Extent::Incomplete;
                        }
                        if matches!(tc[j + 1], TC::Dot | TC::Close) {
                            return Extent::Malformed;
                        }
                        return match ref_extent(tc, j + 1) {
                            Extent::Complete(e) => {
                                if e >= tc.len() {
                                    Extent::Incomplete
                                } else if tc[e] == TC::Close {
                                    Extent::Complete(e + 1)
                                } else {
                                    Extent::Malformed
                                }
                            }
                            other => other,
                        };
                    }
                    _ => match ref_extent(tc, j) {
                        Extent::Complete(e) => {
                            j = e;
                            count += 1;
                        }
                        other => return other,
                    },
                }
            }
        }
        TC::HashOpen => {
            let mut j = i + 1;
            loop {
                if j >= tc.len() {
                    return Extent::Incomplete;
                }
                match tc[j] {
                    TC::Close => return Extent::Complete(j + 1),
                    TC::Dot => return Extent::Malformed,
                    _ => match ref_extent(tc, j) {
                        Extent::Complete(e) => j = e,
                        other => return other,
                    },
                }
            }
        }
    }
}

/// Where does a token sequence that ends inside a datum stop? (signature of
/// the prefix clause; computed from the classes only)
pub fn open_state(tc: &[TC]) -> String {
    // innermost open construct (and whether its dot has been seen), plus the last token
    let mut stack: Vec<(&'static str, bool)> = vec![];
    for t in tc {
        match t {
            TC::Open => stack.push(("list", false)),
            TC::HashOpen => stack.push(("vector", false)),
            TC::Close => {
                stack.pop();
            }
            TC::Dot => {
                if let Some(top) = stack.last_mut() {
                    top.1 = true;
                }
            }
            _ => {}
        }
    }
    let last = match tc.last() {
        Some(TC::Quote) => "after-quote",
        Some(TC::NumPrefix) => "after-numprefix",
        Some(TC::Dot) => "after-dot",
        Some(TC::Open) => "after-open",
        Some(TC::HashOpen) => "after-hashopen",
        Some(TC::Close) => "after-close",
        Some(TC::Atom) => "after-atom",
        None => "empty",
    };
    match stack.last() {
        Some((k, dotted)) => format!("in-{}{}|{}", k, if *dotted { "-dotted-tail" } else { "" }, last),
        None => format!("in-toplevel|{}", last),
    }
}

fn is_ref_delim(ch: char) -> bool {
    ch.is_whitespace() || matches!(ch, '(' | ')' | '[' | ']' | '{' | '}' | '"' | ';' | '\'' | '`' | ',')
}

/// The harness' own approximate lexer. It is used to cut texts into lexemes
/// for token-level mutation and for localising a failure inside a text — never
/// as an oracle. Returns byte spans.
pub fn ref_lexemes(text: &str) -> Vec<(usize, usize)> {
    let cs: Vec<(usize, char)> = text.char_indices().collect();
    let at = |k: usize| -> usize { cs.get(k).map(|x| x.0).unwrap_or(text.len()) };
    let mut out = vec![];
    let mut k = 0;
    while k < cs.len() {
        let (start, ch) = cs[k];
        if ch.is_whitespace() {
            k += 1;
        } else if ch == ';' {
            while k < cs.len() && cs[k].1 != '\n' {
                k += 1;
            }
        } else if matches!(ch, '(' | ')' | '[' | ']' | '{' | '}' | '\'' | '`' | ',') {
            out.push((start, at(k + 1)));
            k += 1;
        } else if ch == '"' {
            k += 1;
            let mut esc = false;
            while k < cs.len() {
                let c2 = cs[k].1;
                k += 1;
                if esc {
                    esc = false;
                } else if c2 == '\\' {
                    esc = true;
                } else if c2 == '"' {
                    break;
                }
            }
            out.push((start, at(k)));
        } else if ch == '#' && k + 1 < cs.len() && cs[k + 1].1 == '(' {
            out.push((start, at(k + 2)));
            k += 2;
        } else if ch == '#' && k + 1 < cs.len() && cs[k + 1].1 == '\\' {
            k += 2;
            if k < cs.len() {
                let first = cs[k].1;
                k += 1;
                if first.is_ascii_alphabetic() {
                    while k < cs.len() && cs[k].1.is_ascii_alphanumeric() {
                        k += 1;
                    }
                }
            }
            out.push((start, at(k)));
        } else if ch == '#' && k + 1 < cs.len() && matches!(cs[k + 1].1, 'e' | 'i' | 'b' | 'o' | 'd' | 'x' | 't' | 'f') {
            out.push((start, at(k + 2)));
            k += 2;
        } else {
            k += 1;
            while k < cs.len() && !is_ref_delim(cs[k].1) && cs[k].1 != '#' {
                k += 1;
            }
            out.push((start, at(k)));
        }
    }
    out
}

/// Fine class of one lexeme, computed from its spelling (signatures).
pub fn lexeme_class(s: &str) -> String {
    match s {
        "(" | "[" | "{" => return "open".into(),
        ")" | "]" | "}" => return "close".into(),
        "#(" => return "hashopen".into(),
        "'" => return "quote".into(),
        "`" => return "quasiquote".into(),
        "," => return "unquote".into(),
        "." => return "dot".into(),
        "#t" | "#f" => return "bool".into(),
        "#e" | "#i" | "#b" | "#o" | "#d" | "#x" => return "numprefix".into(),
        _ => {}
    }
    if s.starts_with('"') {
        let closed = s.len() >= 2 && s.ends_with('"');
        return format!("string{}{}", if closed { "" } else { ":unterminated" }, if s.contains('\\') { ":escapes" } else { "" });
    }
    if let Some(rest) = s.strip_prefix("#\\") {
        let n = rest.chars().count();
        return if n == 0 {
            "char:empty".into()
        } else if n == 1 {
            format!("char:single:{}", char_class(rest.chars().next().unwrap()))
        } else if rest.starts_with('x') && rest[1..].chars().all(|c| c.is_ascii_hexdigit()) {
            format!("char:hex{}", if rest.len() > 7 { ":long" } else { "" })
        } else {
            "char:name".into()
        };
    }
    if s.starts_with('#') {
        return "hash-other".into();
    }
    let first = s.chars().next().unwrap_or(' ');
    let numberish = (first.is_ascii_digit() || matches!(first, '+' | '-' | '.'))
        && s.chars().all(|c| c.is_ascii_hexdigit() || matches!(c, '+' | '-' | '.' | '/'));
    if numberish || (s.contains('/') && s.chars().all(|c| c.is_ascii_hexdigit() || matches!(c, '+' | '-' | '/'))) {
        if let Some((a, b)) = s.split_once('/') {
            let num = |t: &str| t.parse::<i128>().ok().or_else(|| i128::from_str_radix(t, 16).ok());
            let pa = num(a);
            let pb = num(b);
            let mut f = String::from("ratio");
            if b.starts_with('-') {
                f.push_str(":neg-denom");
            }
            if pb == Some(0) {
                f.push_str(":zero-denom");
            }
            let min = i32::MIN as i128;
            let hex_min = |t: &str| i128::from_str_radix(t, 16).ok() == Some(min);
            if pa == Some(min) || pb == Some(min) || hex_min(a) || hex_min(b) {
                f.push_str(":i32-min");
            } else if pa.map(|v| v > i32::MAX as i128 || v < min).unwrap_or(false)
                || pb.map(|v| v > i32::MAX as i128 || v < min).unwrap_or(false)
            {
                f.push_str(":beyond-i32");
            }
            if pa.is_none() || pb.is_none() {
                f.push_str(":odd");
            }
            return f;
        }
        let digits = s.trim_start_matches(['+', '-']);
        if !digits.is_empty() && digits.chars().all(|c| c.is_ascii_digit()) {
            return if s.parse::<i64>().is_ok() { "int".into() } else { "int:beyond-i64".into() };
        }
        if s.parse::<f64>().is_ok() {
            return "decimal".into();
        }
        return "number-like".into();
    }
    let mut f = String::from("ident");
    if s.contains(';') {
        f.push_str(":semicolon");
    }
    if !s.is_ascii() {
        f.push_str(":non-ascii");
    }
    f
}

/// Signature fragment naming the smallest window of lexemes (1, 2 or 3,
/// original separators kept) of `text` on which `fails` still holds.
pub fn culprit_window(text: &str, fails: &dyn Fn(&str) -> bool) -> String {
    culprit_window_spans(text, &ref_lexemes(text), fails)
}

/// Same, over given token spans (e.g. the scanner's own); when the original
/// separators hide the failure the window's tokens are joined by one space.
pub fn culprit_window_spans(text: &str, lx: &[(usize, usize)], fails: &dyn Fn(&str) -> bool) -> String {
    for w in 1..=5usize {
        if lx.len() < w {
            break;
        }
        for i in 0..=lx.len() - w {
            let piece = (i..i + w).map(|j| &text[lx[j].0..lx[j].1]).collect::<Vec<_>>().join(" ");
            if fails(&piece) {
                // a run of number prefixes is one feature
                let mut cls: Vec<String> = (i..i + w).map(|j| lexeme_class(&text[lx[j].0..lx[j].1])).collect();
                cls.dedup_by(|a, b| a == "numprefix" && b == "numprefix");
                return cls.join(" ");
            }
        }
    }
    for w in 1..=3usize {
        if lx.len() < w {
            break;
        }
        for i in 0..=lx.len() - w {
            let piece = &text[lx[i].0..lx[i + w - 1].1];
            if fails(piece) {
                return (i..i + w).map(|j| lexeme_class(&text[lx[j].0..lx[j].1])).collect::<Vec<_>>().join(" ");
            }
        }
    }
    // greedy one-at-a-time removal: a 1-minimal set of tokens that still fails
    if lx.len() <= 64 {
        let mut keep: Vec<&str> = lx.iter().map(|(a, b)| &text[*a..*b]).collect();
        if fails(&keep.join(" ")) {
            let mut i = 0;
            while i < keep.len() {
                let mut trial = keep.clone();
                trial.remove(i);
                if !trial.is_empty() && fails(&trial.join(" ")) {
                    keep = trial;
                } else {
                    i += 1;
                }
            }
            // a contiguous part of what is left may do (the rest only led the parser there)
            let mut best: &[&str] = &keep;
            'outer: for w in 1..keep.len() {
                for i in 0..=keep.len() - w {
                    if fails(&keep[i..i + w].join(" ")) {
                        best = &keep[i..i + w];
                        break 'outer;
                    }
                }
            }
            let mut cls: Vec<String> = best.iter().map(|t| lexeme_class(t)).collect();
            cls.dedup_by(|a, b| a == "numprefix" && b == "numprefix");
            return cls.join(" ");
        }
    }
    // the approximate lexer may cut differently from the SUT (e.g. `a;b`): whitespace-separated pieces
    let pieces: Vec<&str> = text.split_whitespace().collect();
    for w in 1..=2usize {
        if pieces.len() < w {
            break;
        }
        for i in 0..=pieces.len() - w {
            let piece = pieces[i..i + w].join(" ");
            if fails(&piece) {
                return ref_lexemes(&piece).iter().map(|(a, b)| lexeme_class(&piece[*a..*b])).collect::<Vec<_>>().join(" ");
            }
        }
    }
    "context".into()
}

// ---------------------------------------------------------------------------
// text generators of C11

/// Random Unicode string, heavy on the characters the lexer dispatches on.
pub fn gen_unicode_text(c: &mut Choices) -> String {
    let n = if c.chance(60) { c.below(40) } else { c.below(16) };
    let mut s = String::new();
    for _ in 0..n {
        match c.weighted(&[30, 14, 22, 4, 10]) {
            0 => {
                let h = *c.pick(HEAVY);
                s.push(h);
                // keep the scanner going more often than not
                if h == '#' && c.chance(170) {
                    s.push(*c.pick(&['(', '\\', 't', 'f', 'x', 'e', 'b']));
                } else if h == '"' && c.chance(150) {
                    for _ in 0..c.below(4) {
                        s.push(*c.pick(&['a', '\\', '"', ';', '(', 'é', ' ', '\n', 'x', '4', '1']));
                    }
                    s.push('"');
                }
            }
            1 => s.push(*c.pick(WS_KINDS)),
            2 => s.push(*c.pick(&[
                'a', 'x', 't', 'f', 'e', 'i', 'b', 'o', 'd', 'n', 's', 'p', 'A', 'F', '0', '1', '9', '+', '-', '/', 'λ', '!', 'z', '*',
            ])),
            3 => s.push(gen_char(c)),
            _ => s.push(gen_scalar(c)),
        }
    }
    s
}

/// Lexemes of every token class (and a few broken ones).
pub const SOUP_LEXEMES: &[&str] = &[
    // Char
    "#\\a", "#\\space", "#\\newline", "#\\x41", "#\\λ", "#\\(", "#\\)", "#\\;", "#\\\"", "#\\𝒳", "#\\ ", "#\\x", "#\\xg",
    "#\\nul", "#\\tab", "#\\x110000", "#\\xd800", "#\\xffffffffff", "#\\1", "#\\'", "#\\#", "#\\\\", "#\\é", "#\\\n",
    // Dot, booleans
    ".", "#t", "#f", "#true",
    // brackets
    "(", ")", "[", "]", "{", "}", "#(",
    // numbers
    "0", "12", "-5", "+5", "+.5", ".5", "1/2", "1e10", "1.5", "-0.0", "ff", "1.", "1e400", "1e-400", "9223372036854775807",
    "9223372036854775808", "-9223372036854775809", "123456789012345678901234567890", "1/0", "0/0", "-0/1", "0/5", "4/2",
    "2147483647/2", "-2147483648/3", "-2147483648/-1", "1/-2147483648", "-2147483648/-2147483648", "1/-2", "-1/-1",
    "2147483648/3", "1/4294967296", "1/2/3", "1.2.3", "10..5", "+", "-", "1+", "-a", "+inf", "-nan", "inf", "nan", "1e",
    "1p5", ".e1", "-.", "+.", "1/", "/2", "-/1", "+/-", "99999999999999999999/99999999999999999998",
    "99999999999999999999/0", "1.8", "1.8p3", "1e99999999999999999999", "1p99999999999999999999", "1e2147483648", "0.1e1",
    "1.5/2", "1/2.5", "1/1e1", "-9223372036854775808", "-9223372036854775808/-1", "1/-9223372036854775808", "1e-7", "1e+7",
    "-80000000/-1", "7fffffff/2", "-0", "+0/1", "00012", "1_000",
    // number prefixes
    "#x", "#e", "#i", "#b", "#o", "#d", "#x#e", "#i#b",
    // quotes
    "'", "`", ",", ",@",
    // strings
    "\"\"", "\"a\"", "\"a\\\"b\"", "\"\\\\\"", "\"(;\"", "\"é\"", "\"\\x41;\"", "\"a\nb\"", "\"\\x41\"", "\"\\xzz;\"", "\"\\q\"",
    "\"𝒳\"", "\"\\xffffffff;\"", "\"\\x110000;\"", "\"\\\n\"",
    // symbols
    "a", "foo", "λ", "...", "a.b", "a;b", "\\x41;", "日本", "set!", "->x", "a\u{2028}b", "\u{3000}", "..", "x;", "<=?", "|a b|",
    // broken or foreign
    "#", "\"", "#\\", "\\", "|", "#|", "|#", "#;", "#!", "@", "#<procedure>", "#u8(", "\u{85}", "\u{a0}",
];

pub const SOUP_SEPARATORS: &[&str] = &[
    "", "", "", " ", " ", "\n", "\t", ";comment\n", " ;c", "; ( \" #\\\n", "\u{a0}", "\u{2028}", "\r\n", "  ", "\u{b}",
    "\u{85}", ";\n", ";",
];

pub fn gen_soup(c: &mut Choices) -> String {
    let n = c.below(20);
    let mut s = String::new();
    for _ in 0..n {
        if c.chance(12) {
            s.push(gen_scalar(c));
        } else {
            s.push_str(*c.pick(SOUP_LEXEMES));
        }
        s.push_str(*c.pick(SOUP_SEPARATORS));
    }
    s
}

fn matching_close(text: &str, lx: &[(usize, usize)], i: usize) -> Option<usize> {
    let mut depth = 0usize;
    for (j, sp) in lx.iter().enumerate().skip(i) {
        match &text[sp.0..sp.1] {
            "(" | "[" | "{" | "#(" => depth += 1,
            ")" | "]" | "}" => {
                if depth <= 1 {
                    return if depth == 1 { Some(j) } else { None };
                }
                depth -= 1;
            }
            _ => {}
        }
    }
    None
}

fn char_floor(s: &str, mut i: usize) -> usize {
    i = i.min(s.len());
    while !s.is_char_boundary(i) {
        i -= 1;
    }
    i
}

/// A seed text (corpus program or a datum in the harness' spelling) with 1..4
/// mutations at character, token or subtree level. Returns the kind of the
/// last mutation applied (for the histogram).
pub fn gen_mutation(c: &mut Choices, seed_datum: Option<String>) -> (String, &'static str) {
    let mut text = match seed_datum {
        Some(t) if c.chance(96) => t,
        _ => c.pick(CORPUS).1.to_string(),
    };
    // work on a window so that cases stay small
    if text.len() > 240 {
        let start = char_floor(&text, c.below(text.len() - 200));
        let end = char_floor(&text, start + 200 + c.below(40));
        text = text[start..end].to_string();
    }
    let n = 1 + c.below(4);
    let mut kind = "none";
    for _ in 0..n {
        let lx = ref_lexemes(&text);
        let level = c.weighted(&[5, 5, 4]);
        if level == 0 || lx.is_empty() {
            // character level
            let pos = char_floor(&text, c.below(text.len() + 1));
            let next = text[pos..].chars().next().map(|ch| pos + ch.len_utf8()).unwrap_or(pos);
            let ins = match c.weighted(&[5, 2, 2]) {
                0 => *c.pick(HEAVY),
                1 => *c.pick(WS_KINDS),
                _ => gen_scalar(c),
            };
            match c.below(5) {
                0 => {
                    text.replace_range(pos..next, "");
                    kind = "char:delete";
                }
                1 => {
                    text.insert(pos, ins);
                    kind = "char:insert";
                }
                2 => {
                    text.replace_range(pos..next, &ins.to_string());
                    kind = "char:replace";
                }
                3 => {
                    text.truncate(pos);
                    kind = "char:truncate";
                }
                _ => {
                    let end = char_floor(&text, pos + c.below(12));
                    let piece = text[pos..end].to_string();
                    text.insert_str(pos, &piece);
                    kind = "char:duplicate-span";
                }
            }
        } else if level == 1 {
            // token level
            let i = c.below(lx.len());
            let (a, b) = lx[i];
            match c.below(5) {
                0 => {
                    text.replace_range(a..b, "");
                    kind = "token:delete";
                }
                1 => {
                    let piece = text[a..b].to_string();
                    text.insert_str(b, &format!(" {}", piece));
                    kind = "token:duplicate";
                }
                2 => {
                    let j = c.below(lx.len());
                    let (x, y) = lx[j];
                    if j != i {
                        let ti = text[a..b].to_string();
                        let tj = text[x..y].to_string();
                        if a < x {
                            text.replace_range(x..y, &ti);
                            text.replace_range(a..b, &tj);
                        } else {
                            text.replace_range(a..b, &tj);
                            text.replace_range(x..y, &ti);
                        }
                    }
                    kind = "token:swap";
                }
                3 => {
                    text.replace_range(a..b, *c.pick(SOUP_LEXEMES));
                    kind = "token:replace";
                }
                _ => {
                    let l = c.pick(SOUP_LEXEMES).to_string();
                    let sep = if c.flip() { " " } else { "" };
                    text.insert_str(a, &format!("{}{}", l, sep));
                    kind = "token:insert";
                }
            }
        } else {
            // subtree level: a balanced bracket range (or a single token when none starts here)
            let opens: Vec<usize> =
                (0..lx.len()).filter(|i| matches!(&text[lx[*i].0..lx[*i].1], "(" | "[" | "{" | "#(")).collect();
            let (a, b) = if opens.is_empty() {
                lx[c.below(lx.len())]
            } else {
                let i = opens[c.below(opens.len())];
                match matching_close(&text, &lx, i) {
                    Some(j) => (lx[i].0, lx[j].1),
                    None => lx[i],
                }
            };
            let sub = text[a..b].to_string();
            match c.below(6) {
                0 => {
                    text.replace_range(a..b, "");
                    kind = "subtree:delete";
                }
                1 => {
                    text.insert_str(b, &format!(" {}", sub));
                    kind = "subtree:duplicate";
                }
                2 => {
                    text.replace_range(a..b, *c.pick(&["x", "()", "#()", "'", "1", "\"s\"", "#\\a", "."]));
                    kind = "subtree:replace-by-atom";
                }
                3 => {
                    let (l, r) = *c.pick(&[("(", ")"), ("[", "]"), ("#(", ")"), ("'(", ")"), ("(", " . z)"), ("{", "]"), ("`(,", ")")]);
                    text.replace_range(a..b, &format!("{}{}{}", l, sub, r));
                    kind = "subtree:wrap";
                }
                4 => {
                    // move to another token position
                    text.replace_range(a..b, "");
                    let lx2 = ref_lexemes(&text);
                    let at = if lx2.is_empty() { 0 } else { lx2[c.below(lx2.len())].0 };
                    text.insert_str(at, &format!("{} ", sub));
                    kind = "subtree:move";
                }
                _ => {
                    // unbalance: drop the closing (or opening) bracket only
                    let bracketed = sub.ends_with([')', ']', '}']) && sub.starts_with(['(', '[', '{', '#']);
                    if b - a >= 2 && bracketed {
                        if c.flip() {
                            text.replace_range(b - 1..b, "");
                        } else {
                            let open_len = if sub.starts_with("#(") { 2 } else { 1 };
                            text.replace_range(a..a + open_len, "");
                        }
                    }
                    kind = "subtree:unbalance";
                }
            }
        }
    }
    (text, kind)
}

// ---------------------------------------------------------------------------
// well-formed datum sequences by construction (prefix clause of C11)

#[derive(Clone, Debug)]
pub struct WTok {
    pub start: usize,
    pub end: usize,
    pub tc: TC,
    /// fine class of the lexeme (signatures, histogram)
    pub kind: &'static str,
}

#[derive(Clone, Debug)]
pub struct WellFormed {
    pub text: String,
    pub toks: Vec<WTok>,
    /// token index at which each top-level datum starts, plus toks.len() at the end
    pub datum_bounds: Vec<usize>,
    /// whitespace/comment that may follow a cut
    pub trailer: &'static str,
}

const WF_ATOMS: &[(&str, &str)] = &[
    ("#t", "bool"), ("#f", "bool"),
    ("0", "number"), ("42", "number"), ("-7", "number"), ("+5", "number"), ("3.14", "number"), (".5", "number"),
    ("1/2", "number"), ("1e10", "number"), ("-0.0", "number"), ("123456789012345678901234567890", "number"),
    ("-1/3", "number"), ("6.02e23", "number"),
    ("#\\a", "char"), ("#\\space", "char"), ("#\\newline", "char"), ("#\\x41", "char"), ("#\\(", "char:delimiter"),
    ("#\\)", "char:delimiter"), ("#\\;", "char:delimiter"), ("#\\\"", "char:delimiter"), ("#\\'", "char:delimiter"),
    ("#\\λ", "char:multibyte"), ("#\\𝒳", "char:multibyte"), ("#\\ ", "char:space-literal"), ("#\\x", "char"),
    ("#\\tab", "char"), ("#\\1", "char"), ("#\\.", "char:delimiter"), ("#\\#", "char:delimiter"),
    ("\"\"", "string"), ("\"a\"", "string"), ("\"a b\"", "string"), ("\"a\\\"b\"", "string:escapes"),
    ("\"\\\\\"", "string:escapes"), ("\"(;)\"", "string:delimiters"), ("\"é\"", "string:multibyte"),
    ("\"\\x41;\"", "string:escapes"), ("\"a\\nb\"", "string:escapes"), ("\"a\nb\"", "string:newline"),
    ("\"𝒳\"", "string:multibyte"), ("\";\"", "string:delimiters"), ("\"#\\\\(\"", "string:escapes"), ("\")\"", "string:delimiters"),
    ("a", "symbol"), ("foo", "symbol"), ("set!", "symbol"), ("+", "symbol:peculiar"), ("-", "symbol:peculiar"),
    ("...", "symbol:peculiar"), ("1+", "symbol:peculiar"), ("a.b", "symbol"), ("->x", "symbol:peculiar"),
    ("λ", "symbol:multibyte"), ("日本", "symbol:multibyte"), ("<=?", "symbol"), ("list->vector", "symbol"), ("x1", "symbol"),
];

const WF_PREFIXED: &[(&[&str], &str)] = &[
    (&["#x"], "ff"), (&["#x"], "-1A"), (&["#x"], "10"), (&["#b"], "101"), (&["#o"], "17"), (&["#d"], "10"), (&["#e"], "1.5"),
    (&["#i"], "1/3"), (&["#e", "#x"], "10"), (&["#x", "#i"], "f"), (&["#b", "#e"], "-11"),
];

const WF_SPACES: &[&str] =
    &[" ", " ", " ", "\n", "\t", "  ", " ;c\n", "\n; ( comment \" here #\\\n", "\r\n", " ; [\n ", "\u{a0}", "\u{85}", "\n\n"];
pub const WF_TRAILERS: &[&str] = &["", "", " ", "\n", " ;trailing", " ; trailing ( \"\n", "\n\n", "\t;)\n"];

type RawTok = (String, TC, &'static str);

fn wf_datum(c: &mut Choices, depth: usize, budget: &mut usize, out: &mut Vec<RawTok>) {
    let leaf_only = depth >= 6 || *budget == 0;
    *budget = budget.saturating_sub(1);
    let k = if leaf_only { 0 } else { c.weighted(&[9, 6, 2, 3, 4, 1]) };
    match k {
        0 => {
            if c.chance(30) {
                let (ps, num) = *c.pick(WF_PREFIXED);
                for p in ps.iter() {
                    out.push((p.to_string(), TC::NumPrefix, "numprefix"));
                }
                out.push((num.to_string(), TC::Atom, "prefixed-number"));
            } else {
                let (l, kind) = *c.pick(WF_ATOMS);
                out.push((l.to_string(), TC::Atom, kind));
            }
        }
        1 | 2 => {
            let (o, cl) = *c.pick(&[("(", ")"), ("(", ")"), ("(", ")"), ("[", "]"), ("{", "}")]);
            out.push((o.to_string(), TC::Open, "open"));
            let n = if k == 2 { 1 + c.below(3) } else { c.below(4) };
            for _ in 0..n {
                wf_datum(c, depth + 1, budget, out);
            }
            if k == 2 {
                out.push((".".to_string(), TC::Dot, "dot"));
                wf_datum(c, depth + 1, budget, out);
            }
            out.push((cl.to_string(), TC::Close, "close"));
        }
        3 => {
            out.push(("#(".to_string(), TC::HashOpen, "hashopen"));
            let n = c.below(4);
            for _ in 0..n {
                wf_datum(c, depth + 1, budget, out);
            }
            out.push((")".to_string(), TC::Close, "close"));
        }
        4 => {
            let q = *c.pick(&["'", "'", "`", ","]);
            out.push((q.to_string(), TC::Quote, "quote"));
            wf_datum(c, depth + 1, budget, out);
        }
        _ => {
            // long-hand quote forms, including the degenerate ones
            out.push(("(".to_string(), TC::Open, "open"));
            out.push(("quote".to_string(), TC::Atom, "symbol"));
            match c.below(4) {
                0 => {}
                1 => wf_datum(c, depth + 1, budget, out),
                2 => {
                    wf_datum(c, depth + 1, budget, out);
                    wf_datum(c, depth + 1, budget, out);
                }
                _ => {
                    out.push((".".to_string(), TC::Dot, "dot"));
                    out.push(("a".to_string(), TC::Atom, "symbol"));
                }
            }
            out.push((")".to_string(), TC::Close, "close"));
        }
    }
}

/// May the separator between two adjacent tokens be empty? (conservative: both
/// R7RS and the lexer's grammar must end the first token there)
fn may_abut(prev: &RawTok, next: &RawTok) -> bool {
    let next_hash = next.0.starts_with('#');
    match (prev.1, next.1) {
        (TC::NumPrefix, _) => true,
        (TC::Open | TC::HashOpen | TC::Quote, TC::Dot) => false,
        (TC::Open | TC::HashOpen | TC::Quote, _) => true,
        (TC::Dot, TC::Open) => true,
        (TC::Dot, _) => false,
        (_, TC::Dot) => prev.1 == TC::Close,
        (_, TC::Close) => true,
        (TC::Close, _) => true,
        (TC::Atom, TC::Open) => true,
        (TC::Atom, _) => {
            let _ = next_hash;
            false
        }
    }
}

pub fn gen_wellformed(c: &mut Choices) -> WellFormed {
    let ndata = 1 + c.weighted(&[6, 3, 1]);
    let mut raw: Vec<RawTok> = vec![];
    let mut bounds = vec![];
    for _ in 0..ndata {
        bounds.push(raw.len());
        let mut budget = 14;
        // top-level data are compound more often than not (atoms have no proper prefix)
        if c.chance(200) {
            let before = raw.len();
            wf_datum(c, 0, &mut budget, &mut raw);
            if raw.len() - before == 1 && c.flip() {
                let only = raw.pop().unwrap();
                raw.push(("(".to_string(), TC::Open, "open"));
                raw.push(only);
                wf_datum(c, 1, &mut budget, &mut raw);
                raw.push((")".to_string(), TC::Close, "close"));
            }
        } else {
            wf_datum(c, 6, &mut budget, &mut raw);
        }
    }
    bounds.push(raw.len());
    let mut text = String::new();
    if c.chance(40) {
        text.push_str(*c.pick(&[" ", "\n", ";; header\n", "\t"]));
    }
    let mut toks = vec![];
    for (i, t) in raw.iter().enumerate() {
        if i > 0 {
            let prev = &raw[i - 1];
            // NumPrefix must abut its number; at top level between data always separate
            let top_boundary = bounds.contains(&i);
            let abut = prev.1 == TC::NumPrefix || (!top_boundary && may_abut(prev, t) && c.chance(150));
            if !abut {
                text.push_str(*c.pick(WF_SPACES));
            }
        }
        let start = text.len();
        text.push_str(&t.0);
        toks.push(WTok { start, end: text.len(), tc: t.1, kind: t.2 });
    }
    let trailer = *c.pick(WF_TRAILERS);
    WellFormed { text, toks, datum_bounds: bounds, trailer }
}
