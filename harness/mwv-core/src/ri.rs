//! Reference interpreter (RI): a small CEK machine for the Scheme subset the
//! program generators emit, written from R7RS sections 4.1, 4.2, 6 — it shares
//! no code with the SUT and does not expand the SUT's prelude macros: derived
//! forms are desugared here, hygienically (inserted temporaries use names no
//! program can spell, inserted procedure references are the primitives
//! themselves).
//!
//! * environments: one fresh frame of boxed locations per activation;
//!   `define` at top level mutates the global table; internal defines are
//!   `letrec*`.
//! * operands are evaluated left to right, then the operator (R7RS leaves the
//!   operator's position open; generators never make it observable).
//! * continuations are persistent linked frames, multi-shot; the bottom frame
//!   is "finish this top-level form and return its value to whoever called
//!   the *current* evaluation" (REPL semantics pinned by the SUT's suite).
//! * an "it is an error" situation outside the canonical failures makes the
//!   outcome `Undetermined` (comparison of the session stops there).

use crate::sx::Sx;
use num::bigint::BigInt;
use num::{Integer, Signed, ToPrimitive, Zero};
use std::cell::RefCell;
use std::collections::HashMap;
use std::rc::Rc;

pub type Loc = Rc<RefCell<Val>>;

#[derive(Clone)]
pub enum Val {
    Unspec,
    Undef,
    Nil,
    Bool(bool),
    Int(BigInt),
    Char(char),
    Sym(Rc<str>),
    Str(Rc<RefCell<String>>),
    Pair(Rc<(RefCell<Val>, RefCell<Val>)>),
    Vector(Rc<RefCell<Vec<Val>>>),
    Closure(Rc<Closure>),
    Prim(&'static str),
    Cont(Rc<Kont>),
    Promise(Rc<RefCell<PromiseState>>),
}

pub enum PromiseState {
    Delayed(Rc<Core>, Rc<Env>),
    Done(Val),
}

pub struct Closure {
    def: Rc<LambdaDef>,
    env: Rc<Env>,
}

pub struct LambdaDef {
    params: Vec<Rc<str>>,
    rest: Option<Rc<str>>,
    defines: Vec<Rc<str>>,
    body: Rc<Vec<Rc<Core>>>,
}

pub struct Env {
    vars: RefCell<Vec<(Rc<str>, Loc)>>,
    parent: Option<Rc<Env>>,
}

impl Env {
    fn lookup(&self, name: &str) -> Option<Loc> {
        for (n, l) in self.vars.borrow().iter().rev() {
            if &**n == name {
                return Some(l.clone());
            }
        }
        match &self.parent {
            Some(p) => p.lookup(name),
            None => None,
        }
    }
}

pub enum Core {
    Const(Val),
    Ref(Rc<str>),
    Set(Rc<str>, Rc<Core>),
    Define(Rc<str>, Rc<Core>),
    If(Rc<Core>, Rc<Core>, Option<Rc<Core>>),
    Lambda(Rc<LambdaDef>),
    Seq(Rc<Vec<Rc<Core>>>),
    App(Rc<Core>, Rc<Vec<Rc<Core>>>),
    Quasi(Rc<QT>),
    Delay(Rc<Core>),
}

/// quasiquote template
pub enum QT {
    Atom(Val),
    Unquote(Rc<Core>),
    List(Vec<Rc<QT>>, Option<Rc<QT>>),
    Vector(Vec<Rc<QT>>),
}

pub enum Kont {
    Halt(u64),
    If(Rc<Core>, Option<Rc<Core>>, Option<Rc<Env>>, Rc<Kont>),
    Seq(Rc<Vec<Rc<Core>>>, usize, Option<Rc<Env>>, Rc<Kont>),
    Set(Rc<str>, Option<Rc<Env>>, Rc<Kont>),
    Define(Rc<str>, Option<Rc<Env>>, Rc<Kont>),
    /// evaluating operands (index < n) then the operator (index == n)
    App(Rc<Vec<Rc<Core>>>, Rc<Core>, usize, Rc<Vec<Val>>, Option<Rc<Env>>, Rc<Kont>),
    /// quasiquote: a stack machine over the template
    Quasi(Rc<QFrame>, Rc<Kont>),
    Force(Rc<RefCell<PromiseState>>, Rc<Kont>),
}

/// Pending quasiquote construction: template nodes are evaluated depth-first,
/// left to right; `done` holds the finished children of the current node.
pub struct QFrame {
    node: Rc<QT>,
    idx: usize,
    done: Rc<Vec<Val>>,
    env: Option<Rc<Env>>,
    parent: Option<Rc<QFrame>>,
}

#[derive(Debug, Clone, PartialEq)]
pub enum Stop {
    /// a failure whose signalling the SUT's suite pins (kind for diagnostics only)
    Fail(&'static str),
    Undetermined(String),
    Budget,
}

#[derive(Debug, Clone)]
pub enum Outcome {
    Value(Sx),
    Fail(&'static str),
    Undetermined(String),
    Budget,
}

pub struct Ri {
    globals: HashMap<String, Loc>,
    pub output: Vec<(bool, Sx)>,
    gensym: u64,
    pub steps: u64,
    pub budget: u64,
    form_id: u64,
    /// statistics for the generators' class histograms
    pub stats: RiStats,
}

#[derive(Default, Clone, Debug)]
pub struct RiStats {
    pub closure_calls: u64,
    pub cont_captures: u64,
    pub cont_invocations: u64,
    pub cont_reentries: u64,
    pub cont_cross_form: u64,
    pub cont_reentries_pending_operands: u64,
    pub apply_calls: u64,
    pub eval_calls: u64,
    pub vararg_calls: u64,
    pub max_kont_depth: u64,
}

const PRIMS: &[&str] = &[
    "+", "-", "*", "quotient", "remainder", "modulo", "=", "<", ">", "<=", ">=", "zero?",
    "positive?", "negative?", "even?", "odd?", "abs", "min", "max", "number?", "integer?", "not",
    "eq?", "eqv?", "equal?", "cons", "car", "cdr", "set-car!", "set-cdr!", "list", "length",
    "append", "reverse", "list-tail", "list-ref", "memq", "memv", "member", "assq", "assv",
    "assoc", "null?", "pair?", "list?", "cadr", "cddr", "caar", "cdar", "vector", "make-vector",
    "vector-ref", "vector-set!", "vector-length", "vector->list", "list->vector", "vector?",
    "vector-fill!", "string-length", "string-append", "string=?", "string?", "string-ref",
    "string->symbol", "symbol->string", "number->string", "char?", "char->integer", "char=?",
    "symbol?", "procedure?", "boolean?", "apply", "call/cc", "call-with-current-continuation",
    "force", "eval", "error", "display", "write", "make-promise",
];

fn sym(s: &str) -> Rc<str> {
    Rc::from(s)
}

impl Val {
    pub fn int(i: i64) -> Val {
        Val::Int(BigInt::from(i))
    }
    pub fn cons(a: Val, d: Val) -> Val {
        Val::Pair(Rc::new((RefCell::new(a), RefCell::new(d))))
    }
    pub fn list(items: Vec<Val>, tail: Val) -> Val {
        let mut out = tail;
        for v in items.into_iter().rev() {
            out = Val::cons(v, out);
        }
        out
    }
    fn truthy(&self) -> bool {
        !matches!(self, Val::Bool(false))
    }
    fn is_proc(&self) -> bool {
        matches!(self, Val::Closure(_) | Val::Prim(_) | Val::Cont(_))
    }

    /// datum -> value (each call allocates fresh structure)
    pub fn from_sx(s: &Sx) -> Val {
        match s {
            Sx::Bool(b) => Val::Bool(*b),
            Sx::Int(i) => Val::Int(i.clone()),
            Sx::Char(c) => Val::Char(*c),
            Sx::Str(s) => Val::Str(Rc::new(RefCell::new(s.clone()))),
            Sx::Sym(s) => Val::Sym(sym(s)),
            Sx::List(v) => Val::list(v.iter().map(Val::from_sx).collect(), Val::Nil),
            Sx::Dotted(v, t) => Val::list(v.iter().map(Val::from_sx).collect(), Val::from_sx(t)),
            Sx::Vector(v) => Val::Vector(Rc::new(RefCell::new(v.iter().map(Val::from_sx).collect()))),
            Sx::Rat(_) | Sx::Real(_) | Sx::Opaque(_) => Val::Unspec,
        }
    }

    /// value -> expected datum (with wildcards); None if cyclic/too deep
    pub fn to_sx(&self, depth: usize) -> Option<Sx> {
        if depth > 200 {
            return None;
        }
        Some(match self {
            Val::Unspec => Sx::Opaque("unspecified".into()),
            Val::Undef => Sx::Opaque("unspecified".into()),
            Val::Nil => Sx::List(vec![]),
            Val::Bool(b) => Sx::Bool(*b),
            Val::Int(i) => Sx::Int(i.clone()),
            Val::Char(c) => Sx::Char(*c),
            Val::Sym(s) => Sx::Sym(s.to_string()),
            Val::Str(s) => Sx::Str(s.borrow().clone()),
            Val::Pair(_) => {
                let mut items = vec![];
                let mut cur = self.clone();
                let mut n = 0;
                loop {
                    n += 1;
                    if n > 100_000 {
                        return None;
                    }
                    match cur {
                        Val::Pair(p) => {
                            items.push(p.0.borrow().to_sx(depth + 1)?);
                            let next = p.1.borrow().clone();
                            cur = next;
                        }
                        Val::Nil => return Some(Sx::List(items)),
                        other => return Some(Sx::Dotted(items, Box::new(other.to_sx(depth + 1)?))),
                    }
                }
            }
            Val::Vector(v) => {
                let mut out = vec![];
                for x in v.borrow().iter() {
                    out.push(x.to_sx(depth + 1)?);
                }
                Sx::Vector(out)
            }
            Val::Closure(_) | Val::Prim(_) => Sx::Opaque("procedure".into()),
            Val::Cont(_) => Sx::Opaque("continuation".into()),
            Val::Promise(_) => Sx::Opaque("promise".into()),
        })
    }
}

fn undet<T>(s: &str) -> Result<T, Stop> {
    Err(Stop::Undetermined(s.to_string()))
}

// ---------------------------------------------------------------- desugaring

struct Desugar<'a> {
    ri: &'a mut Ri,
}

type RC = Rc<Core>;

fn mk_lambda(params: Vec<Rc<str>>, rest: Option<Rc<str>>, defines: Vec<Rc<str>>, body: Vec<RC>) -> RC {
    Rc::new(Core::Lambda(Rc::new(LambdaDef { params, rest, defines, body: Rc::new(body) })))
}

fn mk_app(f: RC, args: Vec<RC>) -> RC {
    Rc::new(Core::App(f, Rc::new(args)))
}

fn mk_if(c: RC, t: RC, e: Option<RC>) -> RC {
    Rc::new(Core::If(c, t, e))
}

fn mk_ref(n: &Rc<str>) -> RC {
    Rc::new(Core::Ref(n.clone()))
}

fn mk_const(v: Val) -> RC {
    Rc::new(Core::Const(v))
}

impl<'a> Desugar<'a> {
    fn fresh(&mut self) -> Rc<str> {
        self.ri.gensym += 1;
        sym(&format!("%t{}", self.ri.gensym))
    }

    fn prim(name: &'static str) -> RC {
        mk_const(Val::Prim(name))
    }

    fn define_name(f: &Sx) -> Result<Rc<str>, Stop> {
        let l = f.as_list();
        let target = match f {
            Sx::List(v) => v.get(1),
            _ => None,
        };
        let _ = l;
        match target {
            Some(Sx::Sym(s)) => Ok(sym(s)),
            Some(Sx::List(h)) if !h.is_empty() => match &h[0] {
                Sx::Sym(s) => Ok(sym(s)),
                _ => undet("bad define"),
            },
            Some(Sx::Dotted(h, _)) => match &h[0] {
                Sx::Sym(s) => Ok(sym(s)),
                _ => undet("bad define"),
            },
            _ => undet("bad define"),
        }
    }

    fn body(&mut self, forms: &[Sx]) -> Result<(Vec<Rc<str>>, Vec<RC>), Stop> {
        if forms.is_empty() {
            return undet("empty body");
        }
        let mut defines = vec![];
        let mut leading = true;
        for f in forms {
            if f.head_is("define") {
                if !leading {
                    return undet("define after expression in body");
                }
                defines.push(Self::define_name(f)?);
            } else {
                leading = false;
            }
        }
        let mut out = vec![];
        for f in forms {
            out.push(self.expr(f)?);
        }
        Ok((defines, out))
    }

    fn formals(formals: &Sx) -> Result<(Vec<Rc<str>>, Option<Rc<str>>), Stop> {
        let names = |v: &[Sx]| -> Result<Vec<Rc<str>>, Stop> {
            let mut ps = vec![];
            for p in v {
                match p {
                    Sx::Sym(s) => ps.push(sym(s)),
                    _ => return undet("bad formals"),
                }
            }
            Ok(ps)
        };
        match formals {
            Sx::Sym(s) => Ok((vec![], Some(sym(s)))),
            Sx::List(v) => Ok((names(v)?, None)),
            Sx::Dotted(v, t) => match &**t {
                Sx::Sym(s) => Ok((names(v)?, Some(sym(s)))),
                _ => undet("bad formals"),
            },
            _ => undet("bad formals"),
        }
    }

    fn lambda(&mut self, formals: &Sx, body: &[Sx]) -> Result<RC, Stop> {
        let (params, rest) = Self::formals(formals)?;
        let (defines, body) = self.body(body)?;
        Ok(mk_lambda(params, rest, defines, body))
    }

    fn let_like(&mut self, names: Vec<Rc<str>>, inits: Vec<RC>, body: &[Sx]) -> Result<RC, Stop> {
        let (defines, body) = self.body(body)?;
        Ok(mk_app(mk_lambda(names, None, defines, body), inits))
    }

    fn bindings(&mut self, b: &Sx) -> Result<(Vec<Rc<str>>, Vec<Sx>), Stop> {
        let l = match b.as_list() {
            Some(l) => l,
            None => return undet("bad bindings"),
        };
        let mut names = vec![];
        let mut inits = vec![];
        for x in l {
            match x.as_list() {
                Some([Sx::Sym(n), init]) => {
                    names.push(sym(n));
                    inits.push(init.clone());
                }
                _ => return undet("bad binding"),
            }
        }
        Ok((names, inits))
    }

    fn exprs(&mut self, forms: &[Sx]) -> Result<Vec<RC>, Stop> {
        let mut v = vec![];
        for f in forms {
            v.push(self.expr(f)?);
        }
        Ok(v)
    }

    fn seq(&mut self, forms: &[Sx]) -> Result<RC, Stop> {
        if forms.is_empty() {
            return undet("empty sequence");
        }
        let mut v = self.exprs(forms)?;
        if v.len() == 1 {
            Ok(v.pop().unwrap())
        } else {
            Ok(Rc::new(Core::Seq(Rc::new(v))))
        }
    }

    fn qsym(name: &str) -> Rc<QT> {
        Rc::new(QT::Atom(Val::Sym(sym(name))))
    }

    fn quasi(&mut self, t: &Sx, depth: usize) -> Result<Rc<QT>, Stop> {
        match t {
            Sx::List(v) if v.is_empty() => Ok(Rc::new(QT::Atom(Val::Nil))),
            Sx::List(v) => {
                if v.len() == 2 && v[0].as_sym() == Some("unquote") {
                    return if depth == 0 {
                        Ok(Rc::new(QT::Unquote(self.expr(&v[1])?)))
                    } else {
                        Ok(Rc::new(QT::List(
                            vec![Self::qsym("unquote"), self.quasi(&v[1], depth - 1)?],
                            None,
                        )))
                    };
                }
                if v.len() == 2 && v[0].as_sym() == Some("quasiquote") {
                    return Ok(Rc::new(QT::List(
                        vec![Self::qsym("quasiquote"), self.quasi(&v[1], depth + 1)?],
                        None,
                    )));
                }
                // (a b . ,x) is spelled (a b unquote x)
                let n = v.len();
                if n >= 3 && v[n - 2].as_sym() == Some("unquote") {
                    let mut items = vec![];
                    for x in &v[..n - 2] {
                        items.push(self.quasi(x, depth)?);
                    }
                    let tail = if depth == 0 {
                        Rc::new(QT::Unquote(self.expr(&v[n - 1])?))
                    } else {
                        Rc::new(QT::List(
                            vec![Self::qsym("unquote"), self.quasi(&v[n - 1], depth - 1)?],
                            None,
                        ))
                    };
                    return Ok(Rc::new(QT::List(items, Some(tail))));
                }
                let mut items = vec![];
                for x in v {
                    items.push(self.quasi(x, depth)?);
                }
                Ok(Rc::new(QT::List(items, None)))
            }
            Sx::Dotted(v, tl) => {
                let mut items = vec![];
                for x in v {
                    items.push(self.quasi(x, depth)?);
                }
                let tail = self.quasi(tl, depth)?;
                Ok(Rc::new(QT::List(items, Some(tail))))
            }
            Sx::Vector(v) => {
                let mut items = vec![];
                for x in v {
                    items.push(self.quasi(x, depth)?);
                }
                Ok(Rc::new(QT::Vector(items)))
            }
            atom => Ok(Rc::new(QT::Atom(Val::from_sx(atom)))),
        }
    }

    /// ((lambda (t) body) init) with a fresh, unspellable t
    fn with_temp<F: FnOnce(&Rc<str>) -> RC>(&mut self, init: RC, f: F) -> RC {
        let t = self.fresh();
        let body = f(&t);
        mk_app(mk_lambda(vec![t], None, vec![], vec![body]), vec![init])
    }

    fn cond(&mut self, clauses: &[Sx]) -> Result<RC, Stop> {
        if clauses.is_empty() {
            return Ok(mk_const(Val::Unspec));
        }
        let c = match clauses[0].as_list() {
            Some(c) if !c.is_empty() => c,
            _ => return undet("bad cond clause"),
        };
        if c[0].as_sym() == Some("else") {
            return self.seq(&c[1..]);
        }
        let rest_opt = if clauses.len() > 1 { Some(self.cond(&clauses[1..])?) } else { None };
        if c.len() == 3 && c[1].as_sym() == Some("=>") {
            let test = self.expr(&c[0])?;
            let f = self.expr(&c[2])?;
            return Ok(self.with_temp(test, |t| {
                mk_if(mk_ref(t), mk_app(f, vec![mk_ref(t)]), rest_opt)
            }));
        }
        if c.len() == 1 {
            let test = self.expr(&c[0])?;
            return Ok(self.with_temp(test, |t| mk_if(mk_ref(t), mk_ref(t), rest_opt)));
        }
        let test = self.expr(&c[0])?;
        let then = self.seq(&c[1..])?;
        Ok(mk_if(test, then, rest_opt))
    }

    fn case_clauses(&mut self, key: &Rc<str>, clauses: &[Sx]) -> Result<RC, Stop> {
        if clauses.is_empty() {
            return Ok(mk_const(Val::Unspec));
        }
        let c = match clauses[0].as_list() {
            Some(c) if c.len() >= 2 => c,
            _ => return undet("bad case clause"),
        };
        let arrow = c.len() == 3 && c[1].as_sym() == Some("=>");
        let action = if arrow {
            let f = self.expr(&c[2])?;
            mk_app(f, vec![mk_ref(key)])
        } else {
            self.seq(&c[1..])?
        };
        if c[0].as_sym() == Some("else") {
            return Ok(action);
        }
        let data = match &c[0] {
            Sx::List(_) => Val::from_sx(&c[0]),
            _ => return undet("bad case data"),
        };
        let rest = if clauses.len() > 1 { Some(self.case_clauses(key, &clauses[1..])?) } else { None };
        Ok(mk_if(
            mk_app(Self::prim("memv"), vec![mk_ref(key), mk_const(data)]),
            action,
            rest,
        ))
    }

    fn expr(&mut self, s: &Sx) -> Result<RC, Stop> {
        match s {
            Sx::Sym(name) => Ok(Rc::new(Core::Ref(sym(name)))),
            Sx::Bool(_) | Sx::Int(_) | Sx::Char(_) | Sx::Str(_) | Sx::Vector(_) => {
                Ok(mk_const(Val::from_sx(s)))
            }
            Sx::Rat(_) | Sx::Real(_) | Sx::Opaque(_) => undet("unsupported literal"),
            Sx::Dotted(_, _) => undet("dotted form"),
            Sx::List(v) if v.is_empty() => undet("unquoted ()"),
            Sx::List(v) => {
                let head = v[0].as_sym();
                let args = &v[1..];
                match head {
                    Some("quote") if args.len() == 1 => Ok(mk_const(Val::from_sx(&args[0]))),
                    Some("quasiquote") if args.len() == 1 => {
                        Ok(Rc::new(Core::Quasi(self.quasi(&args[0], 0)?)))
                    }
                    Some("lambda") if args.len() >= 2 => self.lambda(&args[0], &args[1..]),
                    Some("define") if args.len() >= 2 => match &args[0] {
                        Sx::Sym(n) if args.len() == 2 => {
                            Ok(Rc::new(Core::Define(sym(n), self.expr(&args[1])?)))
                        }
                        Sx::List(h) if !h.is_empty() => {
                            let name = h[0].as_sym().ok_or(Stop::Undetermined("bad define".into()))?;
                            let lam = self.lambda(&Sx::List(h[1..].to_vec()), &args[1..])?;
                            Ok(Rc::new(Core::Define(sym(name), lam)))
                        }
                        Sx::Dotted(h, t) => {
                            let name = h[0].as_sym().ok_or(Stop::Undetermined("bad define".into()))?;
                            let formals = if h.len() == 1 {
                                (**t).clone()
                            } else {
                                Sx::Dotted(h[1..].to_vec(), t.clone())
                            };
                            let lam = self.lambda(&formals, &args[1..])?;
                            Ok(Rc::new(Core::Define(sym(name), lam)))
                        }
                        _ => undet("bad define"),
                    },
                    Some("set!") if args.len() == 2 => match &args[0] {
                        Sx::Sym(n) => Ok(Rc::new(Core::Set(sym(n), self.expr(&args[1])?))),
                        _ => undet("bad set!"),
                    },
                    Some("if") if args.len() == 2 || args.len() == 3 => {
                        let c = self.expr(&args[0])?;
                        let t = self.expr(&args[1])?;
                        let e = match args.get(2) {
                            Some(e) => Some(self.expr(e)?),
                            None => None,
                        };
                        Ok(mk_if(c, t, e))
                    }
                    Some("begin") => self.seq(args),
                    Some("let") if args.len() >= 2 => {
                        if let Sx::Sym(tag) = &args[0] {
                            // named let: ((letrec ((tag (lambda names body...))) tag) inits...)
                            if args.len() < 3 {
                                return undet("bad named let");
                            }
                            let (names, inits) = self.bindings(&args[1])?;
                            let ic = self.exprs(&inits)?;
                            let (defines, body) = self.body(&args[2..])?;
                            let lam = mk_lambda(names, None, defines, body);
                            let tag = sym(tag);
                            let op = mk_app(
                                mk_lambda(
                                    vec![],
                                    None,
                                    vec![tag.clone()],
                                    vec![Rc::new(Core::Define(tag.clone(), lam)), mk_ref(&tag)],
                                ),
                                vec![],
                            );
                            return Ok(mk_app(op, ic));
                        }
                        let (names, inits) = self.bindings(&args[0])?;
                        let ic = self.exprs(&inits)?;
                        self.let_like(names, ic, &args[1..])
                    }
                    Some("let*") if args.len() >= 2 => {
                        let (names, inits) = self.bindings(&args[0])?;
                        if names.is_empty() {
                            return self.let_like(vec![], vec![], &args[1..]);
                        }
                        let n = names.len();
                        let ic = self.exprs(&inits)?;
                        let mut core = self.let_like(vec![names[n - 1].clone()], vec![ic[n - 1].clone()], &args[1..])?;
                        for i in (0..n - 1).rev() {
                            core = mk_app(
                                mk_lambda(vec![names[i].clone()], None, vec![], vec![core]),
                                vec![ic[i].clone()],
                            );
                        }
                        Ok(core)
                    }
                    Some("letrec") | Some("letrec*") if args.len() >= 2 => {
                        let (names, inits) = self.bindings(&args[0])?;
                        let mut body = vec![];
                        for (n, i) in names.iter().zip(inits.iter()) {
                            body.push(Rc::new(Core::Set(n.clone(), self.expr(i)?)));
                        }
                        body.push(self.let_like(vec![], vec![], &args[1..])?);
                        let undefs = names.iter().map(|_| mk_const(Val::Undef)).collect();
                        Ok(mk_app(mk_lambda(names, None, vec![], body), undefs))
                    }
                    Some("and") => {
                        if args.is_empty() {
                            return Ok(mk_const(Val::Bool(true)));
                        }
                        let mut core = self.expr(&args[args.len() - 1])?;
                        for a in args[..args.len() - 1].iter().rev() {
                            core = mk_if(self.expr(a)?, core, Some(mk_const(Val::Bool(false))));
                        }
                        Ok(core)
                    }
                    Some("or") => {
                        if args.is_empty() {
                            return Ok(mk_const(Val::Bool(false)));
                        }
                        let mut core = self.expr(&args[args.len() - 1])?;
                        for a in args[..args.len() - 1].iter().rev() {
                            let test = self.expr(a)?;
                            core = self.with_temp(test, |t| mk_if(mk_ref(t), mk_ref(t), Some(core)));
                        }
                        Ok(core)
                    }
                    Some("when") if args.len() >= 2 => {
                        let t = self.expr(&args[0])?;
                        let b = self.seq(&args[1..])?;
                        Ok(mk_if(t, b, None))
                    }
                    Some("unless") if args.len() >= 2 => {
                        let t = self.expr(&args[0])?;
                        let b = self.seq(&args[1..])?;
                        Ok(mk_if(t, mk_const(Val::Unspec), Some(b)))
                    }
                    Some("cond") => self.cond(args),
                    Some("case") if !args.is_empty() => {
                        let key = self.expr(&args[0])?;
                        let k = self.fresh();
                        let body = self.case_clauses(&k, &args[1..])?;
                        Ok(mk_app(mk_lambda(vec![k], None, vec![], vec![body]), vec![key]))
                    }
                    Some("delay") if args.len() == 1 => Ok(Rc::new(Core::Delay(self.expr(&args[0])?))),
                    Some("quote") | Some("quasiquote") | Some("lambda") | Some("define")
                    | Some("set!") | Some("if") | Some("let") | Some("let*") | Some("letrec")
                    | Some("letrec*") | Some("when") | Some("unless") | Some("case")
                    | Some("delay") | Some("unquote") | Some("define-syntax") => {
                        undet("malformed special form")
                    }
                    _ => {
                        let f = self.expr(&v[0])?;
                        let a = self.exprs(args)?;
                        Ok(mk_app(f, a))
                    }
                }
            }
        }
    }
}

// ---------------------------------------------------------------- machine

enum Ctl {
    Eval(Rc<Core>, Option<Rc<Env>>),
    Ret(Val),
}

impl Ri {
    pub fn new() -> Ri {
        let mut ri = Ri {
            globals: HashMap::new(),
            output: vec![],
            gensym: 0,
            steps: 0,
            budget: 200_000,
            form_id: 0,
            stats: RiStats::default(),
        };
        for p in PRIMS {
            ri.globals.insert(p.to_string(), Rc::new(RefCell::new(Val::Prim(p))));
        }
        // map / for-each by their R7RS reference definitions (left to right)
        let prelude = r#"
(define (%any-null? ls) (if (null? ls) #f (if (null? (car ls)) #t (%any-null? (cdr ls)))))
(define (%map1 f l) (if (null? l) '() (cons (f (car l)) (%map1 f (cdr l)))))
(define (map f . ls)
  (letrec ((go (lambda (ls)
      (if (%any-null? ls) '()
          (cons (apply f (%map1 car ls)) (go (%map1 cdr ls)))))))
    (go ls)))
(define (for-each f . ls)
  (letrec ((go (lambda (ls)
      (if (%any-null? ls) (if #f #f)
          (begin (apply f (%map1 car ls)) (go (%map1 cdr ls)))))))
    (go ls)))
"#;
        for form in crate::sx::read_all(prelude).expect("ri prelude") {
            let saved = ri.budget;
            ri.budget = u64::MAX;
            match ri.eval_top(&form) {
                Outcome::Value(_) => {}
                o => panic!("ri prelude failed: {:?}", o),
            }
            ri.budget = saved;
        }
        ri.steps = 0;
        ri.stats = RiStats::default();
        ri
    }

    pub fn take_output(&mut self) -> Vec<(bool, Sx)> {
        std::mem::take(&mut self.output)
    }

    pub fn global_value(&self, name: &str) -> Option<Sx> {
        self.globals.get(name).and_then(|l| l.borrow().to_sx(0))
    }

    pub fn is_global_bound(&self, name: &str) -> bool {
        self.globals
            .get(name)
            .map(|l| !matches!(*l.borrow(), Val::Undef))
            .unwrap_or(false)
    }

    /// Evaluate one top-level form.
    pub fn eval_top(&mut self, form: &Sx) -> Outcome {
        self.steps = 0;
        let core = match (Desugar { ri: self }).expr(form) {
            Ok(c) => c,
            Err(Stop::Undetermined(s)) => return Outcome::Undetermined(s),
            Err(Stop::Fail(k)) => return Outcome::Fail(k),
            Err(Stop::Budget) => return Outcome::Budget,
        };
        self.form_id += 1;
        let halt = Rc::new(Kont::Halt(self.form_id));
        match self.run(core, None, halt) {
            Ok(v) => match v.to_sx(0) {
                Some(s) => Outcome::Value(s),
                None => Outcome::Undetermined("cyclic or too deep result".into()),
            },
            Err(Stop::Fail(k)) => Outcome::Fail(k),
            Err(Stop::Undetermined(s)) => Outcome::Undetermined(s),
            Err(Stop::Budget) => Outcome::Budget,
        }
    }

    fn lookup(&self, name: &str, env: &Option<Rc<Env>>) -> Option<Loc> {
        if let Some(e) = env {
            if let Some(l) = e.lookup(name) {
                return Some(l);
            }
        }
        self.globals.get(name).cloned()
    }

    fn run(&mut self, core: Rc<Core>, env: Option<Rc<Env>>, kont: Rc<Kont>) -> Result<Val, Stop> {
        let mut ctl = Ctl::Eval(core, env);
        let mut k = kont;
        loop {
            self.steps += 1;
            if self.steps > self.budget {
                return Err(Stop::Budget);
            }
            match ctl {
                Ctl::Eval(core, env) => match &*core {
                    Core::Const(v) => ctl = Ctl::Ret(v.clone()),
                    Core::Ref(name) => match self.lookup(name, &env) {
                        Some(l) => {
                            let v = l.borrow().clone();
                            if let Val::Undef = v {
                                // reference to an uninitialised letrec/internal-define variable
                                return undet("reference to uninitialised variable");
                            }
                            ctl = Ctl::Ret(v);
                        }
                        None => return Err(Stop::Fail("unbound-variable")),
                    },
                    Core::Set(name, e) => {
                        k = Rc::new(Kont::Set(name.clone(), env.clone(), k));
                        ctl = Ctl::Eval(e.clone(), env);
                    }
                    Core::Define(name, e) => {
                        k = Rc::new(Kont::Define(name.clone(), env.clone(), k));
                        ctl = Ctl::Eval(e.clone(), env);
                    }
                    Core::If(c, t, e) => {
                        k = Rc::new(Kont::If(t.clone(), e.clone(), env.clone(), k));
                        ctl = Ctl::Eval(c.clone(), env);
                    }
                    Core::Lambda(def) => {
                        let envc = env.clone().unwrap_or_else(|| Rc::new(Env { vars: RefCell::new(vec![]), parent: None }));
                        ctl = Ctl::Ret(Val::Closure(Rc::new(Closure { def: def.clone(), env: envc })));
                    }
                    Core::Seq(v) => {
                        let items: Rc<Vec<Rc<Core>>> = v.clone();
                        let first = items[0].clone();
                        if items.len() > 1 {
                            k = Rc::new(Kont::Seq(items, 1, env.clone(), k));
                        }
                        ctl = Ctl::Eval(first, env);
                    }
                    Core::App(f, args) => {
                        let items: Rc<Vec<Rc<Core>>> = args.clone();
                        let fc = f.clone();
                        if items.is_empty() {
                            k = Rc::new(Kont::App(items, fc.clone(), 0, Rc::new(vec![]), env.clone(), k));
                            ctl = Ctl::Eval(fc, env);
                        } else {
                            let first = items[0].clone();
                            k = Rc::new(Kont::App(items, fc, 0, Rc::new(vec![]), env.clone(), k));
                            ctl = Ctl::Eval(first, env);
                        }
                    }
                    Core::Quasi(t) => {
                        let (c2, k2) = self.quasi_start(t.clone(), env, None, k)?;
                        ctl = c2;
                        k = k2;
                    }
                    Core::Delay(e) => {
                        let envc = env.clone().unwrap_or_else(|| Rc::new(Env { vars: RefCell::new(vec![]), parent: None }));
                        ctl = Ctl::Ret(Val::Promise(Rc::new(RefCell::new(PromiseState::Delayed(e.clone(), envc)))));
                    }
                },
                Ctl::Ret(v) => {
                    let kk = k.clone();
                    match &*kk {
                        Kont::Halt(_) => return Ok(v),
                        Kont::If(t, e, env, next) => {
                            k = next.clone();
                            if v.truthy() {
                                ctl = Ctl::Eval(t.clone(), env.clone());
                            } else {
                                match e {
                                    Some(e) => ctl = Ctl::Eval(e.clone(), env.clone()),
                                    None => ctl = Ctl::Ret(Val::Unspec),
                                }
                            }
                        }
                        Kont::Seq(items, idx, env, next) => {
                            if idx + 1 < items.len() {
                                k = Rc::new(Kont::Seq(items.clone(), idx + 1, env.clone(), next.clone()));
                            } else {
                                k = next.clone();
                            }
                            ctl = Ctl::Eval(items[*idx].clone(), env.clone());
                        }
                        Kont::Set(name, env, next) => {
                            match self.lookup(name, env) {
                                Some(l) => {
                                    *l.borrow_mut() = v;
                                }
                                // R7RS: "it is an error" (no signalling required)
                                None => return undet("set! of an unbound variable"),
                            }
                            k = next.clone();
                            ctl = Ctl::Ret(Val::Unspec);
                        }
                        Kont::Define(name, env, next) => {
                            let mut done = false;
                            if let Some(e) = env {
                                // internal define: the location was pre-allocated in this frame
                                if let Some(l) = e.lookup(name) {
                                    *l.borrow_mut() = v.clone();
                                    done = true;
                                }
                            }
                            if !done {
                                match self.globals.get(&**name) {
                                    Some(l) => *l.borrow_mut() = v,
                                    None => {
                                        self.globals.insert(name.to_string(), Rc::new(RefCell::new(v)));
                                    }
                                }
                            }
                            k = next.clone();
                            ctl = Ctl::Ret(Val::Unspec);
                        }
                        Kont::App(items, f, idx, done, env, next) => {
                            let n = items.len();
                            if *idx < n {
                                let mut d = (**done).clone();
                                d.push(v);
                                let nidx = idx + 1;
                                let nk = Rc::new(Kont::App(items.clone(), f.clone(), nidx, Rc::new(d), env.clone(), next.clone()));
                                k = nk;
                                if nidx < n {
                                    ctl = Ctl::Eval(items[nidx].clone(), env.clone());
                                } else {
                                    ctl = Ctl::Eval(f.clone(), env.clone());
                                }
                            } else {
                                // v is the operator value
                                let (c2, k2) = self.apply(v, (**done).clone(), next.clone())?;
                                ctl = c2;
                                k = k2;
                            }
                        }
                        Kont::Quasi(frame, next) => {
                            let (c2, k2) = self.quasi_resume(frame.clone(), v, next.clone())?;
                            ctl = c2;
                            k = k2;
                        }
                        Kont::Force(p, next) => {
                            let already = matches!(&*p.borrow(), PromiseState::Done(_));
                            if already {
                                let val = match &*p.borrow() {
                                    PromiseState::Done(x) => x.clone(),
                                    _ => unreachable!(),
                                };
                                ctl = Ctl::Ret(val);
                            } else {
                                *p.borrow_mut() = PromiseState::Done(v.clone());
                                ctl = Ctl::Ret(v);
                            }
                            k = next.clone();
                        }
                    }
                }
            }
        }
    }

    // ---- quasiquote evaluation (explicit frames so call/cc inside an unquote works)
    fn quasi_start(
        &mut self,
        node: Rc<QT>,
        env: Option<Rc<Env>>,
        parent: Option<Rc<QFrame>>,
        k: Rc<Kont>,
    ) -> Result<(Ctl, Rc<Kont>), Stop> {
        let frame = Rc::new(QFrame { node, idx: 0, done: Rc::new(vec![]), env, parent });
        self.quasi_step(frame, k)
    }

    /// Continue building `frame.node` from child index `frame.idx`.
    fn quasi_step(&mut self, frame: Rc<QFrame>, k: Rc<Kont>) -> Result<(Ctl, Rc<Kont>), Stop> {
        let mut frame = frame;
        loop {
            // children of this node in order: items..., then tail (if any)
            let child: Option<&Rc<QT>> = match &*frame.node {
                QT::Atom(_) | QT::Unquote(_) => None,
                QT::List(items, tail) => {
                    if frame.idx < items.len() {
                        Some(&items[frame.idx])
                    } else if frame.idx == items.len() {
                        tail.as_ref()
                    } else {
                        None
                    }
                }
                QT::Vector(items) => items.get(frame.idx),
            };
            match (&*frame.node, child) {
                (QT::Atom(v), _) => {
                    let v = copy_template_atom(v);
                    match self.quasi_finish(&frame, v, k.clone())? {
                        Ok(done) => return Ok(done),
                        Err(next) => frame = next,
                    }
                }
                (QT::Unquote(core), _) => {
                    let k2 = Rc::new(Kont::Quasi(frame.clone(), k));
                    return Ok((Ctl::Eval(core.clone(), frame.env.clone()), k2));
                }
                (_, Some(_)) => {
                    // descend
                    let child_rc: Rc<QT> = match &*frame.node {
                        QT::List(items, tail) => {
                            if frame.idx < items.len() {
                                items[frame.idx].clone()
                            } else {
                                tail.clone().unwrap()
                            }
                        }
                        QT::Vector(items) => items[frame.idx].clone(),
                        _ => unreachable!(),
                    };
                    frame = Rc::new(QFrame {
                        node: child_rc,
                        idx: 0,
                        done: Rc::new(vec![]),
                        env: frame.env.clone(),
                        parent: Some(frame.clone()),
                    });
                }
                (node, None) => {
                    // all children done: build the value
                    let done = (*frame.done).clone();
                    let v = match node {
                        QT::List(items, tail) => {
                            if tail.is_some() {
                                let mut d = done;
                                let t = d.pop().unwrap_or(Val::Nil);
                                debug_assert_eq!(d.len(), items.len());
                                Val::list(d, t)
                            } else {
                                Val::list(done, Val::Nil)
                            }
                        }
                        QT::Vector(_) => Val::Vector(Rc::new(RefCell::new(done))),
                        _ => unreachable!(),
                    };
                    match self.quasi_finish(&frame, v, k.clone())? {
                        Ok(done) => return Ok(done),
                        Err(next) => frame = next,
                    }
                }
            }
        }
    }

    /// A node of the template is finished with value `v`: hand it to the
    /// parent frame (Err(parent') = continue there) or return it (Ok).
    #[allow(clippy::type_complexity)]
    fn quasi_finish(
        &mut self,
        frame: &Rc<QFrame>,
        v: Val,
        k: Rc<Kont>,
    ) -> Result<Result<(Ctl, Rc<Kont>), Rc<QFrame>>, Stop> {
        match &frame.parent {
            None => Ok(Ok((Ctl::Ret(v), k))),
            Some(p) => {
                let mut d = (*p.done).clone();
                d.push(v);
                Ok(Err(Rc::new(QFrame {
                    node: p.node.clone(),
                    idx: p.idx + 1,
                    done: Rc::new(d),
                    env: p.env.clone(),
                    parent: p.parent.clone(),
                })))
            }
        }
    }

    fn quasi_resume(&mut self, frame: Rc<QFrame>, v: Val, k: Rc<Kont>) -> Result<(Ctl, Rc<Kont>), Stop> {
        // `frame` is the Unquote node's frame
        match self.quasi_finish(&frame, v, k.clone())? {
            Ok(done) => Ok(done),
            Err(next) => self.quasi_step(next, k),
        }
    }

    // ---- procedure application
    fn apply(&mut self, f: Val, args: Vec<Val>, k: Rc<Kont>) -> Result<(Ctl, Rc<Kont>), Stop> {
        match f {
            Val::Closure(c) => {
                self.stats.closure_calls += 1;
                let def = &c.def;
                let np = def.params.len();
                if args.len() < np || (def.rest.is_none() && args.len() > np) {
                    return Err(Stop::Fail("wrong-number-of-arguments"));
                }
                let mut vars: Vec<(Rc<str>, Loc)> = vec![];
                let mut it = args.into_iter();
                for p in &def.params {
                    vars.push((p.clone(), Rc::new(RefCell::new(it.next().unwrap()))));
                }
                if let Some(r) = &def.rest {
                    self.stats.vararg_calls += 1;
                    let rest: Vec<Val> = it.collect();
                    vars.push((r.clone(), Rc::new(RefCell::new(Val::list(rest, Val::Nil)))));
                }
                for d in &def.defines {
                    vars.push((d.clone(), Rc::new(RefCell::new(Val::Undef))));
                }
                let env = Rc::new(Env { vars: RefCell::new(vars), parent: Some(c.env.clone()) });
                let items: Rc<Vec<Rc<Core>>> = def.body.clone();
                let first = items[0].clone();
                let k = if items.len() > 1 {
                    Rc::new(Kont::Seq(items, 1, Some(env.clone()), k))
                } else {
                    k
                };
                Ok((Ctl::Eval(first, Some(env)), k))
            }
            Val::Cont(kc) => {
                if args.len() != 1 {
                    return undet("continuation applied to other than one value");
                }
                self.stats.cont_invocations += 1;
                self.note_invocation(&kc, &k);
                Ok((Ctl::Ret(args.into_iter().next().unwrap()), kc))
            }
            Val::Prim(name) => self.prim(name, args, k),
            _ => Err(Stop::Fail("call-of-non-procedure")),
        }
    }

    fn prim(&mut self, name: &'static str, args: Vec<Val>, k: Rc<Kont>) -> Result<(Ctl, Rc<Kont>), Stop> {
        // control primitives first
        match name {
            "apply" => {
                if args.len() < 2 {
                    return undet("apply arity");
                }
                self.stats.apply_calls += 1;
                let mut a = args;
                let last = a.pop().unwrap();
                let f = a.remove(0);
                let mut rest = list_to_vec(&last).ok_or(Stop::Undetermined("apply: improper list".into()))?;
                a.append(&mut rest);
                return self.apply(f, a, k);
            }
            "call/cc" | "call-with-current-continuation" => {
                if args.len() != 1 || !args[0].is_proc() {
                    return undet("call/cc argument");
                }
                self.stats.cont_captures += 1;
                let kv = Val::Cont(k.clone());
                return self.apply(args.into_iter().next().unwrap(), vec![kv], k);
            }
            "force" => {
                if args.len() != 1 {
                    return undet("force arity");
                }
                return match &args[0] {
                    Val::Promise(p) => {
                        let st = match &*p.borrow() {
                            PromiseState::Done(v) => Ok(v.clone()),
                            PromiseState::Delayed(c, e) => Err((c.clone(), e.clone())),
                        };
                        match st {
                            Ok(v) => Ok((Ctl::Ret(v), k)),
                            Err((c, e)) => {
                                let k2 = Rc::new(Kont::Force(p.clone(), k));
                                Ok((Ctl::Eval(c, Some(e)), k2))
                            }
                        }
                    }
                    _ => undet("force of non-promise"),
                };
            }
            "eval" => {
                if args.len() != 1 {
                    return undet("eval arity");
                }
                self.stats.eval_calls += 1;
                let datum = args[0].to_sx(0).ok_or(Stop::Undetermined("eval of cyclic datum".into()))?;
                let mut has_opaque = false;
                datum.walk(&mut |x| {
                    if matches!(x, Sx::Opaque(_)) {
                        has_opaque = true;
                    }
                });
                if has_opaque {
                    return undet("eval of non-datum");
                }
                let core = (Desugar { ri: self }).expr(&datum)?;
                return Ok((Ctl::Eval(core, None), k));
            }
            "error" => return Err(Stop::Fail("error-signalled")),
            "display" | "write" => {
                if args.len() != 1 {
                    return undet("display arity");
                }
                let s = args[0].to_sx(0).ok_or(Stop::Undetermined("display of cyclic datum".into()))?;
                self.output.push((name == "write", s));
                return Ok((Ctl::Ret(Val::Unspec), k));
            }
            _ => {}
        }
        // a primitive that walks a list costs steps in proportion to what it walks (a loop that
        // appends or reverses a long list every iteration must run into the step budget)
        if matches!(name, "append" | "reverse" | "length" | "list->vector" | "vector->list" | "list-tail" | "list-ref" | "equal?" | "member" | "assoc" | "memq" | "memv" | "assq" | "assv" | "vector-fill!" | "make-vector" | "apply") {
            let mut work = 0u64;
            for a in args.iter() {
                let mut cur = a.clone();
                let mut n = 0u64;
                while let Val::Pair(p) = cur {
                    n += 1;
                    if n > 1_000_000 {
                        break;
                    }
                    let next = p.1.borrow().clone();
                    cur = next;
                }
                work += n;
            }
            self.steps += work / 16;
        }
        let v = pure_prim(name, &args)?;
        Ok((Ctl::Ret(v), k))
    }

    fn kont_next(k: &Rc<Kont>) -> Option<Rc<Kont>> {
        match &**k {
            Kont::Halt(_) => None,
            Kont::If(_, _, _, x) | Kont::Seq(_, _, _, x) | Kont::Set(_, _, x)
            | Kont::Define(_, _, x) | Kont::App(_, _, _, _, _, x) | Kont::Quasi(_, x)
            | Kont::Force(_, x) => Some(x.clone()),
        }
    }

    /// Statistics only: is invoking `target` from `current` an escape (target is
    /// still on the current chain) or a re-entry; does it cross top-level forms;
    /// were operands pending at capture time.
    fn note_invocation(&mut self, target: &Rc<Kont>, current: &Rc<Kont>) {
        let mut on_chain = false;
        let mut cur = Some(current.clone());
        let mut n = 0;
        while let Some(c) = cur {
            if Rc::ptr_eq(&c, target) {
                on_chain = true;
                break;
            }
            n += 1;
            if n > 100_000 {
                break;
            }
            cur = Self::kont_next(&c);
        }
        if on_chain {
            return;
        }
        self.stats.cont_reentries += 1;
        let mut pending = false;
        let mut cur = Some(target.clone());
        let mut form = 0;
        let mut n = 0;
        while let Some(c) = cur {
            match &*c {
                Kont::App(_, _, _, done, _, _) if !done.is_empty() => pending = true,
                Kont::Halt(f) => form = *f,
                _ => {}
            }
            n += 1;
            if n > 100_000 {
                break;
            }
            cur = Self::kont_next(&c);
        }
        if pending {
            self.stats.cont_reentries_pending_operands += 1;
        }
        if form != self.form_id {
            self.stats.cont_cross_form += 1;
        }
    }

    pub fn kont_depth(k: &Rc<Kont>) -> usize {
        let mut n = 0;
        let mut cur = k.clone();
        loop {
            let next = match &*cur {
                Kont::Halt(_) => return n,
                Kont::If(_, _, _, x) | Kont::Seq(_, _, _, x) | Kont::Set(_, _, x)
                | Kont::Define(_, _, x) | Kont::App(_, _, _, _, _, x) | Kont::Quasi(_, x)
                | Kont::Force(_, x) => x.clone(),
            };
            n += 1;
            cur = next;
        }
    }
}

impl Default for Ri {
    fn default() -> Self {
        Ri::new()
    }
}

/// Atoms of a template are constants; strings are shared (literal).
fn copy_template_atom(v: &Val) -> Val {
    v.clone()
}

pub fn list_to_vec(v: &Val) -> Option<Vec<Val>> {
    let mut out = vec![];
    let mut cur = v.clone();
    let mut n = 0;
    loop {
        n += 1;
        if n > 1_000_000 {
            return None;
        }
        match cur {
            Val::Nil => return Some(out),
            Val::Pair(p) => {
                out.push(p.0.borrow().clone());
                let next = p.1.borrow().clone();
                cur = next;
            }
            _ => return None,
        }
    }
}

fn int_arg(v: &Val) -> Result<&BigInt, Stop> {
    match v {
        Val::Int(i) => Ok(i),
        _ => Err(Stop::Undetermined("expected integer".into())),
    }
}

/// eq? is only specified (and only generated) for symbols, booleans, (), and
/// objects with identity; anything else is Undetermined.
fn eq_q(a: &Val, b: &Val, eqv: bool) -> Result<bool, Stop> {
    Ok(match (a, b) {
        (Val::Sym(x), Val::Sym(y)) => x == y,
        (Val::Bool(x), Val::Bool(y)) => x == y,
        (Val::Nil, Val::Nil) => true,
        (Val::Pair(x), Val::Pair(y)) => Rc::ptr_eq(x, y),
        (Val::Vector(x), Val::Vector(y)) => {
            if x.borrow().is_empty() && y.borrow().is_empty() && !Rc::ptr_eq(x, y) {
                return undet("eq? on empty vectors");
            }
            Rc::ptr_eq(x, y)
        }
        (Val::Str(x), Val::Str(y)) => {
            if Rc::ptr_eq(x, y) {
                true
            } else if x.borrow().is_empty() && y.borrow().is_empty() {
                return undet("eq? on empty strings");
            } else {
                false
            }
        }
        (Val::Int(x), Val::Int(y)) => {
            if eqv {
                x == y
            } else {
                return undet("eq? on numbers");
            }
        }
        (Val::Char(x), Val::Char(y)) => {
            if eqv {
                x == y
            } else {
                return undet("eq? on characters");
            }
        }
        (Val::Closure(x), Val::Closure(y)) => {
            if Rc::ptr_eq(x, y) {
                true
            } else {
                return undet("eq? on procedures");
            }
        }
        (Val::Prim(_), Val::Prim(_)) | (Val::Cont(_), Val::Cont(_)) => return undet("eq? on procedures"),
        (Val::Unspec, _) | (_, Val::Unspec) | (Val::Undef, _) | (_, Val::Undef) => {
            return undet("eq? on unspecified value")
        }
        _ => false,
    })
}

fn equal_q(a: &Val, b: &Val, depth: usize) -> Result<bool, Stop> {
    if depth > 10_000 {
        return undet("equal? too deep");
    }
    match (a, b) {
        (Val::Pair(x), Val::Pair(y)) => {
            if Rc::ptr_eq(x, y) {
                return Ok(true);
            }
            let (xa, ya) = (x.0.borrow().clone(), y.0.borrow().clone());
            if !equal_q(&xa, &ya, depth + 1)? {
                return Ok(false);
            }
            let (xd, yd) = (x.1.borrow().clone(), y.1.borrow().clone());
            equal_q(&xd, &yd, depth + 1)
        }
        (Val::Vector(x), Val::Vector(y)) => {
            let (x, y) = (x.borrow(), y.borrow());
            if x.len() != y.len() {
                return Ok(false);
            }
            for (p, q) in x.iter().zip(y.iter()) {
                if !equal_q(p, q, depth + 1)? {
                    return Ok(false);
                }
            }
            Ok(true)
        }
        (Val::Str(x), Val::Str(y)) => Ok(*x.borrow() == *y.borrow()),
        (Val::Int(x), Val::Int(y)) => Ok(x == y),
        (Val::Char(x), Val::Char(y)) => Ok(x == y),
        _ => eq_q(a, b, true),
    }
}

fn is_simple_identifier(s: &str) -> bool {
    let mut chars = s.chars();
    match chars.next() {
        Some(c) if c.is_ascii_alphabetic() => {}
        _ => return false,
    }
    chars.all(|c| c.is_ascii_alphanumeric() || c == '-' || c == '?' || c == '!' || c == '*')
}

fn pure_prim(name: &'static str, a: &[Val]) -> Result<Val, Stop> {
    let need = |n: usize| -> Result<(), Stop> {
        if a.len() != n {
            Err(Stop::Undetermined(format!("{}: arity", name)))
        } else {
            Ok(())
        }
    };
    Ok(match name {
        "+" => {
            let mut s = BigInt::zero();
            for x in a {
                s += int_arg(x)?;
            }
            Val::Int(s)
        }
        "*" => {
            let mut s = BigInt::from(1);
            for x in a {
                let y = int_arg(x)?;
                // the step budget does not bound the size of numbers: repeated squaring
                // doubles the digits per step
                if s.bits() + y.bits() > (1 << 16) {
                    return undet("*: product too large for the reference");
                }
                s *= y;
            }
            Val::Int(s)
        }
        "-" => {
            if a.is_empty() {
                return undet("-: arity");
            }
            if a.len() == 1 {
                Val::Int(-int_arg(&a[0])?.clone())
            } else {
                let mut s = int_arg(&a[0])?.clone();
                for x in &a[1..] {
                    s -= int_arg(x)?;
                }
                Val::Int(s)
            }
        }
        "quotient" | "remainder" | "modulo" => {
            need(2)?;
            let (x, y) = (int_arg(&a[0])?, int_arg(&a[1])?);
            if y.is_zero() {
                return undet("division by zero");
            }
            Val::Int(match name {
                "quotient" => x / y,
                "remainder" => x % y,
                _ => x.mod_floor(y),
            })
        }
        "=" | "<" | ">" | "<=" | ">=" => {
            if a.len() < 2 {
                return undet("comparison arity");
            }
            let mut ok = true;
            for w in a.windows(2) {
                let (x, y) = (int_arg(&w[0])?, int_arg(&w[1])?);
                let r = match name {
                    "=" => x == y,
                    "<" => x < y,
                    ">" => x > y,
                    "<=" => x <= y,
                    _ => x >= y,
                };
                ok = ok && r;
            }
            Val::Bool(ok)
        }
        "zero?" => {
            need(1)?;
            Val::Bool(int_arg(&a[0])?.is_zero())
        }
        "positive?" => {
            need(1)?;
            Val::Bool(int_arg(&a[0])?.is_positive())
        }
        "negative?" => {
            need(1)?;
            Val::Bool(int_arg(&a[0])?.is_negative())
        }
        "even?" => {
            need(1)?;
            Val::Bool(int_arg(&a[0])?.is_even())
        }
        "odd?" => {
            need(1)?;
            Val::Bool(int_arg(&a[0])?.is_odd())
        }
        "abs" => {
            need(1)?;
            Val::Int(int_arg(&a[0])?.abs())
        }
        "min" | "max" => {
            if a.is_empty() {
                return undet("min/max arity");
            }
            let mut m = int_arg(&a[0])?.clone();
            for x in &a[1..] {
                let x = int_arg(x)?;
                if (name == "min" && *x < m) || (name == "max" && *x > m) {
                    m = x.clone();
                }
            }
            Val::Int(m)
        }
        "number?" | "integer?" => {
            need(1)?;
            Val::Bool(matches!(a[0], Val::Int(_)))
        }
        "not" => {
            need(1)?;
            Val::Bool(!a[0].truthy())
        }
        "eq?" => {
            need(2)?;
            Val::Bool(eq_q(&a[0], &a[1], false)?)
        }
        "eqv?" => {
            need(2)?;
            Val::Bool(eq_q(&a[0], &a[1], true)?)
        }
        "equal?" => {
            need(2)?;
            Val::Bool(equal_q(&a[0], &a[1], 0)?)
        }
        "cons" => {
            need(2)?;
            Val::cons(a[0].clone(), a[1].clone())
        }
        "car" | "cdr" => {
            need(1)?;
            match &a[0] {
                Val::Pair(p) => {
                    if name == "car" {
                        p.0.borrow().clone()
                    } else {
                        p.1.borrow().clone()
                    }
                }
                _ => return Err(Stop::Fail("car/cdr-of-non-pair")),
            }
        }
        "cadr" | "cddr" | "caar" | "cdar" => {
            need(1)?;
            let first = if &name[2..3] == "a" { "car" } else { "cdr" };
            let second = if &name[1..2] == "a" { "car" } else { "cdr" };
            let inner = pure_prim(if first == "car" { "car" } else { "cdr" }, a)?;
            pure_prim(if second == "car" { "car" } else { "cdr" }, &[inner])?
        }
        "set-car!" | "set-cdr!" => {
            need(2)?;
            match &a[0] {
                Val::Pair(p) => {
                    if name == "set-car!" {
                        *p.0.borrow_mut() = a[1].clone();
                    } else {
                        *p.1.borrow_mut() = a[1].clone();
                    }
                    Val::Unspec
                }
                _ => return undet("set-car!/set-cdr! of non-pair"),
            }
        }
        "list" => Val::list(a.to_vec(), Val::Nil),
        "length" => {
            need(1)?;
            match list_to_vec(&a[0]) {
                Some(v) => Val::int(v.len() as i64),
                None => return undet("length of improper list"),
            }
        }
        "append" => {
            if a.is_empty() {
                Val::Nil
            } else {
                let mut tail = a[a.len() - 1].clone();
                // the step budget does not bound the size of data: (append x x) in a loop doubles
                // a list per step
                let mut total = 0usize;
                for l in a[..a.len() - 1].iter().rev() {
                    let items = list_to_vec(l).ok_or(Stop::Undetermined("append: improper list".into()))?;
                    total += items.len();
                    if total > 50_000 {
                        return undet("append: list too long for the reference");
                    }
                    tail = Val::list(items, tail);
                }
                tail
            }
        }
        "reverse" => {
            need(1)?;
            let mut items = list_to_vec(&a[0]).ok_or(Stop::Undetermined("reverse: improper list".into()))?;
            items.reverse();
            Val::list(items, Val::Nil)
        }
        "list-tail" | "list-ref" => {
            need(2)?;
            let n = int_arg(&a[1])?.to_usize().ok_or(Stop::Undetermined("bad index".into()))?;
            let mut cur = a[0].clone();
            for _ in 0..n {
                cur = match cur {
                    Val::Pair(p) => p.1.borrow().clone(),
                    _ => return undet("list-tail/list-ref out of range"),
                };
            }
            if name == "list-tail" {
                cur
            } else {
                match cur {
                    Val::Pair(p) => p.0.borrow().clone(),
                    _ => return undet("list-ref out of range"),
                }
            }
        }
        "memq" | "memv" | "member" => {
            need(2)?;
            let mut cur = a[1].clone();
            loop {
                match cur {
                    Val::Nil => break Val::Bool(false),
                    Val::Pair(p) => {
                        let hit = {
                            let x = p.0.borrow();
                            match name {
                                "memq" => eq_q(&x, &a[0], false)?,
                                "memv" => eq_q(&x, &a[0], true)?,
                                _ => equal_q(&x, &a[0], 0)?,
                            }
                        };
                        if hit {
                            break Val::Pair(p);
                        }
                        let next = p.1.borrow().clone();
                        cur = next;
                    }
                    _ => return undet("mem*: improper list"),
                }
            }
        }
        "assq" | "assv" | "assoc" => {
            need(2)?;
            let mut cur = a[1].clone();
            loop {
                match cur {
                    Val::Nil => break Val::Bool(false),
                    Val::Pair(p) => {
                        let entry = p.0.borrow().clone();
                        match &entry {
                            Val::Pair(e) => {
                                let hit = {
                                    let x = e.0.borrow();
                                    match name {
                                        "assq" => eq_q(&x, &a[0], false)?,
                                        "assv" => eq_q(&x, &a[0], true)?,
                                        _ => equal_q(&x, &a[0], 0)?,
                                    }
                                };
                                if hit {
                                    break entry.clone();
                                }
                            }
                            _ => return undet("ass*: non-pair entry"),
                        }
                        let next = p.1.borrow().clone();
                        cur = next;
                    }
                    _ => return undet("ass*: improper list"),
                }
            }
        }
        "null?" => {
            need(1)?;
            Val::Bool(matches!(a[0], Val::Nil))
        }
        "pair?" => {
            need(1)?;
            Val::Bool(matches!(a[0], Val::Pair(_)))
        }
        "list?" => {
            need(1)?;
            Val::Bool(list_to_vec(&a[0]).is_some())
        }
        "vector" => Val::Vector(Rc::new(RefCell::new(a.to_vec()))),
        "make-vector" => {
            if a.len() != 2 {
                return undet("make-vector without fill");
            }
            let n = int_arg(&a[0])?.to_usize().ok_or(Stop::Undetermined("bad size".into()))?;
            if n > 100_000 {
                return undet("make-vector too large");
            }
            Val::Vector(Rc::new(RefCell::new(vec![a[1].clone(); n])))
        }
        "vector-ref" => {
            need(2)?;
            match (&a[0], &a[1]) {
                (Val::Vector(v), Val::Int(i)) => match i.to_usize().and_then(|i| v.borrow().get(i).cloned()) {
                    Some(x) => x,
                    None => return Err(Stop::Fail("vector-ref-out-of-range")),
                },
                _ => return undet("vector-ref types"),
            }
        }
        "vector-set!" => {
            need(3)?;
            match (&a[0], &a[1]) {
                (Val::Vector(v), Val::Int(i)) => {
                    let mut vb = v.borrow_mut();
                    match i.to_usize().filter(|i| *i < vb.len()) {
                        Some(i) => {
                            vb[i] = a[2].clone();
                            Val::Unspec
                        }
                        None => return undet("vector-set! out of range"),
                    }
                }
                _ => return undet("vector-set! types"),
            }
        }
        "vector-length" => {
            need(1)?;
            match &a[0] {
                Val::Vector(v) => Val::int(v.borrow().len() as i64),
                _ => return undet("vector-length type"),
            }
        }
        "vector->list" => {
            need(1)?;
            match &a[0] {
                Val::Vector(v) => Val::list(v.borrow().clone(), Val::Nil),
                _ => return undet("vector->list type"),
            }
        }
        "list->vector" => {
            need(1)?;
            match list_to_vec(&a[0]) {
                Some(v) => Val::Vector(Rc::new(RefCell::new(v))),
                None => return undet("list->vector of improper list"),
            }
        }
        "vector?" => {
            need(1)?;
            Val::Bool(matches!(a[0], Val::Vector(_)))
        }
        "vector-fill!" => {
            need(2)?;
            match &a[0] {
                Val::Vector(v) => {
                    for x in v.borrow_mut().iter_mut() {
                        *x = a[1].clone();
                    }
                    Val::Unspec
                }
                _ => return undet("vector-fill! type"),
            }
        }
        "string-length" => {
            need(1)?;
            match &a[0] {
                Val::Str(s) => Val::int(s.borrow().chars().count() as i64),
                _ => return undet("string-length type"),
            }
        }
        "string-append" => {
            if a.is_empty() {
                return undet("string-append with no arguments");
            }
            let mut out = String::new();
            for x in a {
                match x {
                    Val::Str(s) => out.push_str(&s.borrow()),
                    _ => return undet("string-append type"),
                }
                if out.len() > 200_000 {
                    return undet("string-append: string too long for the reference");
                }
            }
            Val::Str(Rc::new(RefCell::new(out)))
        }
        "string=?" => {
            need(2)?;
            match (&a[0], &a[1]) {
                (Val::Str(x), Val::Str(y)) => Val::Bool(*x.borrow() == *y.borrow()),
                _ => return undet("string=? type"),
            }
        }
        "string?" => {
            need(1)?;
            Val::Bool(matches!(a[0], Val::Str(_)))
        }
        "string-ref" => {
            need(2)?;
            match (&a[0], &a[1]) {
                (Val::Str(s), Val::Int(i)) => {
                    match i.to_usize().and_then(|i| s.borrow().chars().nth(i)) {
                        Some(c) => Val::Char(c),
                        None => return undet("string-ref out of range"),
                    }
                }
                _ => return undet("string-ref types"),
            }
        }
        "string->symbol" => {
            need(1)?;
            match &a[0] {
                Val::Str(s) if is_simple_identifier(&s.borrow()) => Val::Sym(sym(&s.borrow())),
                _ => return undet("string->symbol of a non-identifier string"),
            }
        }
        "symbol->string" => {
            need(1)?;
            match &a[0] {
                Val::Sym(s) if is_simple_identifier(s) => Val::Str(Rc::new(RefCell::new(s.to_string()))),
                _ => return undet("symbol->string of unusual symbol"),
            }
        }
        "number->string" => {
            need(1)?;
            Val::Str(Rc::new(RefCell::new(int_arg(&a[0])?.to_string())))
        }
        "char?" => {
            need(1)?;
            Val::Bool(matches!(a[0], Val::Char(_)))
        }
        "char->integer" => {
            need(1)?;
            match &a[0] {
                Val::Char(c) => Val::int(*c as i64),
                _ => return undet("char->integer type"),
            }
        }
        "char=?" => {
            need(2)?;
            match (&a[0], &a[1]) {
                (Val::Char(x), Val::Char(y)) => Val::Bool(x == y),
                _ => return undet("char=? type"),
            }
        }
        "symbol?" => {
            need(1)?;
            Val::Bool(matches!(a[0], Val::Sym(_)))
        }
        "procedure?" => {
            need(1)?;
            Val::Bool(a[0].is_proc())
        }
        "boolean?" => {
            need(1)?;
            Val::Bool(matches!(a[0], Val::Bool(_)))
        }
        "make-promise" => return undet("make-promise is not generated"),
        _ => return undet("unknown primitive"),
    })
}

#[cfg(test)]
mod tests {
    use super::*;
    use crate::sx::read_all;

    fn run(src: &str) -> Vec<String> {
        let mut ri = Ri::new();
        read_all(src)
            .unwrap()
            .iter()
            .map(|f| match ri.eval_top(f) {
                Outcome::Value(v) => v.to_string(),
                Outcome::Fail(k) => format!("FAIL:{}", k),
                Outcome::Undetermined(s) => format!("UNDET:{}", s),
                Outcome::Budget => "BUDGET".into(),
            })
            .collect()
    }

    #[test]
    fn basics() {
        assert_eq!(run("(+ 1 2) (let ((x 1) (y 2)) (* x y 5)) (let* ((x 1) (y (+ x 1))) (list x y))"), vec!["3", "10", "(1 2)"]);
        assert_eq!(run("(define (f . xs) xs) (f) (f 1 2) (apply f 1 '(2 3))"), vec!["#<unspecified>", "()", "(1 2)", "(1 2 3)"]);
        assert_eq!(run("(define (g a . r) (cons a r)) (g 1) (g 1 2 3) (g)"), vec!["#<unspecified>", "(1)", "(1 2 3)", "FAIL:wrong-number-of-arguments"]);
        assert_eq!(run("(cond ((assv 2 '((1 . a) (2 . b))) => cdr) (else 'no)) (case 3 ((1 2) 'low) ((3 4) 'mid) (else 'hi)) (case 9 ((1) 1) (else => (lambda (x) (* x 2))))"), vec!["b", "mid", "18"]);
        assert_eq!(run("(let loop ((i 0) (acc '())) (if (< i 3) (loop (+ i 1) (cons i acc)) acc))"), vec!["(2 1 0)"]);
        assert_eq!(run("(letrec ((ev? (lambda (n) (if (= n 0) #t (od? (- n 1))))) (od? (lambda (n) (if (= n 0) #f (ev? (- n 1)))))) (ev? 10))"), vec!["#t"]);
        assert_eq!(run("(define x 1) (define (f) x) (define x 2) (f) y (car '()) (vector-ref (vector 1) 1) (1 2)"), vec!["#<unspecified>", "#<unspecified>", "#<unspecified>", "2", "FAIL:unbound-variable", "FAIL:car/cdr-of-non-pair", "FAIL:vector-ref-out-of-range", "FAIL:call-of-non-procedure"]);
        assert_eq!(run("(and 1 2) (and) (or #f 3) (or) (when #f 1) (unless #f 1 2) (begin 1 2 3)"), vec!["2", "#t", "3", "#f", "#<unspecified>", "2", "3"]);
        assert_eq!(run("(define (f x) (define y (* x 2)) (define (g) (+ x y)) (g)) (f 3)"), vec!["#<unspecified>", "9"]);
        assert_eq!(run("(map + '(1 2 3) '(10 20 30)) (map (lambda (x) (* x x)) '(1 2 3)) (let ((s 0)) (for-each (lambda (x) (set! s (+ s x))) '(1 2 3)) s)"), vec!["(11 22 33)", "(1 4 9)", "6"]);
    }

    #[test]
    fn quasi() {
        assert_eq!(run("(let ((x 5)) `(a ,x (b ,(+ x 1)) #(1 ,x) . ,x))"), vec!["(a 5 (b 6) #(1 5) . 5)"]);
        assert_eq!(run("`(a `(b ,(c ,(+ 1 2))))"), vec!["(a (quasiquote (b (unquote (c 3)))))"]);
        assert_eq!(run("`(1 . ,(+ 1 1))"), vec!["(1 . 2)"]);
        assert_eq!(run("(define (f) `#(1 ,2)) (f) (f)"), vec!["#<unspecified>", "#(1 2)", "#(1 2)"]);
    }

    #[test]
    fn continuations() {
        assert_eq!(run("(+ 1 (call/cc (lambda (k) (+ 10 (k 1)))))"), vec!["2"]);
        // generator-style re-entry across forms (REPL semantics)
        assert_eq!(
            run("(define k #f) (define n 0) (+ 100 (call/cc (lambda (c) (set! k c) 1))) (begin (set! n (+ n 1)) (if (< n 3) (k n) 'done))"),
            vec!["#<unspecified>", "#<unspecified>", "101", "101"]
        );
        assert_eq!(run("(define r '()) (define k #f) (define (note x) (set! r (cons x r)) x) (list (note 1) (call/cc (lambda (c) (set! k c) (note 2))) (note 3)) (if (< (length r) 6) (k 9) r)"),
            vec!["#<unspecified>", "#<unspecified>", "#<unspecified>", "(1 2 3)", "(1 9 3)"]);
        assert_eq!(run("(define p (delay (begin (display 1) 7))) (force p) (force p)"), vec!["#<unspecified>", "7", "7"]);
        assert_eq!(run("(eval '(+ 1 2)) (eval (list 'define 'zz 5)) zz"), vec!["3", "#<unspecified>", "5"]);
    }
}
