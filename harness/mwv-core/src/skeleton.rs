//! Scope skeletons for C02: nests of 1-4 procedures over the names a, b, c.
//! Each level binds each name as a parameter, the rest parameter, an internal
//! define, a let variable, or leaves it free (globals a b c exist). Reads go
//! through `(probe 'tag x)`, which appends (tag . value) to a global log;
//! writes are `(set! x 'unique)`. The inner closure is created after the
//! pre-statements, called inside its creator before and after further writes,
//! returned, and invoked again after its creator returned (twice: separate
//! activations must get separate locations). The value of the program is the
//! log; the oracle is the reference interpreter.
//!
//! The decoder draws every decision from a `chooser`, so the same code serves
//! exhaustive enumeration (odometer over the decision tree) and random sampling.

use crate::sx::Sx;

pub const NAMES: [&str; 3] = ["a", "b", "c"];

#[derive(Clone, Copy, Debug, PartialEq, Eq)]
pub enum Mode {
    Free,
    Param,
    Define,
    Let,
    Rest,
}

#[derive(Clone, Copy, Debug, PartialEq, Eq)]
pub enum Action {
    /// the level's own code never mentions the name (apart from a let initialiser)
    Untouched,
    Read,
    /// assigned before the inner closure is created, then read
    WriteBeforeCapture,
    /// read, then assigned after the inner closure exists (and was called once)
    WriteAfterCapture,
}

#[derive(Clone, Debug)]
pub struct Level {
    pub modes: Vec<Mode>,
    pub actions: Vec<Action>,
}

#[derive(Clone, Debug)]
pub struct Skeleton {
    pub levels: Vec<Level>,
    pub names: usize,
    /// how a read of a name is spelled (index into REF_STYLES); 0 = the bare name
    pub ref_style: usize,
}

/// Spellings of a variable reference: the free-variable analysis has separate code for
/// quasiquote templates (element, dotted tail, vector), for operator-position lambdas
/// (`let`) and for nested thunks. `@` stands for the name.
pub const REF_STYLES: [&str; 7] = [
    "@",
    "(car `(,@))",
    "(cdr `(0 . ,@))",
    "(vector-ref `#(,@) 0)",
    "(let ((c02-t @)) c02-t)",
    "((lambda () @))",
    "(cond (#f 0) (else @))",
];

pub struct Bounds {
    pub max_levels: usize,
    pub names: usize,
    /// number of binding modes enumerated: 3 = free/param/define, 4 adds let (whose
    /// initialiser reads the outer binding of the same name), 5 adds rest
    pub modes: usize,
    /// number of actions enumerated: 2 = untouched/write-after-capture, 4 = all
    pub actions: usize,
}

pub fn decode(choose: &mut dyn FnMut(usize) -> usize, b: &Bounds) -> Skeleton {
    let nlevels = 1 + choose(b.max_levels);
    let mut levels = vec![];
    for _ in 0..nlevels {
        let mut modes = vec![];
        let mut actions = vec![];
        let mut have_rest = false;
        for _ in 0..b.names {
            let m = match choose(b.modes) {
                0 => Mode::Free,
                1 => Mode::Param,
                2 => {
                    if b.modes == 3 {
                        Mode::Let
                    } else {
                        Mode::Define
                    }
                }
                3 => Mode::Let,
                _ => {
                    if have_rest {
                        Mode::Param
                    } else {
                        have_rest = true;
                        Mode::Rest
                    }
                }
            };
            modes.push(m);
            let a = if b.actions == 2 {
                [Action::Untouched, Action::WriteAfterCapture][choose(2)]
            } else {
                [Action::Read, Action::Untouched, Action::WriteBeforeCapture, Action::WriteAfterCapture][choose(4)]
            };
            actions.push(a);
        }
        levels.push(Level { modes, actions });
    }
    Skeleton { levels, names: b.names, ref_style: 0 }
}

/// `decode` preceded by the choice of a reference spelling among the first `styles`.
pub fn decode_styled(choose: &mut dyn FnMut(usize) -> usize, b: &Bounds, styles: usize) -> Skeleton {
    let style = choose(styles.min(REF_STYLES.len()).max(1));
    let mut sk = decode(choose, b);
    sk.ref_style = style;
    sk
}

fn s(x: &str) -> Sx {
    Sx::sym(x)
}
fn q(x: &str) -> Sx {
    Sx::quote(Sx::sym(x))
}
fn call(h: &str, a: Vec<Sx>) -> Sx {
    Sx::call(h, a)
}

impl Skeleton {
    pub fn has_shadowing(&self) -> bool {
        (0..self.names).any(|n| self.levels.iter().filter(|l| l.modes[n] != Mode::Free).count() >= 2)
    }

    pub fn captured_assigned_after_capture(&self) -> bool {
        self.levels.len() >= 2
            && self.levels[..self.levels.len() - 1]
                .iter()
                .any(|l| l.actions.iter().any(|a| *a == Action::WriteAfterCapture))
    }

    pub fn id(&self) -> String {
        let base = self.shape_id();
        if self.ref_style == 0 {
            base
        } else {
            format!("{}|reads-as:{}", base, REF_STYLES[self.ref_style % REF_STYLES.len()])
        }
    }

    fn shape_id(&self) -> String {
        self.levels
            .iter()
            .map(|l| {
                l.modes
                    .iter()
                    .zip(l.actions.iter())
                    .map(|(m, a)| {
                        let m = match m {
                            Mode::Free => 'f',
                            Mode::Param => 'p',
                            Mode::Define => 'd',
                            Mode::Let => 'l',
                            Mode::Rest => 'r',
                        };
                        let a = match a {
                            Action::Untouched => '-',
                            Action::Read => 'r',
                            Action::WriteBeforeCapture => 'b',
                            Action::WriteAfterCapture => 'a',
                        };
                        format!("{}{}", m, a)
                    })
                    .collect::<String>()
            })
            .collect::<Vec<_>>()
            .join("/")
    }

    fn reference(&self, name: &str) -> Sx {
        if self.ref_style == 0 {
            return s(name);
        }
        // `,@` in the table would read as unquote-splicing: substitute before reading
        let text = REF_STYLES[self.ref_style % REF_STYLES.len()].replace(",@", &format!(", {}", name)).replace('@', name);
        crate::sx::read(&text).expect("reference style parses")
    }

    fn reads(&self, lvl: usize, when: &str, which: &dyn Fn(Action) -> bool) -> Vec<Sx> {
        (0..self.names)
            .filter(|n| lvl >= self.levels.len() || which(self.levels[lvl].actions[*n]))
            .map(|n| call("probe", vec![q(&format!("L{}-{}-{}", lvl, when, NAMES[n])), self.reference(NAMES[n])]))
            .collect()
    }

    fn writes(&self, lvl: usize, when: &str, which: &dyn Fn(Action) -> bool) -> Vec<Sx> {
        (0..self.names)
            .filter(|n| which(self.levels[lvl].actions[*n]))
            .map(|n| call("set!", vec![s(NAMES[n]), q(&format!("w{}-{}-{}", lvl, when, NAMES[n]))]))
            .collect()
    }

    /// arguments for calling level `lvl` (0-based): parameters in name order, then two rest arguments
    fn args_for(&self, lvl: usize, tag: &str) -> Vec<Sx> {
        let l = &self.levels[lvl];
        let mut params = vec![];
        let mut rest = vec![];
        for n in 0..self.names {
            match l.modes[n] {
                Mode::Param => params.push(q(&format!("arg{}-{}-{}", lvl, tag, NAMES[n]))),
                Mode::Rest => {
                    rest.push(q(&format!("rest{}-{}-1", lvl, tag)));
                    rest.push(q(&format!("rest{}-{}-2", lvl, tag)));
                }
                _ => {}
            }
        }
        params.extend(rest);
        params
    }

    fn lambda(&self, lvl: usize) -> Sx {
        let l = &self.levels[lvl];
        let last = lvl + 1 == self.levels.len();
        let params: Vec<Sx> = (0..self.names).filter(|n| l.modes[*n] == Mode::Param).map(|n| s(NAMES[n])).collect();
        let rest = (0..self.names).find(|n| l.modes[*n] == Mode::Rest).map(|n| s(NAMES[n]));
        let formals = match rest {
            None => Sx::List(params),
            Some(r) => {
                if params.is_empty() {
                    r
                } else {
                    Sx::Dotted(params, Box::new(r))
                }
            }
        };
        let mut body: Vec<Sx> = vec![];
        for n in 0..self.names {
            if l.modes[n] == Mode::Define {
                body.push(call("define", vec![s(NAMES[n]), q(&format!("def{}-{}", lvl, NAMES[n]))]));
            }
        }
        let touched = |a: Action| a != Action::Untouched;
        let before = |a: Action| a == Action::WriteBeforeCapture;
        let after = |a: Action| a == Action::WriteAfterCapture;
        let mut stmts: Vec<Sx> = vec![];
        stmts.extend(self.writes(lvl, "pre", &before));
        stmts.extend(self.reads(lvl, "pre", &touched));
        if last {
            stmts.extend(self.writes(lvl, "in", &after));
            stmts.extend(self.reads(lvl, "post", &touched));
            stmts.push(q(&format!("done{}", lvl)));
        } else {
            let inner = self.lambda(lvl + 1);
            let call_inner = |tag: &str| -> Sx {
                let mut v = vec![s("inner")];
                v.extend(self.args_for(lvl + 1, tag));
                Sx::List(v)
            };
            let mut inside: Vec<Sx> = vec![call_inner("x")];
            inside.extend(self.writes(lvl, "mid", &after));
            inside.push(call_inner("y"));
            inside.extend(self.reads(lvl, "post", &touched));
            inside.push(s("inner"));
            let mut letf = vec![s("let"), Sx::List(vec![Sx::List(vec![s("inner"), inner])])];
            letf.extend(inside);
            stmts.push(Sx::List(letf));
        }
        // let-bound names wrap the statements; the initialiser reads the OUTER binding of the same name
        let lets: Vec<Sx> = (0..self.names)
            .filter(|n| l.modes[*n] == Mode::Let)
            .map(|n| Sx::List(vec![s(NAMES[n]), call("cons", vec![q(&format!("let{}", lvl)), s(NAMES[n])])]))
            .collect();
        if !lets.is_empty() {
            let mut letf = vec![s("let"), Sx::List(lets)];
            letf.extend(stmts);
            body.push(Sx::List(letf));
        } else {
            body.extend(stmts);
        }
        let mut v = vec![s("lambda"), formals];
        v.extend(body);
        Sx::List(v)
    }

    /// The whole program: setup forms + driver; the last form yields the log.
    pub fn program(&self) -> Vec<Sx> {
        let mut forms = vec![];
        for n in 0..self.names {
            forms.push(call("define", vec![s(NAMES[n]), q(&format!("global-{}", NAMES[n]))]));
        }
        forms.push(call("define", vec![s("log"), Sx::quote(Sx::List(vec![]))]));
        forms.push(crate::sx::read("(define (probe tag x) (set! log (cons (cons tag x) log)) x)").unwrap());
        forms.push(call("define", vec![s("c0"), self.lambda(0)]));
        // invoke the chain: c1 = (c0 args) ... each level returns its inner closure
        let n = self.levels.len();
        for i in 0..n {
            let mut callf = vec![s(&format!("c{}", i))];
            callf.extend(self.args_for(i, "t"));
            forms.push(call("define", vec![s(&format!("c{}", i + 1)), Sx::List(callf)]));
        }
        // second activations, after the creators returned, innermost first ...
        for i in (0..n).rev() {
            let mut callf = vec![s(&format!("c{}", i))];
            callf.extend(self.args_for(i, "u"));
            forms.push(Sx::List(callf));
        }
        // ... and once more outermost first: closures of the FIRST activations are used
        // after later activations of their creators ran (locations must be per activation)
        for i in 0..n {
            let mut callf = vec![s(&format!("c{}", i))];
            callf.extend(self.args_for(i, "v"));
            forms.push(Sx::List(callf));
        }
        let all = |_a: Action| true;
        forms.extend(self.reads(9, "top", &all));
        forms.push(call("reverse", vec![s("log")]));
        forms
    }
}

/// Exhaustive enumeration of a decoder's decision tree (odometer).
pub struct Odometer {
    digits: Vec<usize>,
    radices: Vec<usize>,
    pos: usize,
    pub done: bool,
}

impl Odometer {
    pub fn new() -> Odometer {
        Odometer { digits: vec![], radices: vec![], pos: 0, done: false }
    }
    pub fn start(&mut self) {
        self.pos = 0;
    }
    pub fn choose(&mut self, n: usize) -> usize {
        let n = n.max(1);
        if self.pos >= self.digits.len() {
            self.digits.push(0);
            self.radices.push(n);
        } else {
            self.radices[self.pos] = n;
        }
        let v = self.digits[self.pos].min(n - 1);
        self.pos += 1;
        v
    }
    /// advance to the next decision vector; returns false when exhausted
    pub fn next(&mut self) -> bool {
        self.digits.truncate(self.pos);
        self.radices.truncate(self.pos);
        while let Some(d) = self.digits.pop() {
            let r = self.radices.pop().unwrap();
            if d + 1 < r {
                self.digits.push(d + 1);
                self.radices.push(r);
                return true;
            }
        }
        self.done = true;
        false
    }
}

impl Default for Odometer {
    fn default() -> Self {
        Odometer::new()
    }
}

/// Closures created in a loop and a getter/setter pair: extra families.
pub fn family_programs() -> Vec<(String, Vec<Sx>)> {
    let mut out = vec![];
    let srcs: [(&str, &str); 8] = [
        ("loop-named-let", "(define (make n) (let loop ((i 0) (acc '())) (if (< i n) (loop (+ i 1) (cons (lambda () i) acc)) acc))) (map (lambda (f) (f)) (make 4))"),
        ("loop-map", "(define fs (map (lambda (x) (lambda (d) (set! x (+ x d)) x)) '(10 20 30))) (list ((car fs) 1) ((car fs) 1) ((cadr fs) 5) ((car fs) 1) ((car (cddr fs)) 0))"),
        ("getter-setter", "(define (cell v) (cons (lambda () v) (lambda (n) (set! v n)))) (define c1 (cell 1)) (define c2 (cell 2)) ((cdr c1) 10) (list ((car c1)) ((car c2)))"),
        ("getter-setter-define", "(define (cell v) (define (get) v) (define (put n) (set! v n)) (list get put)) (define c (cell 'a)) ((cadr c) 'b) (define d (cell 'z)) ((cadr d) 'y) (list ((car c)) ((car d)))"),
        ("counter-shared-by-two", "(define (mk) (let ((n 0)) (list (lambda () (set! n (+ n 1)) n) (lambda () (set! n (+ n 10)) n)))) (define p (mk)) (define q (mk)) ((car p)) ((cadr p)) ((car q)) (list ((car p)) ((cadr q)))"),
        ("rest-param-capture", "(define (f . r) (lambda () (set! r (cdr r)) r)) (define g (f 1 2 3)) (g) (list (g) ((f 7 8)))"),
        ("shadow-depth-3", "(define x 'g) (define (f x) (lambda (y) (lambda (x) (list x y)))) (define (g x) (lambda (y) (lambda (z) (list x y z)))) (list (((f 1) 2) 3) (((g 1) 2) 3) x)"),
        ("set-after-return", "(define (f) (define v 0) (define (inc) (set! v (+ v 1)) v) inc) (define i1 (f)) (define i2 (f)) (i1) (i1) (list (i1) (i2))"),
    ];
    for (name, src) in srcs.iter() {
        out.push((name.to_string(), crate::sx::read_all(src).unwrap()));
    }
    out
}
