//! Reference **store models** for the container procedures (C14: pairs, lists,
//! vectors; C15: strings and characters), the generators of operation
//! sequences, and the renderer that turns a sequence into a *script*: a list of
//! Scheme forms with, for each form, what R7RS allows as its outcome, the full
//! expected contents of every pool object afterwards, and identity audits.
//!
//! Nothing in here knows the system under test. A script is executed by
//! `mwv/src/props/script.rs`.
//!
//! A case is a list of `Step`s. A step is `(op arg ...)`, optionally stored into
//! a pool global (`(define p3 (cdr p1))`). Arguments are pool references or
//! scalar literals only, so a case prints as plain Scheme text and reads back
//! (with the harness' own reader) into the same steps: replay files carry that
//! text, never the choice bytes.

use crate::sx::Sx;
use num::bigint::BigInt;
use num::ToPrimitive;

/// What the system under test may do with one form.
#[derive(Clone, Debug)]
pub enum Expect {
    /// must return one of these values (strict structural comparison;
    /// `Sx::Opaque("unspecified")` inside a value is a wildcard)
    Value(Vec<Sx>),
    /// R7RS says "it is an error" but a sensible answer exists: that answer or an error
    ValueOrError(Vec<Sx>),
    /// must report an error (any message); a value is a wrong answer
    Error,
    /// must return normally; the value is unspecified
    AnyValue,
    /// anything but a panic
    AnyOutcome,
    /// must have the same outcome as this other form evaluated by the SUT itself
    /// (metamorphic relation): both errors, or both the same value
    SameAs(Sx),
}

#[derive(Clone, Debug)]
pub struct Audit {
    pub form: Sx,
    pub expect: bool,
    pub what: String,
}

#[derive(Clone, Debug)]
pub struct ScriptStep {
    /// forms evaluated before `form`; they must succeed
    pub pre: Vec<Sx>,
    pub form: Sx,
    pub expect: Expect,
    /// evaluated after a successful `form`: (form, expected value)
    pub post: Option<(Sx, Sx)>,
    /// every defined pool global and its full expected contents after the step
    pub pool_after: Vec<(String, Sx)>,
    pub audits: Vec<Audit>,
    pub op: &'static str,
    /// input-derived class of the arguments (boundary predicates, shapes)
    pub class: String,
    /// the model mutates an existing object in this step
    pub mutator: bool,
    /// the pool global this step defines, if any
    pub stored: Option<String>,
    /// a wrong outcome of this step can leave model and SUT in different states
    pub diverges: bool,
    pub nontrivial: bool,
}

#[derive(Clone, Debug, Default)]
pub struct Script {
    pub prelude: Vec<Sx>,
    pub steps: Vec<ScriptStep>,
}

/// Generator statistics of one case (what was skipped and why).
#[derive(Clone, Debug, Default)]
pub struct GenStats {
    pub skipped_cycle: u32,
    pub skipped_size: u32,
    pub damped: u32,
    pub no_candidate: u32,
}

pub fn big(i: i128) -> Sx {
    Sx::Int(BigInt::from(i))
}

pub fn quote_sym(s: &str) -> Sx {
    Sx::quote(Sx::sym(s))
}

/// Index class relative to a length: the boundary predicate part of a signature.
pub fn index_class(i: i128, len: usize) -> &'static str {
    let len = len as i128;
    if i < 0 {
        "neg"
    } else if len == 0 && i == 0 {
        "0=len"
    } else if i == 0 {
        "0"
    } else if i < len - 1 {
        "mid"
    } else if i == len - 1 {
        "last"
    } else if i == len {
        "len"
    } else if i == len + 1 {
        "len+1"
    } else if i > (1i128 << 32) {
        "huge"
    } else {
        "far"
    }
}

pub fn is_boundary_class(c: &str) -> bool {
    matches!(c, "0" | "0=len" | "last" | "len" | "len+1")
}

/// Candidate indices around a length, boundary-heavy.
pub fn pick_index(c: &mut crate::choice::Choices, len: usize) -> i128 {
    let len = len as i128;
    let w = c.weighted(&[18, 14, 14, 14, 8, 10, 6, 4, 2, 2]);
    match w {
        0 => 0,
        1 => (len - 1).max(0),
        2 => len,
        3 => {
            if len > 0 {
                c.below(len as usize) as i128
            } else {
                0
            }
        }
        4 => len + 1,
        5 => 1,
        6 => -1,
        7 => len + 7,
        8 => 1i128 << 40,
        _ => (1i128 << 64) + 5,
    }
}

// =====================================================================
// C14: pairs, lists, vectors, scalars
// =====================================================================
pub mod lv {
    use super::*;
    use crate::choice::Choices;
    use std::cell::RefCell;
    use std::collections::{BTreeMap, BTreeSet};
    use std::rc::Rc;

    pub const POOL: usize = 8;
    pub const MAX_OPS: usize = 12;
    pub const MAX_NODES: usize = 160;
    pub const PROBE: &str = "probe-mark";

    pub type Id = u32;

    #[derive(Clone)]
    pub enum Val {
        Int(i128),
        Bool(bool),
        Char(char),
        Sym(String),
        Nil,
        Pair(Rc<PairObj>),
        Vector(Rc<VecObj>),
    }

    pub struct PairObj {
        pub id: Id,
        pub car: RefCell<Val>,
        pub cdr: RefCell<Val>,
    }

    pub struct VecObj {
        pub id: Id,
        pub items: RefCell<Vec<Val>>,
    }

    impl Val {
        pub fn kind(&self) -> &'static str {
            match self {
                Val::Pair(_) => "pair",
                Val::Vector(_) => "vector",
                _ => "scalar",
            }
        }
        pub fn obj_id(&self) -> Option<Id> {
            match self {
                Val::Pair(p) => Some(p.id),
                Val::Vector(v) => Some(v.id),
                _ => None,
            }
        }
    }

    /// eqv? on the restricted key domain, identity on pairs and vectors
    pub fn same(a: &Val, b: &Val) -> bool {
        match (a, b) {
            (Val::Int(x), Val::Int(y)) => x == y,
            (Val::Bool(x), Val::Bool(y)) => x == y,
            (Val::Char(x), Val::Char(y)) => x == y,
            (Val::Sym(x), Val::Sym(y)) => x == y,
            (Val::Nil, Val::Nil) => true,
            (Val::Pair(x), Val::Pair(y)) => x.id == y.id,
            (Val::Vector(x), Val::Vector(y)) => x.id == y.id,
            _ => false,
        }
    }

    /// equal? (R7RS 6.1): recursive on pairs and vectors, eqv? otherwise
    pub fn equal(a: &Val, b: &Val) -> bool {
        match (a, b) {
            (Val::Pair(x), Val::Pair(y)) => {
                x.id == y.id
                    || (equal(&x.car.borrow(), &y.car.borrow())
                        && equal(&x.cdr.borrow(), &y.cdr.borrow()))
            }
            (Val::Vector(x), Val::Vector(y)) => {
                if x.id == y.id {
                    return true;
                }
                let xi = x.items.borrow();
                let yi = y.items.borrow();
                xi.len() == yi.len() && xi.iter().zip(yi.iter()).all(|(p, q)| equal(p, q))
            }
            _ => same(a, b),
        }
    }

    /// the pairs of the cdr-chain and what it ends in
    pub fn spine(v: &Val) -> (Vec<Rc<PairObj>>, Val) {
        let mut pairs = vec![];
        let mut cur = v.clone();
        loop {
            let next = match &cur {
                Val::Pair(p) => {
                    pairs.push(p.clone());
                    p.cdr.borrow().clone()
                }
                _ => return (pairs, cur),
            };
            cur = next;
        }
    }

    pub fn shape(v: &Val) -> &'static str {
        let (pairs, tail) = spine(v);
        match (pairs.is_empty(), &tail) {
            (true, Val::Nil) => "nil",
            (false, Val::Nil) => "proper",
            (true, _) => "nonlist",
            (false, _) => "improper",
        }
    }

    /// kinds of non-list tails ("symbol", "vector") of improper lists anywhere inside `v`
    pub fn improper_tails(v: &Val, out: &mut BTreeSet<&'static str>) {
        match v {
            Val::Pair(_) => {
                let (pairs, tail) = spine(v);
                match &tail {
                    Val::Sym(_) => {
                        out.insert("symbol");
                    }
                    Val::Vector(_) => {
                        out.insert("vector");
                        improper_tails(&tail, out);
                    }
                    _ => {}
                }
                for p in pairs.iter() {
                    improper_tails(&p.car.borrow(), out);
                }
            }
            Val::Vector(x) => {
                for i in x.items.borrow().iter() {
                    improper_tails(i, out);
                }
            }
            _ => {}
        }
    }

    pub fn reaches(from: &Val, target: Id) -> bool {
        match from {
            Val::Pair(p) => {
                p.id == target || reaches(&p.car.borrow(), target) || reaches(&p.cdr.borrow(), target)
            }
            Val::Vector(v) => v.id == target || v.items.borrow().iter().any(|x| reaches(x, target)),
            _ => false,
        }
    }

    /// tree-unfolded size, counting stops at `cap`
    pub fn size(v: &Val, cap: usize, acc: &mut usize) {
        *acc += 1;
        if *acc > cap {
            return;
        }
        match v {
            Val::Pair(p) => {
                size(&p.car.borrow(), cap, acc);
                size(&p.cdr.borrow(), cap, acc);
            }
            Val::Vector(x) => {
                for i in x.items.borrow().iter() {
                    size(i, cap, acc);
                    if *acc > cap {
                        return;
                    }
                }
            }
            _ => {}
        }
    }

    pub fn to_sx(v: &Val) -> Sx {
        match v {
            Val::Int(i) => big(*i),
            Val::Bool(b) => Sx::Bool(*b),
            Val::Char(c) => Sx::Char(*c),
            Val::Sym(s) => Sx::Sym(s.clone()),
            Val::Nil => Sx::List(vec![]),
            Val::Vector(x) => Sx::Vector(x.items.borrow().iter().map(to_sx).collect()),
            Val::Pair(_) => {
                let (pairs, tail) = spine(v);
                let items: Vec<Sx> = pairs.iter().map(|p| to_sx(&p.car.borrow())).collect();
                match tail {
                    Val::Nil => Sx::List(items),
                    t => Sx::Dotted(items, Box::new(to_sx(&t))),
                }
            }
        }
    }

    #[derive(Clone, Debug, PartialEq)]
    pub enum Arg {
        P(usize),
        Int(i128),
        Bool(bool),
        Char(char),
        Sym(String),
        Nil,
        Fn(&'static str),
    }

    #[derive(Clone, Debug, PartialEq)]
    pub struct Step {
        pub op: &'static str,
        pub args: Vec<Arg>,
        pub store: Option<usize>,
    }

    pub const OPS: &[&str] = &[
        "const", "cons", "car", "cdr", "set-car!", "set-cdr!", "list", "length", "append", "reverse",
        "list-tail", "list-ref", "memq", "memv", "member", "assq", "assv", "assoc", "map", "for-each",
        "list?", "vector", "make-vector", "make-vector/1", "vector-length", "vector-ref", "vector-set!",
        "vector-fill!", "vector->list", "list->vector", "vector-copy", "vector-copy!", "equal?",
    ];
    /// callbacks: `id` and `rec` are defined by the script prelude, the others are the builtins
    pub const FNS: &[&str] = &["id", "cons", "list", "vector", "rec"];

    pub fn op_name(s: &str) -> Option<&'static str> {
        OPS.iter().find(|o| **o == s).copied()
    }
    pub fn fn_name(s: &str) -> Option<&'static str> {
        FNS.iter().find(|o| **o == s).copied()
    }

    pub fn pool_name(i: usize) -> String {
        format!("p{}", i)
    }

    pub fn arg_sx(a: &Arg) -> Sx {
        match a {
            Arg::P(i) => Sx::Sym(pool_name(*i)),
            Arg::Int(i) => big(*i),
            Arg::Bool(b) => Sx::Bool(*b),
            Arg::Char(c) => Sx::Char(*c),
            Arg::Sym(s) => quote_sym(s),
            Arg::Nil => Sx::quote(Sx::nil()),
            Arg::Fn(f) => Sx::sym(f),
        }
    }

    pub fn step_expr(s: &Step) -> Sx {
        let args: Vec<Sx> = s.args.iter().map(arg_sx).collect();
        match s.op {
            "const" => args.into_iter().next().unwrap_or_else(|| Sx::quote(Sx::nil())),
            "make-vector/1" => Sx::call("vector-length", vec![Sx::call("make-vector", args)]),
            op => Sx::call(op, args),
        }
    }

    pub fn step_form(s: &Step) -> Sx {
        let e = step_expr(s);
        match s.store {
            Some(k) => Sx::call("define", vec![Sx::Sym(pool_name(k)), e]),
            None => e,
        }
    }

    pub fn render_steps(steps: &[Step]) -> String {
        let mut out = String::new();
        for s in steps {
            step_form(s).write_to(&mut out);
            out.push('\n');
        }
        out
    }

    fn parse_arg(x: &Sx) -> Result<Arg, String> {
        match x {
            Sx::Int(i) => i.to_i128().map(Arg::Int).ok_or_else(|| "integer too large".to_string()),
            Sx::Bool(b) => Ok(Arg::Bool(*b)),
            Sx::Char(c) => Ok(Arg::Char(*c)),
            Sx::Sym(s) => {
                if let Some(n) = s.strip_prefix('p').and_then(|r| r.parse::<usize>().ok()) {
                    if n < POOL {
                        return Ok(Arg::P(n));
                    }
                }
                fn_name(s).map(Arg::Fn).ok_or_else(|| format!("unknown name {}", s))
            }
            Sx::List(v) if v.len() == 2 && v[0].as_sym() == Some("quote") => match &v[1] {
                Sx::Sym(s) => Ok(Arg::Sym(s.clone())),
                Sx::List(e) if e.is_empty() => Ok(Arg::Nil),
                o => Err(format!("unsupported quoted datum {}", o)),
            },
            o => Err(format!("unsupported argument {}", o)),
        }
    }

    fn parse_expr(x: &Sx, store: Option<usize>) -> Result<Step, String> {
        match x {
            Sx::List(v) if !v.is_empty() && v[0].as_sym() != Some("quote") => {
                let head = v[0].as_sym().ok_or("operator is not a symbol")?;
                if head == "vector-length" && v.len() == 2 && v[1].head_is("make-vector") {
                    let inner = v[1].as_list().unwrap();
                    let args = inner[1..].iter().map(parse_arg).collect::<Result<Vec<_>, _>>()?;
                    return Ok(Step { op: "make-vector/1", args, store });
                }
                let op = op_name(head).ok_or_else(|| format!("unknown operation {}", head))?;
                let args = v[1..].iter().map(parse_arg).collect::<Result<Vec<_>, _>>()?;
                Ok(Step { op, args, store })
            }
            other => Ok(Step { op: "const", args: vec![parse_arg(other)?], store }),
        }
    }

    pub fn parse_script(text: &str) -> Result<Vec<Step>, String> {
        let forms = crate::sx::read_all(text)?;
        let mut steps = vec![];
        for f in forms.iter() {
            if f.head_is("define") {
                let v = f.as_list().unwrap();
                if v.len() != 3 {
                    return Err("bad define".into());
                }
                let k = match parse_arg(&v[1])? {
                    Arg::P(k) => k,
                    _ => return Err("define of a non-pool name".into()),
                };
                steps.push(parse_expr(&v[2], Some(k))?);
            } else {
                steps.push(parse_expr(f, None)?);
            }
        }
        Ok(steps)
    }

    /// outcome of one operation in the model
    pub enum Res {
        Val(Val),
        /// mutator or for-each: returns normally, value unspecified
        Unspec,
        MustErr,
        /// "it is an error", sensible answer exists
        Lenient(Option<Val>),
        /// step cannot be executed by the model (undefined slot, cycle, arity): the case is discarded
        Invalid(String),
    }

    pub struct Store {
        pub pool: Vec<Option<Val>>,
        pub log: Vec<Val>,
        next: Id,
        /// edges seen by the previous audit (container id, slot, target id)
        seen_edges: BTreeSet<(Id, usize, Id)>,
    }

    fn idx(i: i128) -> Option<usize> {
        if (0..(1i128 << 40)).contains(&i) {
            Some(i as usize)
        } else {
            None
        }
    }

    impl Default for Store {
        fn default() -> Self {
            Store::new()
        }
    }

    impl Store {
        pub fn new() -> Store {
            Store { pool: vec![None; POOL], log: vec![], next: 0, seen_edges: BTreeSet::new() }
        }

        fn fresh(&mut self) -> Id {
            self.next += 1;
            self.next
        }

        pub fn cons(&mut self, a: Val, d: Val) -> Val {
            let id = self.fresh();
            Val::Pair(Rc::new(PairObj { id, car: RefCell::new(a), cdr: RefCell::new(d) }))
        }

        pub fn mkvec(&mut self, items: Vec<Val>) -> Val {
            let id = self.fresh();
            Val::Vector(Rc::new(VecObj { id, items: RefCell::new(items) }))
        }

        pub fn list_from(&mut self, items: Vec<Val>, tail: Val) -> Val {
            let mut cur = tail;
            for it in items.into_iter().rev() {
                cur = self.cons(it, cur);
            }
            cur
        }

        pub fn val(&self, a: &Arg) -> Result<Val, String> {
            Ok(match a {
                Arg::P(i) => self
                    .pool
                    .get(*i)
                    .and_then(|v| v.clone())
                    .ok_or_else(|| format!("p{} is not defined", i))?,
                Arg::Int(i) => Val::Int(*i),
                Arg::Bool(b) => Val::Bool(*b),
                Arg::Char(c) => Val::Char(*c),
                Arg::Sym(s) => Val::Sym(s.clone()),
                Arg::Nil => Val::Nil,
                Arg::Fn(f) => return Err(format!("procedure {} used as a datum", f)),
            })
        }

        /// A structure-preserving copy (sharing kept), used to undo a step.
        pub fn snapshot(&self) -> Store {
            let mut map: BTreeMap<Id, Val> = BTreeMap::new();
            fn cp(v: &Val, map: &mut BTreeMap<Id, Val>) -> Val {
                match v {
                    Val::Pair(p) => {
                        if let Some(x) = map.get(&p.id) {
                            return x.clone();
                        }
                        let np = Rc::new(PairObj { id: p.id, car: RefCell::new(Val::Nil), cdr: RefCell::new(Val::Nil) });
                        map.insert(p.id, Val::Pair(np.clone()));
                        let a = cp(&p.car.borrow(), map);
                        let d = cp(&p.cdr.borrow(), map);
                        *np.car.borrow_mut() = a;
                        *np.cdr.borrow_mut() = d;
                        Val::Pair(np)
                    }
                    Val::Vector(x) => {
                        if let Some(y) = map.get(&x.id) {
                            return y.clone();
                        }
                        let nv = Rc::new(VecObj { id: x.id, items: RefCell::new(vec![]) });
                        map.insert(x.id, Val::Vector(nv.clone()));
                        let items: Vec<Val> = x.items.borrow().iter().map(|i| cp(i, map)).collect();
                        *nv.items.borrow_mut() = items;
                        Val::Vector(nv)
                    }
                    o => o.clone(),
                }
            }
            let pool = self.pool.iter().map(|s| s.as_ref().map(|v| cp(v, &mut map))).collect();
            let log = self.log.iter().map(|v| cp(v, &mut map)).collect();
            Store { pool, log, next: self.next, seen_edges: self.seen_edges.clone() }
        }

        pub fn oversize(&self) -> bool {
            for v in self.pool.iter().flatten() {
                let mut n = 0;
                size(v, MAX_NODES, &mut n);
                if n > MAX_NODES {
                    return true;
                }
            }
            false
        }

        pub fn pool_sx(&self) -> Vec<(String, Sx)> {
            self.pool
                .iter()
                .enumerate()
                .filter_map(|(i, v)| v.as_ref().map(|v| (pool_name(i), to_sx(v))))
                .collect()
        }

        /// number of distinct access paths from the pool roots to the object, capped at 2
        pub fn paths_to(&self, target: Id) -> usize {
            fn walk(v: &Val, target: Id, n: &mut usize) {
                if *n >= 2 {
                    return;
                }
                match v {
                    Val::Pair(p) => {
                        if p.id == target {
                            *n += 1;
                            return;
                        }
                        walk(&p.car.borrow(), target, n);
                        walk(&p.cdr.borrow(), target, n);
                    }
                    Val::Vector(x) => {
                        if x.id == target {
                            *n += 1;
                            return;
                        }
                        for i in x.items.borrow().iter() {
                            walk(i, target, n);
                        }
                    }
                    _ => {}
                }
            }
            let mut n = 0;
            for v in self.pool.iter().flatten() {
                walk(v, target, &mut n);
            }
            n
        }

        /// Input-derived class of a step in the current state, and whether it touches a boundary.
        pub fn classify(&self, s: &Step) -> (String, bool) {
            let arg = |i: usize| s.args.get(i).and_then(|a| self.val(a).ok());
            let int = |i: usize| match s.args.get(i) {
                Some(Arg::Int(k)) => Some(*k),
                _ => None,
            };
            let vlen = |v: &Option<Val>| match v {
                Some(Val::Vector(x)) => Some(x.items.borrow().len()),
                _ => None,
            };
            let veccls = |n: usize| if n == 0 { "vec:empty" } else { "vec:n" };
            let mut boundary = false;
            let cls: String = match s.op {
                "car" | "cdr" => match arg(0) {
                    Some(Val::Pair(_)) => "pair".into(),
                    _ => "nonpair".into(),
                },
                "set-car!" | "set-cdr!" => format!("val:{}", arg(1).map(|v| v.kind()).unwrap_or("?")),
                "list" | "vector" => format!("n={}", s.args.len().min(2)),
                "length" | "reverse" | "list?" | "list->vector" => arg(0).map(|v| shape(&v)).unwrap_or("?").into(),
                "append" => {
                    let n = s.args.len();
                    let mut bad = false;
                    for i in 0..n.saturating_sub(1) {
                        if let Some(v) = arg(i) {
                            if !matches!(shape(&v), "nil" | "proper") {
                                bad = true;
                            }
                        }
                    }
                    let last = if n == 0 { "none" } else { arg(n - 1).map(|v| shape(&v)).unwrap_or("?") };
                    format!("argc={},{}last:{}", n.min(3), if bad { "improper-arg," } else { "" }, last)
                }
                "list-tail" | "list-ref" => {
                    let v = arg(0);
                    let sh = v.as_ref().map(shape).unwrap_or("?");
                    let n = v.as_ref().map(|v| spine(v).0.len()).unwrap_or(0);
                    let ic = index_class(int(1).unwrap_or(0), n);
                    boundary = is_boundary_class(ic);
                    format!("{},k={}", sh, ic)
                }
                "memq" | "memv" | "member" | "assq" | "assv" | "assoc" => {
                    let key = arg(0).map(|v| match v {
                        Val::Int(_) => "int",
                        Val::Char(_) => "char",
                        Val::Sym(_) => "sym",
                        Val::Bool(_) => "bool",
                        Val::Nil => "nil",
                        Val::Pair(_) => "pair",
                        Val::Vector(_) => "vector",
                    });
                    let mut tails = BTreeSet::new();
                    if matches!(s.op, "member" | "assoc") {
                        for v in [arg(0), arg(1)].iter().flatten() {
                            improper_tails(v, &mut tails);
                        }
                        // the list argument's own tail is not compared by equal?
                        if let Some(l) = arg(1) {
                            let mut own = BTreeSet::new();
                            let (pairs, _) = spine(&l);
                            for p in pairs.iter() {
                                improper_tails(&p.car.borrow(), &mut own);
                            }
                            if let Some(k) = arg(0) {
                                improper_tails(&k, &mut own);
                            }
                            tails = own;
                        }
                    }
                    let t: Vec<&str> = tails.into_iter().collect();
                    format!(
                        "{}{}{}key:{},{}",
                        if t.is_empty() { "" } else { "tail:" },
                        t.join("+"),
                        if t.is_empty() { "" } else { "," },
                        key.unwrap_or("?"),
                        arg(1).map(|v| shape(&v)).unwrap_or("?")
                    )
                }
                "map" | "for-each" => {
                    let mut shapes = BTreeSet::new();
                    let mut lens = BTreeSet::new();
                    for i in 1..s.args.len() {
                        if let Some(v) = arg(i) {
                            shapes.insert(match shape(&v) {
                                "nil" | "proper" => "proper",
                                _ => "improper",
                            });
                            lens.insert(spine(&v).0.len());
                        }
                    }
                    format!(
                        "lists={},{}{}",
                        s.args.len().saturating_sub(1),
                        if shapes.contains("improper") { "improper" } else { "proper" },
                        if lens.len() > 1 { ",unequal" } else { "" }
                    )
                }
                "make-vector" | "make-vector/1" => {
                    let k = int(0).unwrap_or(0);
                    let kc = if k < 0 { "k<0" } else if k == 0 { "k=0" } else { "k>0" };
                    match arg(1) {
                        Some(f) => format!("{},fill:{}", kc, f.kind()),
                        None => kc.to_string(),
                    }
                }
                "vector-length" | "vector->list" => vlen(&arg(0)).map(veccls).unwrap_or("?").into(),
                "vector-ref" | "vector-set!" => match vlen(&arg(0)) {
                    Some(0) => "vec:empty".into(),
                    Some(n) => {
                        let ic = index_class(int(1).unwrap_or(0), n);
                        boundary = is_boundary_class(ic);
                        format!("k={}", ic)
                    }
                    None => "?".into(),
                },
                "vector-fill!" => format!(
                    "fill:{}",
                    arg(1).map(|v| if matches!(v, Val::Sym(_)) { "symbol" } else { v.kind() }).unwrap_or("?")
                ),
                "vector-copy" => match vlen(&arg(0)) {
                    Some(0) => "vec:empty".into(),
                    Some(n) => match int(1) {
                        None => "plain".into(),
                        Some(k) => {
                            let ic = index_class(k, n);
                            boundary = is_boundary_class(ic);
                            format!("start={}", ic)
                        }
                    },
                    None => "?".into(),
                },
                "vector-copy!" => {
                    let to = arg(0);
                    let from = arg(2);
                    match (vlen(&to), vlen(&from)) {
                        (Some(tl), Some(fl)) => {
                            let at = int(1).unwrap_or(0);
                            let start = int(3);
                            let end = int(4);
                            let st = start.unwrap_or(0);
                            let en = end.unwrap_or(fl as i128);
                            let samev = to.as_ref().and_then(|v| v.obj_id()) == from.as_ref().and_then(|v| v.obj_id());
                            boundary = at == 0 || at == tl as i128 || at == tl as i128 - 1 || st == fl as i128 || en == fl as i128;
                            let invalid = at < 0 || st < 0 || en < 0 || at > tl as i128 || st > fl as i128 || en > fl as i128 || st > en || (tl as i128 - at) < (en - st);
                            if tl == 0 {
                                "to:empty".into()
                            } else if !invalid && at == tl as i128 {
                                "at=len".into()
                            } else if fl == 0 && start.is_some() {
                                "from:empty,start".into()
                            } else if at < 0 || st < 0 || en < 0 {
                                "bad:neg".into()
                            } else if at > tl as i128 {
                                "bad:at>len".into()
                            } else if st > fl as i128 {
                                "bad:start>len".into()
                            } else if en > fl as i128 {
                                "bad:end>len".into()
                            } else if st > en {
                                "bad:start>end".into()
                            } else if (tl as i128 - at) < (en - st) {
                                "bad:too-small".into()
                            } else if st == fl as i128 {
                                "start=len".into()
                            } else if st > 0 {
                                let overlap = samev && at != st && at < en && st < at + (en - st);
                                format!("start>0{}", if overlap { ",overlap" } else { "" })
                            } else if samev && at > st && at < en {
                                "overlap-fwd".into()
                            } else if samev && at == st {
                                "same-range".into()
                            } else if en == st {
                                "count=0".into()
                            } else {
                                "plain".into()
                            }
                        }
                        _ => "?".into(),
                    }
                }
                "equal?" => {
                    let a = arg(0).map(|v| v.kind()).unwrap_or("?");
                    let b = arg(1).map(|v| v.kind()).unwrap_or("?");
                    // improper lists (at any depth) that end in a symbol or a vector
                    let mut tails = BTreeSet::new();
                    for v in [arg(0), arg(1)].iter().flatten() {
                        improper_tails(v, &mut tails);
                    }
                    let t: Vec<&str> = tails.into_iter().collect();
                    format!("{}{}{}{},{}", if t.is_empty() { "" } else { "tail:" }, t.join("+"), if t.is_empty() { "" } else { "," }, a, b)
                }
                _ => "-".into(),
            };
            (cls, boundary)
        }

        /// The object a mutator writes to.
        fn mutation_target(&self, s: &Step) -> Option<Id> {
            match s.op {
                "set-car!" | "set-cdr!" | "vector-set!" | "vector-fill!" | "vector-copy!" => {
                    s.args.first().and_then(|a| self.val(a).ok()).and_then(|v| v.obj_id())
                }
                _ => None,
            }
        }

        fn walk_lists(&mut self, fname: &str, lists: &[Val], record: bool) -> Res {
            let mut cur: Vec<Val> = lists.to_vec();
            let mut out: Vec<Val> = vec![];
            let mut lenient = false;
            loop {
                let any_nil = cur.iter().any(|v| matches!(v, Val::Nil));
                let any_bad = cur.iter().any(|v| !matches!(v, Val::Nil | Val::Pair(_)));
                if any_nil {
                    if any_bad {
                        lenient = true;
                    }
                    break;
                }
                if any_bad {
                    return Res::MustErr;
                }
                let mut args = vec![];
                let mut next = vec![];
                for v in cur.iter() {
                    if let Val::Pair(p) = v {
                        args.push(p.car.borrow().clone());
                        next.push(p.cdr.borrow().clone());
                    }
                }
                cur = next;
                let r = match fname {
                    "id" => args[0].clone(),
                    "cons" => self.cons(args[0].clone(), args[1].clone()),
                    "vector" => self.mkvec(args),
                    _ => self.list_from(args, Val::Nil), // list, rec
                };
                out.push(r);
            }
            if record {
                // rec conses each argument list onto the front of `log`
                for r in out.into_iter() {
                    self.log.insert(0, r);
                }
                if lenient {
                    Res::Lenient(None)
                } else {
                    Res::Unspec
                }
            } else {
                let l = self.list_from(out, Val::Nil);
                if lenient {
                    Res::Lenient(Some(l))
                } else {
                    Res::Val(l)
                }
            }
        }

        /// Execute one operation on the model (R7RS 6.4, 6.8, 6.1 for equal?).
        pub fn apply(&mut self, s: &Step) -> Res {
            let mut a: Vec<Val> = vec![];
            let mut fname: Option<&'static str> = None;
            for (i, x) in s.args.iter().enumerate() {
                match x {
                    Arg::Fn(f) if i == 0 && matches!(s.op, "map" | "for-each") => fname = Some(f),
                    x => match self.val(x) {
                        Ok(v) => a.push(v),
                        Err(e) => return Res::Invalid(e),
                    },
                }
            }
            let argc = a.len();
            let need = |lo: usize, hi: usize| -> Option<Res> {
                if argc < lo || argc > hi {
                    Some(Res::Invalid(format!("{}: {} arguments", s.op, argc)))
                } else {
                    None
                }
            };
            macro_rules! arity {
                ($lo:expr, $hi:expr) => {
                    if let Some(r) = need($lo, $hi) {
                        return r;
                    }
                };
            }
            let int_arg = |v: &Val| match v {
                Val::Int(i) => Some(*i),
                _ => None,
            };
            match s.op {
                "const" => {
                    arity!(1, 1);
                    Res::Val(a[0].clone())
                }
                "cons" => {
                    arity!(2, 2);
                    Res::Val(self.cons(a[0].clone(), a[1].clone()))
                }
                "car" | "cdr" => {
                    arity!(1, 1);
                    match &a[0] {
                        Val::Pair(p) => Res::Val(if s.op == "car" { p.car.borrow().clone() } else { p.cdr.borrow().clone() }),
                        _ => Res::MustErr,
                    }
                }
                "set-car!" | "set-cdr!" => {
                    arity!(2, 2);
                    match &a[0] {
                        Val::Pair(p) => {
                            if reaches(&a[1], p.id) {
                                return Res::Invalid("cycle".into());
                            }
                            if s.op == "set-car!" {
                                *p.car.borrow_mut() = a[1].clone();
                            } else {
                                *p.cdr.borrow_mut() = a[1].clone();
                            }
                            Res::Unspec
                        }
                        _ => Res::Invalid("mutator applied to a non-pair (outside the property's domain)".into()),
                    }
                }
                "list" => Res::Val(self.list_from(a, Val::Nil)),
                "length" => {
                    arity!(1, 1);
                    let (pairs, tail) = spine(&a[0]);
                    match tail {
                        Val::Nil => Res::Val(Val::Int(pairs.len() as i128)),
                        _ => Res::MustErr,
                    }
                }
                "append" => {
                    if argc == 0 {
                        return Res::Val(Val::Nil);
                    }
                    let mut items: Vec<Val> = vec![];
                    for v in a[..argc - 1].iter() {
                        let (pairs, tail) = spine(v);
                        if !matches!(tail, Val::Nil) {
                            return Res::MustErr;
                        }
                        items.extend(pairs.iter().map(|p| p.car.borrow().clone()));
                    }
                    Res::Val(self.list_from(items, a[argc - 1].clone()))
                }
                "reverse" => {
                    arity!(1, 1);
                    let (pairs, tail) = spine(&a[0]);
                    if !matches!(tail, Val::Nil) {
                        return Res::MustErr;
                    }
                    let items: Vec<Val> = pairs.iter().rev().map(|p| p.car.borrow().clone()).collect();
                    Res::Val(self.list_from(items, Val::Nil))
                }
                "list-tail" | "list-ref" => {
                    arity!(2, 2);
                    let k = match int_arg(&a[1]) {
                        Some(k) => k,
                        None => return Res::Invalid("index is not an integer".into()),
                    };
                    if k < 0 {
                        return Res::MustErr;
                    }
                    let improper = !matches!(shape(&a[0]), "nil" | "proper");
                    let mut cur = a[0].clone();
                    let mut n: i128 = 0;
                    while n < k {
                        let next = match &cur {
                            Val::Pair(p) => p.cdr.borrow().clone(),
                            _ => return Res::MustErr,
                        };
                        cur = next;
                        n += 1;
                    }
                    let r = if s.op == "list-tail" {
                        cur
                    } else {
                        match &cur {
                            Val::Pair(p) => p.car.borrow().clone(),
                            _ => return Res::MustErr,
                        }
                    };
                    if improper {
                        Res::Lenient(Some(r))
                    } else {
                        Res::Val(r)
                    }
                }
                "memq" | "memv" | "member" => {
                    arity!(2, 2);
                    let improper = !matches!(shape(&a[1]), "nil" | "proper");
                    let mut cur = a[1].clone();
                    loop {
                        let next = match &cur {
                            Val::Pair(p) => {
                                let hit = if s.op == "member" { equal(&p.car.borrow(), &a[0]) } else { same(&p.car.borrow(), &a[0]) };
                                if hit {
                                    return if improper { Res::Lenient(Some(cur.clone())) } else { Res::Val(cur.clone()) };
                                }
                                p.cdr.borrow().clone()
                            }
                            Val::Nil => return Res::Val(Val::Bool(false)),
                            _ => return Res::MustErr,
                        };
                        cur = next;
                    }
                }
                "assq" | "assv" | "assoc" => {
                    arity!(2, 2);
                    let improper = !matches!(shape(&a[1]), "nil" | "proper");
                    let mut odd = improper;
                    let mut cur = a[1].clone();
                    loop {
                        let next = match &cur {
                            Val::Pair(p) => {
                                let e = p.car.borrow().clone();
                                match &e {
                                    Val::Pair(entry) => {
                                        let hit = if s.op == "assoc" { equal(&entry.car.borrow(), &a[0]) } else { same(&entry.car.borrow(), &a[0]) };
                                        if hit {
                                            return if odd { Res::Lenient(Some(e.clone())) } else { Res::Val(e.clone()) };
                                        }
                                    }
                                    // an element that is not a pair: "it is an error"; skipping it or failing are both fine
                                    _ => odd = true,
                                }
                                p.cdr.borrow().clone()
                            }
                            Val::Nil => {
                                return if odd { Res::Lenient(Some(Val::Bool(false))) } else { Res::Val(Val::Bool(false)) };
                            }
                            _ => return Res::MustErr,
                        };
                        cur = next;
                    }
                }
                "map" | "for-each" => {
                    let f = match fname {
                        Some(f) => f,
                        None => return Res::Invalid("missing procedure".into()),
                    };
                    if argc == 0 || argc > 3 {
                        return Res::Invalid("map/for-each need 1..3 lists".into());
                    }
                    let ok = match (s.op, f) {
                        ("map", "id") => argc == 1,
                        ("map", "cons") => argc == 2,
                        ("map", "list") | ("map", "vector") => true,
                        ("for-each", "rec") => true,
                        _ => false,
                    };
                    if !ok {
                        return Res::Invalid("procedure/arity combination not in the domain".into());
                    }
                    if s.op == "for-each" {
                        self.log.clear();
                    }
                    self.walk_lists(f, &a, s.op == "for-each")
                }
                "list?" => {
                    arity!(1, 1);
                    Res::Val(Val::Bool(matches!(shape(&a[0]), "nil" | "proper")))
                }
                "vector" => Res::Val(self.mkvec(a)),
                "make-vector" | "make-vector/1" => {
                    if s.op == "make-vector" {
                        arity!(2, 2);
                    } else {
                        arity!(1, 1);
                    }
                    let k = match int_arg(&a[0]) {
                        Some(k) => k,
                        None => return Res::Invalid("size is not an integer".into()),
                    };
                    if k < 0 {
                        return Res::MustErr;
                    }
                    if k > 64 {
                        return Res::Invalid("size too large for the harness".into());
                    }
                    if s.op == "make-vector/1" {
                        return Res::Val(Val::Int(k));
                    }
                    let items = vec![a[1].clone(); k as usize];
                    Res::Val(self.mkvec(items))
                }
                "vector-length" | "vector->list" | "vector-ref" | "vector-set!" | "vector-fill!" | "vector-copy" => {
                    let v = match a.first() {
                        Some(Val::Vector(v)) => v.clone(),
                        _ => return Res::Invalid("vector operation on a non-vector (outside the property's domain)".into()),
                    };
                    let len = v.items.borrow().len();
                    match s.op {
                        "vector-length" => {
                            arity!(1, 1);
                            Res::Val(Val::Int(len as i128))
                        }
                        "vector->list" => {
                            arity!(1, 1);
                            let items = v.items.borrow().clone();
                            Res::Val(self.list_from(items, Val::Nil))
                        }
                        "vector-ref" => {
                            arity!(2, 2);
                            match int_arg(&a[1]).and_then(idx) {
                                Some(k) if k < len => Res::Val(v.items.borrow()[k].clone()),
                                _ => Res::MustErr,
                            }
                        }
                        "vector-set!" => {
                            arity!(3, 3);
                            match int_arg(&a[1]).and_then(idx) {
                                Some(k) if k < len => {
                                    if reaches(&a[2], v.id) {
                                        return Res::Invalid("cycle".into());
                                    }
                                    v.items.borrow_mut()[k] = a[2].clone();
                                    Res::Unspec
                                }
                                _ => Res::MustErr,
                            }
                        }
                        "vector-fill!" => {
                            arity!(2, 2);
                            if len > 0 && reaches(&a[1], v.id) {
                                return Res::Invalid("cycle".into());
                            }
                            for slot in v.items.borrow_mut().iter_mut() {
                                *slot = a[1].clone();
                            }
                            Res::Unspec
                        }
                        _ => {
                            // vector-copy with 0 or 1 optional argument (the end argument is outside the property)
                            arity!(1, 2);
                            let start = if argc == 2 {
                                match int_arg(&a[1]) {
                                    Some(k) => k,
                                    None => return Res::Invalid("start is not an integer".into()),
                                }
                            } else {
                                0
                            };
                            if start < 0 || start > len as i128 {
                                return Res::MustErr;
                            }
                            let items = v.items.borrow()[start as usize..].to_vec();
                            Res::Val(self.mkvec(items))
                        }
                    }
                }
                "list->vector" => {
                    arity!(1, 1);
                    let (pairs, tail) = spine(&a[0]);
                    if !matches!(tail, Val::Nil) {
                        return Res::MustErr;
                    }
                    let items = pairs.iter().map(|p| p.car.borrow().clone()).collect();
                    Res::Val(self.mkvec(items))
                }
                "vector-copy!" => {
                    arity!(3, 5);
                    let (to, from) = match (&a[0], &a[2]) {
                        (Val::Vector(t), Val::Vector(f)) => (t.clone(), f.clone()),
                        _ => return Res::Invalid("vector-copy! on a non-vector (outside the property's domain)".into()),
                    };
                    let tl = to.items.borrow().len() as i128;
                    let fl = from.items.borrow().len() as i128;
                    let ints: Vec<Option<i128>> = [1usize, 3, 4].iter().map(|i| a.get(*i).and_then(int_arg)).collect();
                    let at = match ints[0] {
                        Some(k) => k,
                        None => return Res::Invalid("at is not an integer".into()),
                    };
                    if (argc >= 4 && ints[1].is_none()) || (argc == 5 && ints[2].is_none()) {
                        return Res::Invalid("start/end is not an integer".into());
                    }
                    let st = ints[1].unwrap_or(0);
                    let en = ints[2].unwrap_or(fl);
                    if at < 0 || at > tl || st < 0 || st > fl || en < 0 || en > fl || st > en || (tl - at) < (en - st) {
                        return Res::MustErr;
                    }
                    let tmp: Vec<Val> = from.items.borrow()[st as usize..en as usize].to_vec();
                    if tmp.iter().any(|x| reaches(x, to.id)) {
                        return Res::Invalid("cycle".into());
                    }
                    let mut dst = to.items.borrow_mut();
                    for (i, x) in tmp.into_iter().enumerate() {
                        dst[at as usize + i] = x;
                    }
                    Res::Unspec
                }
                "equal?" => {
                    arity!(2, 2);
                    Res::Val(Val::Bool(equal(&a[0], &a[1])))
                }
                other => Res::Invalid(format!("unknown operation {}", other)),
            }
        }

        /// Identity audits of the current state: every sharing edge of the
        /// object graph reachable from the pool (an object reachable by a second
        /// access path) is probed by a mutation through one path observed
        /// through the other, then undone. `eq?` is not used for identity:
        /// the SUT's `eq?` on pairs compares car and cdr (pinned by the suite).
        pub fn audits(&mut self, fresh_pairs: &[(usize, Vec<usize>)], focus: Option<Id>) -> Vec<Audit> {
            // canonical path of every reachable object, breadth first from p0..p7
            let mut canon: BTreeMap<Id, Sx> = BTreeMap::new();
            let mut queue: std::collections::VecDeque<(Val, Sx)> = Default::default();
            let mut edges: Vec<((Id, usize, Id), Sx, Val)> = vec![];
            let mut sym_focus: Vec<Audit> = vec![];
            let mut sym_other: Vec<Audit> = vec![];
            for (i, v) in self.pool.iter().enumerate() {
                if let Some(v) = v {
                    if let Some(id) = v.obj_id() {
                        let path = Sx::Sym(pool_name(i));
                        if canon.contains_key(&id) {
                            edges.push(((0, i, id), path, v.clone()));
                        } else {
                            canon.insert(id, path.clone());
                            queue.push_back((v.clone(), path));
                        }
                    }
                }
            }
            while let Some((v, path)) = queue.pop_front() {
                let children: Vec<(usize, Sx, Val)> = match &v {
                    Val::Pair(p) => vec![
                        (0, Sx::call("car", vec![path.clone()]), p.car.borrow().clone()),
                        (1, Sx::call("cdr", vec![path.clone()]), p.cdr.borrow().clone()),
                    ],
                    Val::Vector(x) => x
                        .items
                        .borrow()
                        .iter()
                        .enumerate()
                        .map(|(i, it)| (i, Sx::call("vector-ref", vec![path.clone(), big(i as i128)]), it.clone()))
                        .collect(),
                    _ => vec![],
                };
                let me = v.obj_id().unwrap_or(0);
                for (slot, cpath, child) in children {
                    if let Val::Sym(name) = &child {
                        // a symbol retrieved from a container is that symbol
                        let a = Audit {
                            form: Sx::call("eq?", vec![cpath.clone(), quote_sym(name)]),
                            expect: true,
                            what: format!("{} is the symbol {}", cpath, name),
                        };
                        if Some(me) == focus {
                            sym_focus.push(a);
                        } else {
                            sym_other.push(a);
                        }
                        continue;
                    }
                    if let Some(cid) = child.obj_id() {
                        if canon.contains_key(&cid) {
                            edges.push(((me, slot, cid), cpath, child));
                        } else {
                            canon.insert(cid, cpath.clone());
                            queue.push_back((child, cpath));
                        }
                    }
                }
            }
            // new edges first, at most 10 probes
            let (mut newer, mut older): (Vec<_>, Vec<_>) = edges.iter().partition(|e| !self.seen_edges.contains(&e.0));
            newer.append(&mut older);
            let mut out = vec![];
            for (_, apath, target) in newer.into_iter().take(10) {
                let bpath = canon.get(&target.obj_id().unwrap()).unwrap().clone();
                if let Some(form) = probe_form(target, apath, &bpath) {
                    out.push(Audit { form, expect: true, what: format!("{} and {} are the same object", apath, bpath) });
                }
            }
            self.seen_edges = edges.iter().map(|e| e.0).collect();
            sym_focus.truncate(4);
            sym_other.truncate(6 - sym_focus.len().min(4));
            out.append(&mut sym_focus);
            out.append(&mut sym_other);
            // freshly allocated results must not share their first cell with an argument
            for (k, args) in fresh_pairs.iter() {
                let r = match self.pool.get(*k).and_then(|v| v.clone()) {
                    Some(r) => r,
                    None => continue,
                };
                for j in args.iter() {
                    let o = match self.pool.get(*j).and_then(|v| v.clone()) {
                        Some(o) => o,
                        None => continue,
                    };
                    let comparable = matches!((&r, &o), (Val::Pair(_), Val::Pair(_)) | (Val::Vector(_), Val::Vector(_)));
                    if comparable && r.obj_id() != o.obj_id() && j != k {
                        let (ap, bp) = (Sx::Sym(pool_name(*k)), Sx::Sym(pool_name(*j)));
                        if let (Some(form), true) = (probe_form(&r, &ap, &bp), probe_observable(&o)) {
                            out.push(Audit { form, expect: false, what: format!("{} is newly allocated, distinct from {}", ap, bp) });
                        }
                    }
                }
            }
            out
        }
    }

    fn probe_observable(v: &Val) -> bool {
        match v {
            Val::Pair(_) => true,
            Val::Vector(x) => !x.items.borrow().is_empty(),
            _ => false,
        }
    }

    /// `((lambda (old) (set-car! A 'probe-mark) ((lambda (r) (set-car! A old) r) (eq? (car B) 'probe-mark))) (car A))`
    fn probe_form(target: &Val, a: &Sx, b: &Sx) -> Option<Sx> {
        if !probe_observable(target) {
            return None;
        }
        let mark = quote_sym(PROBE);
        let (get_a, get_b, set_mark, set_old) = match target {
            Val::Pair(_) => (
                Sx::call("car", vec![a.clone()]),
                Sx::call("car", vec![b.clone()]),
                Sx::call("set-car!", vec![a.clone(), mark.clone()]),
                Sx::call("set-car!", vec![a.clone(), Sx::sym("old")]),
            ),
            _ => (
                Sx::call("vector-ref", vec![a.clone(), big(0)]),
                Sx::call("vector-ref", vec![b.clone(), big(0)]),
                Sx::call("vector-set!", vec![a.clone(), big(0), mark.clone()]),
                Sx::call("vector-set!", vec![a.clone(), big(0), Sx::sym("old")]),
            ),
        };
        let inner = Sx::List(vec![
            Sx::List(vec![Sx::sym("lambda"), Sx::List(vec![Sx::sym("r")]), set_old, Sx::sym("r")]),
            Sx::call("eq?", vec![get_b, mark]),
        ]);
        Some(Sx::List(vec![
            Sx::List(vec![Sx::sym("lambda"), Sx::List(vec![Sx::sym("old")]), set_mark, inner]),
            get_a,
        ]))
    }

    pub fn script_prelude() -> Vec<Sx> {
        crate::sx::read_all(
            "(define log '()) (define (id x) x) (define (rec . args) (set! log (cons args log)))",
        )
        .unwrap()
    }

    fn is_mutator(op: &str) -> bool {
        matches!(op, "set-car!" | "set-cdr!" | "vector-set!" | "vector-fill!" | "vector-copy!")
    }

    /// ops whose result R7RS requires to be newly allocated (checked against pool arguments when stored)
    fn allocates(op: &str) -> bool {
        matches!(
            op,
            "cons" | "list" | "append" | "reverse" | "vector" | "make-vector" | "vector->list" | "list->vector" | "vector-copy" | "map"
        )
    }

    /// Run the model over explicit steps and produce the script with all expectations.
    pub fn build_script(steps: &[Step]) -> Result<Script, String> {
        let mut st = Store::new();
        let mut out = Script { prelude: script_prelude(), steps: vec![] };
        for s in steps {
            let (class, boundary) = st.classify(s);
            let target = st.mutation_target(s);
            let shared_target = target.map(|t| st.paths_to(t) >= 2).unwrap_or(false);
            let res = st.apply(s);
            let mut post = None;
            let mut pre = vec![];
            if s.op == "for-each" {
                pre.push(Sx::call("set!", vec![Sx::sym("log"), Sx::quote(Sx::nil())]));
            }
            if s.op == "vector-fill!" && s.args.len() == 2 && matches!(res, Res::Unspec) {
                // R7RS: every element is now `fill`, so the vector is equal? to a new vector of that length and fill
                let v = arg_sx(&s.args[0]);
                let rebuilt = Sx::call("make-vector", vec![Sx::call("vector-length", vec![v.clone()]), arg_sx(&s.args[1])]);
                post = Some((Sx::call("equal?", vec![v, rebuilt]), Sx::Bool(true)));
            }
            let mut fresh: Vec<(usize, Vec<usize>)> = vec![];
            let expect = match res {
                Res::Invalid(e) => return Err(format!("{}: {}", step_form(s), e)),
                Res::Val(v) => match s.store {
                    Some(k) => {
                        if s.op == "for-each" {
                            return Err("for-each cannot be stored".into());
                        }
                        if allocates(s.op) {
                            let mut args: Vec<usize> = s
                                .args
                                .iter()
                                .filter_map(|a| if let Arg::P(j) = a { Some(*j) } else { None })
                                .collect();
                            // append returns its last argument's structure; (append) / all-empty prefixes return it itself
                            if s.op == "append" {
                                args.pop();
                            }
                            if s.op == "map" {
                                args.clear();
                            }
                            fresh.push((k, args));
                        }
                        st.pool[k] = Some(v);
                        Expect::AnyValue
                    }
                    None => Expect::Value(vec![to_sx(&v)]),
                },
                Res::Unspec => {
                    if s.store.is_some() {
                        return Err("an unspecified value cannot be stored".into());
                    }
                    if s.op == "for-each" {
                        let items: Vec<Val> = st.log.clone();
                        let l = st.list_from(items, Val::Nil);
                        post = Some((Sx::sym("log"), to_sx(&l)));
                    }
                    Expect::AnyValue
                }
                Res::MustErr => Expect::Error,
                Res::Lenient(v) => {
                    if s.store.is_some() {
                        return Err("a step whose outcome R7RS leaves open cannot be stored".into());
                    }
                    match v {
                        Some(v) => Expect::ValueOrError(vec![to_sx(&v)]),
                        None => Expect::AnyOutcome,
                    }
                }
            };
            if st.oversize() {
                return Err("pool object too large".into());
            }
            // a fresh result that was pre-existing in the model (append of empty lists returns its last argument) is not fresh
            let focus = target.or_else(|| s.store.and_then(|k| st.pool[k].as_ref().and_then(|v| v.obj_id())));
            let audits = st.audits(&fresh, focus);
            out.steps.push(ScriptStep {
                pre,
                form: step_form(s),
                expect,
                post,
                pool_after: st.pool_sx(),
                audits,
                op: s.op,
                class,
                mutator: is_mutator(s.op),
                stored: s.store.map(pool_name),
                diverges: is_mutator(s.op) || s.store.is_some() || s.op == "for-each",
                nontrivial: boundary || (is_mutator(s.op) && shared_target),
            });
        }
        Ok(out)
    }

    // ---------------------------------------------------------------
    // generator
    // ---------------------------------------------------------------

    const SYMS: [&str; 4] = ["a", "b", "c", "d"];
    const CHARS: [char; 3] = ['a', 'b', 'λ'];

    fn scalar(c: &mut Choices) -> Arg {
        match c.weighted(&[30, 25, 10, 10, 10, 5]) {
            0 => Arg::Int([0i128, 1, 2, 3, -1, 7, 100][c.below(7)]),
            1 => Arg::Sym(SYMS[c.below(4)].to_string()),
            2 => Arg::Bool(c.flip()),
            3 => Arg::Char(CHARS[c.below(3)]),
            4 => Arg::Nil,
            _ => Arg::Int(1i128 << 70),
        }
    }

    /// keys on which eq?/eqv? are fully specified (and pinned by the suite for eq?)
    fn key(c: &mut Choices, allow_big: bool) -> Arg {
        match c.weighted(&[35, 30, 10, 10, 10, if allow_big { 5 } else { 0 }]) {
            0 => Arg::Sym(SYMS[c.below(4)].to_string()),
            1 => Arg::Int([0i128, 1, 2, 3, -1, 7, 100][c.below(7)]),
            2 => Arg::Bool(c.flip()),
            3 => Arg::Char(CHARS[c.below(3)]),
            4 => Arg::Nil,
            _ => Arg::Int(1i128 << 70),
        }
    }

    pub struct Gen<'a, 'b> {
        pub c: &'a mut Choices<'b>,
        pub st: Store,
        pub steps: Vec<Step>,
        pub stats: GenStats,
        /// is this `op|class` the trigger of a listed known finding? (then it is generated at a probe rate only)
        pub damp: &'a dyn Fn(&str, &str) -> bool,
    }

    impl<'a, 'b> Gen<'a, 'b> {
        fn slots<F: Fn(&Val) -> bool>(&self, pred: F) -> Vec<usize> {
            self.st
                .pool
                .iter()
                .enumerate()
                .filter_map(|(i, v)| match v {
                    Some(v) if pred(v) => Some(i),
                    _ => None,
                })
                .collect()
        }

        fn pick_slot<F: Fn(&Val) -> bool>(&mut self, pred: F) -> Option<usize> {
            let s = self.slots(pred);
            if s.is_empty() {
                None
            } else {
                Some(s[self.c.below(s.len())])
            }
        }

        /// any value: mostly pool objects
        fn any_arg(&mut self) -> Arg {
            if self.c.chance(150) {
                if let Some(i) = self.pick_slot(|_| true) {
                    return Arg::P(i);
                }
            }
            scalar(self.c)
        }

        fn listish(&mut self) -> Option<Arg> {
            // mostly lists (any shape), sometimes something that is no list at all
            if self.c.chance(24) {
                return Some(self.any_arg());
            }
            if self.c.chance(16) {
                return Some(Arg::Nil);
            }
            self.pick_slot(|v| matches!(v, Val::Pair(_) | Val::Nil)).map(Arg::P)
        }

        fn vector_slot(&mut self) -> Option<usize> {
            self.pick_slot(|v| matches!(v, Val::Vector(_)))
        }

        fn vlen(&self, i: usize) -> usize {
            match &self.st.pool[i] {
                Some(Val::Vector(x)) => x.items.borrow().len(),
                _ => 0,
            }
        }

        fn free_slot(&mut self) -> usize {
            let free: Vec<usize> = (0..POOL).filter(|i| self.st.pool[*i].is_none()).collect();
            if !free.is_empty() && !self.c.chance(40) {
                free[0]
            } else {
                self.c.below(POOL)
            }
        }

        /// Try to append a step: classification, probe-rate damping, dry run on a
        /// snapshot (cycle / size / open outcome with store are skipped).
        fn push(&mut self, s: Step) -> bool {
            let (class, _) = self.st.classify(&s);
            if (self.damp)(s.op, &class) {
                // known-finding trigger: keep 1 in 8
                if self.c.below(8) != 7 {
                    self.stats.damped += 1;
                    return false;
                }
            }
            let backup = self.st.snapshot();
            let res = self.st.apply(&s);
            let ok = match res {
                Res::Invalid(ref e) => {
                    if e == "cycle" {
                        self.stats.skipped_cycle += 1;
                    } else {
                        self.stats.no_candidate += 1;
                    }
                    false
                }
                Res::Val(v) => {
                    if let Some(k) = s.store {
                        self.st.pool[k] = Some(v);
                    }
                    true
                }
                Res::Unspec => s.store.is_none(),
                Res::MustErr => true,
                Res::Lenient(_) => s.store.is_none(),
            };
            if ok && self.st.oversize() {
                self.stats.skipped_size += 1;
                self.st = backup;
                return false;
            }
            if !ok {
                self.st = backup;
                return false;
            }
            self.steps.push(s);
            true
        }

        /// a pool slot holding a structurally equal but distinct object
        fn twin_of(&mut self, a: &Arg) -> Option<Arg> {
            let v = self.st.val(a).ok()?;
            let id = v.obj_id()?;
            let c: Vec<usize> = self.slots(|o| o.obj_id().is_some() && o.obj_id() != Some(id) && equal(o, &v));
            if c.is_empty() {
                None
            } else {
                Some(Arg::P(c[self.c.below(c.len())]))
            }
        }

        fn init_object(&mut self) {
            let k = self.free_slot();
            if !self.steps.is_empty() && self.c.chance(40) {
                // a structural twin: the same constructor call again, into another slot
                let j = self.c.below(self.steps.len());
                let mut s = self.steps[j].clone();
                if s.store.is_some() && s.store != Some(k) && matches!(s.op, "list" | "cons" | "vector" | "make-vector") {
                    s.store = Some(k);
                    self.push(s);
                    return;
                }
            }
            let w = self.c.weighted(&[26, 10, 14, 22, 8, 6, 8, 6]);
            let s = match w {
                0 => {
                    let n = self.c.below(5);
                    let args = (0..n).map(|_| self.any_arg()).collect();
                    Step { op: "list", args, store: Some(k) }
                }
                1 => Step { op: "cons", args: vec![self.any_arg(), scalar(self.c)], store: Some(k) },
                2 => {
                    // share a tail / extend a list
                    match self.pick_slot(|v| matches!(v, Val::Pair(_))) {
                        Some(j) => {
                            if self.c.flip() {
                                Step { op: "cdr", args: vec![Arg::P(j)], store: Some(k) }
                            } else {
                                Step { op: "cons", args: vec![self.any_arg(), Arg::P(j)], store: Some(k) }
                            }
                        }
                        None => Step { op: "list", args: vec![scalar(self.c), scalar(self.c)], store: Some(k) },
                    }
                }
                3 => {
                    let n = self.c.below(5);
                    let args = (0..n).map(|_| self.any_arg()).collect();
                    Step { op: "vector", args, store: Some(k) }
                }
                4 => Step { op: "vector", args: vec![], store: Some(k) },
                5 => Step { op: "make-vector", args: vec![Arg::Int(self.c.below(4) as i128), self.any_arg()], store: Some(k) },
                6 => {
                    // association entry
                    Step { op: "cons", args: vec![key(self.c, true), self.any_arg()], store: Some(k) }
                }
                _ => Step { op: "const", args: vec![scalar(self.c)], store: Some(k) },
            };
            self.push(s);
        }

        fn gen_op(&mut self) {
            const W: [u32; 32] = [
                3, 4, 4, 8, 8, 3, 3, 5, 4, // cons car cdr set-car! set-cdr! list length append reverse
                5, 5, 3, 3, 3, 3, 3, 3, 4, 3, // list-tail list-ref memq memv member assq assv assoc map for-each
                2, 3, 3, 1, 2, 6, 8, // list? vector make-vector make-vector/1 vector-length vector-ref vector-set!
                6, 4, 4, 7, 10, 7, // vector-fill! vector->list list->vector vector-copy vector-copy! equal?
            ];
            let op = OPS[1 + self.c.weighted(&W)];
            let store_k = self.free_slot();
            let want_store = self.c.chance(110);
            let st = |b: bool| if b { Some(store_k) } else { None };
            let step = match op {
                "cons" => Some(Step { op, args: vec![self.any_arg(), self.any_arg()], store: st(want_store) }),
                "car" | "cdr" => {
                    let a = if self.c.chance(20) { Some(self.any_arg()) } else { self.pick_slot(|v| matches!(v, Val::Pair(_))).map(Arg::P) };
                    a.map(|a| Step { op, args: vec![a], store: st(want_store) })
                }
                "set-car!" | "set-cdr!" => {
                    // prefer a pair reachable by more than one path
                    let cands = self.slots(|v| matches!(v, Val::Pair(_)));
                    let shared: Vec<usize> = cands
                        .iter()
                        .copied()
                        .filter(|i| self.st.pool[*i].as_ref().and_then(|v| v.obj_id()).map(|id| self.st.paths_to(id) >= 2).unwrap_or(false))
                        .collect();
                    let pickfrom = if !shared.is_empty() && self.c.chance(160) { shared } else { cands };
                    if pickfrom.is_empty() {
                        None
                    } else {
                        let t = pickfrom[self.c.below(pickfrom.len())];
                        Some(Step { op, args: vec![Arg::P(t), self.any_arg()], store: None })
                    }
                }
                "list" => {
                    let n = self.c.below(4);
                    Some(Step { op, args: (0..n).map(|_| self.any_arg()).collect(), store: st(want_store) })
                }
                "length" | "reverse" | "list?" | "list->vector" => {
                    self.listish().map(|a| Step { op, args: vec![a], store: st(want_store && op != "length" && op != "list?") })
                }
                "append" => {
                    let n = self.c.weighted(&[1, 3, 10, 5]);
                    let mut args = vec![];
                    for i in 0..n {
                        let a = if i + 1 == n && self.c.chance(60) { Some(self.any_arg()) } else { self.listish() };
                        match a {
                            Some(a) => args.push(a),
                            None => args.push(Arg::Nil),
                        }
                    }
                    Some(Step { op, args, store: st(want_store) })
                }
                "list-tail" | "list-ref" => self.listish().map(|a| {
                    let n = self.st.val(&a).map(|v| spine(&v).0.len()).unwrap_or(0);
                    let k = pick_index(self.c, n);
                    Step { op, args: vec![a, Arg::Int(k)], store: st(want_store) }
                }),
                "memq" | "memv" | "member" | "assq" | "assv" | "assoc" => self.listish().map(|l| {
                    // a key that occurs in the list half of the time
                    let lv = self.st.val(&l).ok();
                    let small_only = matches!(op, "memq" | "assq");
                    let mut k = if matches!(op, "member" | "assoc") && self.c.chance(80) { self.any_arg() } else { key(self.c, !small_only) };
                    if self.c.flip() {
                        if let Some(lv) = lv {
                            let (pairs, _) = spine(&lv);
                            if !pairs.is_empty() {
                                let e = pairs[self.c.below(pairs.len())].car.borrow().clone();
                                let e = if op.starts_with("ass") {
                                    match &e {
                                        Val::Pair(p) => Some(p.car.borrow().clone()),
                                        _ => None,
                                    }
                                } else {
                                    Some(e)
                                };
                                let as_arg = match e {
                                    Some(Val::Int(i)) if !small_only || i.abs() < (1 << 20) => Some(Arg::Int(i)),
                                    Some(Val::Int(_)) => None,
                                    Some(Val::Sym(s)) => Some(Arg::Sym(s)),
                                    Some(Val::Bool(b)) => Some(Arg::Bool(b)),
                                    Some(Val::Char(ch)) => Some(Arg::Char(ch)),
                                    Some(Val::Nil) => Some(Arg::Nil),
                                    Some(ref o @ (Val::Pair(_) | Val::Vector(_))) if matches!(op, "member" | "assoc") => {
                                        // an equal? object from the pool, if one is a root
                                        let cands: Vec<usize> = (0..POOL).filter(|i| self.st.pool[*i].as_ref().map(|v| equal(v, o)).unwrap_or(false)).collect();
                                        // prefer a distinct object that is merely equal?
                                        cands
                                            .iter()
                                            .find(|i| self.st.pool[**i].as_ref().and_then(|v| v.obj_id()) != o.obj_id())
                                            .or(cands.first())
                                            .map(|i| Arg::P(*i))
                                    }
                                    _ => None,
                                };
                                if let Some(x) = as_arg {
                                    k = x;
                                }
                            }
                        }
                    }
                    Step { op, args: vec![k, l], store: None }
                }),
                "map" | "for-each" => {
                    let n = 1 + self.c.weighted(&[5, 4, 2]);
                    let f: &'static str = if op == "for-each" {
                        "rec"
                    } else {
                        match n {
                            1 => ["id", "list", "vector"][self.c.below(3)],
                            2 => ["cons", "list", "vector"][self.c.below(3)],
                            _ => ["list", "vector"][self.c.below(2)],
                        }
                    };
                    let mut args = vec![Arg::Fn(f)];
                    for _ in 0..n {
                        match self.listish() {
                            Some(a) => args.push(a),
                            None => args.push(Arg::Nil),
                        }
                    }
                    Some(Step { op, args, store: st(want_store && op == "map") })
                }
                "vector" => {
                    let n = self.c.below(4);
                    Some(Step { op, args: (0..n).map(|_| self.any_arg()).collect(), store: st(want_store) })
                }
                "make-vector" => {
                    let k = self.c.range(-1, 4) as i128;
                    Some(Step { op, args: vec![Arg::Int(k), self.any_arg()], store: st(want_store) })
                }
                "make-vector/1" => Some(Step { op, args: vec![Arg::Int(self.c.range(-1, 5) as i128)], store: None }),
                "vector-length" | "vector->list" => self.vector_slot().map(|v| Step { op, args: vec![Arg::P(v)], store: st(want_store && op != "vector-length") }),
                "vector-ref" => self.vector_slot().map(|v| {
                    let n = self.vlen(v);
                    let k = pick_index(self.c, n);
                    Step { op, args: vec![Arg::P(v), Arg::Int(k)], store: st(want_store) }
                }),
                "vector-set!" => self.vector_slot().map(|v| {
                    let n = self.vlen(v);
                    let k = pick_index(self.c, n);
                    Step { op, args: vec![Arg::P(v), Arg::Int(k), self.any_arg()], store: None }
                }),
                "vector-fill!" => self.vector_slot().map(|v| Step { op, args: vec![Arg::P(v), self.any_arg()], store: None }),
                "vector-copy" => self.vector_slot().map(|v| {
                    let mut args = vec![Arg::P(v)];
                    if self.c.chance(170) {
                        let n = self.vlen(v);
                        args.push(Arg::Int(pick_index(self.c, n)));
                    }
                    Step { op, args, store: st(want_store) }
                }),
                "vector-copy!" => {
                    let to = self.vector_slot();
                    let from = if self.c.chance(110) { to } else { self.vector_slot() };
                    match (to, from) {
                        (Some(to), Some(from)) => {
                            let (tl, fl) = (self.vlen(to) as i128, self.vlen(from) as i128);
                            let argc = 3 + self.c.weighted(&[3, 4, 6]);
                            let mut args = vec![Arg::P(to)];
                            if self.c.chance(190) {
                                // a valid call: choose start/end, then a fitting at
                                let st_ = if argc >= 4 && fl > 0 { self.c.below(fl as usize + 1) as i128 } else { 0 };
                                let en = if argc == 5 { st_ + self.c.below((fl - st_) as usize + 1) as i128 } else { fl };
                                let room = tl - (en - st_);
                                let at = if room >= 0 { self.c.below(room as usize + 1) as i128 } else { pick_index(self.c, tl as usize) };
                                args.push(Arg::Int(at));
                                args.push(Arg::P(from));
                                if argc >= 4 {
                                    args.push(Arg::Int(st_));
                                }
                                if argc == 5 {
                                    args.push(Arg::Int(en));
                                }
                            } else {
                                args.push(Arg::Int(pick_index(self.c, tl as usize)));
                                args.push(Arg::P(from));
                                if argc >= 4 {
                                    args.push(Arg::Int(pick_index(self.c, fl as usize)));
                                }
                                if argc == 5 {
                                    args.push(Arg::Int(pick_index(self.c, fl as usize)));
                                }
                            }
                            Some(Step { op, args, store: None })
                        }
                        _ => None,
                    }
                }
                "equal?" => {
                    let a = self.any_arg();
                    let b = match self.c.weighted(&[5, 2, 5]) {
                        0 => self.any_arg(),
                        1 => a.clone(),
                        _ => match self.twin_of(&a) {
                            Some(t) => t,
                            None => self.any_arg(),
                        },
                    };
                    Some(Step { op, args: vec![a, b], store: None })
                }
                _ => None,
            };
            match step {
                Some(mut s) => {
                    if !self.push(s.clone()) && s.store.is_some() {
                        // an open outcome cannot be stored: try it unstored
                        s.store = None;
                        self.push(s);
                    }
                }
                None => self.stats.no_candidate += 1,
            }
        }
    }

    /// Decode one case: 2..=8 object definitions, then up to 12 operations.
    pub fn gen_case(c: &mut Choices, damp: &dyn Fn(&str, &str) -> bool) -> (Vec<Step>, GenStats) {
        let mut g = Gen { c, st: Store::new(), steps: vec![], stats: GenStats::default(), damp };
        let n_init = 2 + g.c.below(7);
        for _ in 0..n_init {
            g.init_object();
        }
        let n_init_done = g.steps.len();
        let n_ops = 1 + g.c.below(MAX_OPS);
        let mut tries = 0;
        while g.steps.len() - n_init_done < n_ops && tries < 3 * MAX_OPS {
            g.gen_op();
            tries += 1;
        }
        (g.steps, g.stats)
    }
}

// =====================================================================
// C15: strings (mutable vectors of Unicode scalar values) and characters
// =====================================================================
pub mod st {
    use super::*;
    use crate::choice::Choices;
    use std::cell::RefCell;
    use std::rc::Rc;

    pub const POOL: usize = 6;
    pub const MAX_OPS: usize = 10;

    pub struct StrObj {
        pub id: u32,
        pub chars: RefCell<Vec<char>>,
    }

    #[derive(Clone, Debug, PartialEq)]
    pub enum Arg {
        S(usize),
        Lit(String),
        Int(i128),
        Char(char),
        /// `(list c ...)` or `(vector c ...)` written inline (which one is decided by the operation)
        Chars(Vec<char>),
    }

    #[derive(Clone, Debug, PartialEq)]
    pub struct Step {
        pub op: &'static str,
        pub args: Vec<Arg>,
        pub store: Option<usize>,
    }

    pub const CMP: [&str; 5] = ["=?", "<?", ">?", "<=?", ">=?"];
    pub const OPS: &[&str] = &[
        "ref", "string-copy", "string", "make-string", "make-string/1", "list->string", "vector->string",
        "string-length", "string-ref", "string-set!", "substring", "string-fill!", "string->list",
        "string->vector", "string-append", "string-upcase", "string-downcase", "string-foldcase",
        "string=?", "string<?", "string>?", "string<=?", "string>=?",
        "string-ci=?", "string-ci<?", "string-ci>?", "string-ci<=?", "string-ci>=?",
        "char->integer", "integer->char", "char-upcase", "char-downcase", "char-foldcase",
        "char-alphabetic?", "char-numeric?", "char-whitespace?", "char-upper-case?", "char-lower-case?",
        "char=?", "char<?", "char>?", "char<=?", "char>=?",
        "char-ci=?", "char-ci<?", "char-ci>?", "char-ci<=?", "char-ci>=?",
    ];

    pub fn op_name(s: &str) -> Option<&'static str> {
        OPS.iter().find(|o| **o == s).copied()
    }

    pub fn pool_name(i: usize) -> String {
        format!("s{}", i)
    }

    fn chars_sx(head: &str, cs: &[char]) -> Sx {
        Sx::call(head, cs.iter().map(|c| Sx::Char(*c)).collect())
    }

    pub fn arg_sx(op: &str, a: &Arg) -> Sx {
        match a {
            Arg::S(i) => Sx::Sym(pool_name(*i)),
            Arg::Lit(s) => Sx::Str(s.clone()),
            Arg::Int(i) => big(*i),
            Arg::Char(c) => Sx::Char(*c),
            // the characters reach the procedure in different representations: immediate
            // (arguments of `vector`), or through pairs (elements taken out of a list are
            // references to heap cells), or out of another string
            Arg::Chars(cs) => {
                let variant = (cs.len() + cs.first().map(|c| *c as usize).unwrap_or(0)) % 3;
                if op == "vector->string" {
                    match variant {
                        0 => chars_sx("vector", cs),
                        1 => Sx::call("list->vector", vec![chars_sx("list", cs)]),
                        _ => Sx::call("apply", vec![Sx::sym("vector"), chars_sx("list", cs)]),
                    }
                } else {
                    match variant {
                        0 => chars_sx("list", cs),
                        1 => Sx::call("vector->list", vec![chars_sx("vector", cs)]),
                        _ => Sx::call("string->list", vec![chars_sx("string", cs)]),
                    }
                }
            }
        }
    }

    pub fn step_expr(s: &Step) -> Sx {
        let args: Vec<Sx> = s.args.iter().map(|a| arg_sx(s.op, a)).collect();
        match s.op {
            "ref" => args.into_iter().next().unwrap_or(Sx::Str(String::new())),
            "make-string/1" => Sx::call("string-length", vec![Sx::call("make-string", args)]),
            op => Sx::call(op, args),
        }
    }

    pub fn step_form(s: &Step) -> Sx {
        let e = step_expr(s);
        match s.store {
            Some(k) => Sx::call("define", vec![Sx::Sym(pool_name(k)), e]),
            None => e,
        }
    }

    pub fn render_steps(steps: &[Step]) -> String {
        let mut out = String::new();
        for s in steps {
            step_form(s).write_to(&mut out);
            out.push('\n');
        }
        out
    }

    fn parse_arg(x: &Sx) -> Result<Arg, String> {
        match x {
            Sx::Int(i) => i.to_i128().map(Arg::Int).ok_or_else(|| "integer too large".to_string()),
            Sx::Char(c) => Ok(Arg::Char(*c)),
            Sx::Str(s) => Ok(Arg::Lit(s.clone())),
            Sx::Sym(s) => match s.strip_prefix('s').and_then(|r| r.parse::<usize>().ok()) {
                Some(n) if n < POOL => Ok(Arg::S(n)),
                _ => Err(format!("unknown name {}", s)),
            },
            Sx::List(v) if !v.is_empty() && matches!(v[0].as_sym(), Some("list") | Some("vector") | Some("string")) => {
                let mut cs = vec![];
                for e in v[1..].iter() {
                    match e {
                        Sx::Char(c) => cs.push(*c),
                        o => return Err(format!("not a character: {}", o)),
                    }
                }
                Ok(Arg::Chars(cs))
            }
            // the other spellings of a character container (see arg_sx)
            Sx::List(v) if v.len() == 2 && matches!(v[0].as_sym(), Some("list->vector") | Some("vector->list") | Some("string->list")) => parse_arg(&v[1]),
            Sx::List(v) if v.len() == 3 && v[0].as_sym() == Some("apply") && v[1].as_sym() == Some("vector") => parse_arg(&v[2]),
            o => Err(format!("unsupported argument {}", o)),
        }
    }

    fn parse_expr(x: &Sx, store: Option<usize>) -> Result<Step, String> {
        match x {
            Sx::List(v) if !v.is_empty() => {
                let head = v[0].as_sym().ok_or("operator is not a symbol")?;
                if head == "string-length" && v.len() == 2 && v[1].head_is("make-string") {
                    let inner = v[1].as_list().unwrap();
                    let args = inner[1..].iter().map(parse_arg).collect::<Result<Vec<_>, _>>()?;
                    return Ok(Step { op: "make-string/1", args, store });
                }
                let op = op_name(head).ok_or_else(|| format!("unknown operation {}", head))?;
                let args = v[1..].iter().map(parse_arg).collect::<Result<Vec<_>, _>>()?;
                Ok(Step { op, args, store })
            }
            other => Ok(Step { op: "ref", args: vec![parse_arg(other)?], store }),
        }
    }

    pub fn parse_script(text: &str) -> Result<Vec<Step>, String> {
        let forms = crate::sx::read_all(text)?;
        let mut steps = vec![];
        for f in forms.iter() {
            if f.head_is("define") {
                let v = f.as_list().unwrap();
                if v.len() != 3 {
                    return Err("bad define".into());
                }
                let k = match parse_arg(&v[1])? {
                    Arg::S(k) => k,
                    _ => return Err("define of a non-pool name".into()),
                };
                steps.push(parse_expr(&v[2], Some(k))?);
            } else {
                steps.push(parse_expr(f, None)?);
            }
        }
        Ok(steps)
    }

    #[derive(Clone)]
    pub enum SVal {
        Str(Rc<StrObj>),
        Char(char),
        Int(i128),
        Bool(bool),
        CharList(Vec<char>),
        CharVec(Vec<char>),
        /// the trusted base (Rust std) cannot decide this value
        Unknown,
    }

    pub fn to_sx(v: &SVal) -> Sx {
        match v {
            SVal::Str(s) => Sx::Str(s.chars.borrow().iter().collect()),
            SVal::Char(c) => Sx::Char(*c),
            SVal::Int(i) => big(*i),
            SVal::Bool(b) => Sx::Bool(*b),
            SVal::CharList(cs) => Sx::List(cs.iter().map(|c| Sx::Char(*c)).collect()),
            SVal::CharVec(cs) => Sx::Vector(cs.iter().map(|c| Sx::Char(*c)).collect()),
            SVal::Unknown => Sx::Opaque("unspecified".into()),
        }
    }

    pub enum Res {
        Vals(Vec<SVal>),
        Unspec,
        MustErr,
        /// metamorphic: same outcome as this form
        Same(Sx),
        Invalid(String),
    }

    /// Characters whose simple case folding cannot be derived from Rust's std
    /// tables (std has lower/upper mappings only): folding differs from
    /// lower-casing, or the full mapping is not one-to-one.
    pub fn fold_undecidable(c: char) -> bool {
        let u = c as u32;
        matches!(
            c,
            'ς' | 'ſ' | 'µ' | 'ϐ' | 'ϑ' | 'ϕ' | 'ϖ' | 'ϰ' | 'ϱ' | 'ϵ' | 'ẛ' | 'ẞ' | 'İ' | '\u{1fbe}' | '\u{345}'
        ) || (0x13a0..=0x13fd).contains(&u)
            || (0xab70..=0xabbf).contains(&u)
            || (0x1c80..=0x1c88).contains(&u)
            || c.to_uppercase().count() != 1
            || c.to_lowercase().count() != 1
    }

    fn simple_lower(c: char) -> Option<char> {
        let mut it = c.to_lowercase();
        match (it.next(), it.next()) {
            (Some(x), None) => Some(x),
            _ => None,
        }
    }

    fn simple_upper(c: char) -> Option<char> {
        let mut it = c.to_uppercase();
        match (it.next(), it.next()) {
            (Some(x), None) => Some(x),
            _ => None,
        }
    }

    pub fn nonascii_cased(c: char) -> bool {
        !c.is_ascii() && (c.to_lowercase().next() != Some(c) || c.to_lowercase().count() != 1)
    }

    /// Class of a (start, end) range on a string of `len` characters.
    pub fn range_class(start: Option<i128>, end: Option<i128>, len: usize) -> String {
        let len = len as i128;
        let st = match start {
            None => return "whole".into(),
            Some(s) => s,
        };
        if st < 0 || end.map(|e| e < 0).unwrap_or(false) {
            return "neg".into();
        }
        if let Some(en) = end {
            if st == en {
                return if st > len { "start=end>len".into() } else { "start=end".into() };
            }
            if st > en {
                return "start>end".into();
            }
        }
        if st == len {
            return if end.is_some() { "start=len,end>len".into() } else { "start=len".into() };
        }
        if st > len {
            return if len == 0 { "str:empty,start>len".into() } else { "start>len".into() };
        }
        if let Some(en) = end {
            if en > len {
                return "end>len".into();
            }
        }
        "valid".into()
    }

    pub struct Store {
        pub pool: Vec<Option<Rc<StrObj>>>,
        next: u32,
    }

    impl Default for Store {
        fn default() -> Self {
            Store::new()
        }
    }

    impl Store {
        pub fn new() -> Store {
            Store { pool: vec![None; POOL], next: 0 }
        }

        fn mk(&mut self, cs: Vec<char>) -> Rc<StrObj> {
            self.next += 1;
            Rc::new(StrObj { id: self.next, chars: RefCell::new(cs) })
        }

        /// contents of a string argument (pool string or literal)
        fn str_arg(&self, a: &Arg) -> Result<(Option<Rc<StrObj>>, Vec<char>), String> {
            match a {
                Arg::S(i) => match self.pool.get(*i).and_then(|s| s.clone()) {
                    Some(s) => {
                        let cs = s.chars.borrow().clone();
                        Ok((Some(s), cs))
                    }
                    None => Err(format!("s{} is not defined", i)),
                },
                Arg::Lit(s) => Ok((None, s.chars().collect())),
                o => Err(format!("{:?} is not a string argument", o)),
            }
        }

        pub fn pool_sx(&self) -> Vec<(String, Sx)> {
            self.pool
                .iter()
                .enumerate()
                .filter_map(|(i, s)| s.as_ref().map(|s| (pool_name(i), Sx::Str(s.chars.borrow().iter().collect()))))
                .collect()
        }

        pub fn aliases(&self, id: u32) -> usize {
            self.pool.iter().flatten().filter(|s| s.id == id).count()
        }

        fn ints(s: &Step, from: usize) -> Result<Vec<i128>, String> {
            s.args[from.min(s.args.len())..]
                .iter()
                .map(|a| match a {
                    Arg::Int(i) => Ok(*i),
                    o => Err(format!("{:?} is not an integer", o)),
                })
                .collect()
        }

        /// (class, boundary index?, touches a multi-byte string?)
        pub fn classify(&self, s: &Step) -> (String, bool, bool) {
            let sarg = |i: usize| s.args.get(i).and_then(|a| self.str_arg(a).ok()).map(|x| x.1);
            let int = |i: usize| match s.args.get(i) {
                Some(Arg::Int(k)) => Some(*k),
                _ => None,
            };
            let multibyte = |cs: &Vec<char>| cs.iter().any(|c| c.len_utf8() > 1);
            let mut boundary = false;
            let mut mb = false;
            let all_chars: Vec<char> = s
                .args
                .iter()
                .flat_map(|a| match a {
                    Arg::Char(c) => vec![*c],
                    Arg::Chars(cs) => cs.clone(),
                    Arg::S(_) | Arg::Lit(_) => self.str_arg(a).map(|x| x.1).unwrap_or_default(),
                    _ => vec![],
                })
                .collect();
            let ascii = if all_chars.iter().all(|c| c.is_ascii()) { "ascii" } else { "nonascii" };
            let cls: String = match s.op {
                "string-ref" | "string-set!" => match sarg(0) {
                    Some(cs) => {
                        mb = multibyte(&cs) || matches!(s.args.get(2), Some(Arg::Char(c)) if c.len_utf8() > 1);
                        if cs.is_empty() {
                            boundary = true;
                            "str:empty".into()
                        } else {
                            let ic = index_class(int(1).unwrap_or(0), cs.len());
                            boundary = is_boundary_class(ic);
                            format!("k={}", ic)
                        }
                    }
                    None => "?".into(),
                },
                "substring" | "string-copy" | "string->list" | "string-fill!" => match sarg(0) {
                    Some(cs) => {
                        let off = if s.op == "string-fill!" { 2 } else { 1 };
                        mb = multibyte(&cs) || matches!(s.args.get(1), Some(Arg::Char(c)) if c.len_utf8() > 1);
                        let (a, b) = (int(off), int(off + 1));
                        let len = cs.len() as i128;
                        boundary = [a, b].iter().flatten().any(|k| *k == 0 || *k == len || *k == len - 1 || *k == len + 1);
                        mb = mb && (a.is_some() || s.op == "string-fill!");
                        range_class(a, b, cs.len())
                    }
                    None => "?".into(),
                },
                "string" | "string-append" => (if s.args.is_empty() { "argc=0" } else { "argc>0" }).into(),
                "make-string" | "make-string/1" => {
                    let k = int(0).unwrap_or(0);
                    (if k < 0 { "k<0" } else if k == 0 { "k=0" } else { "k>0" }).into()
                }
                "integer->char" => {
                    let n = int(0).unwrap_or(0);
                    boundary = matches!(n, 0xd7ff | 0xd800 | 0xdfff | 0xe000 | 0x10ffff | 0x110000 | 0 | -1);
                    (if n < 0 {
                        "neg"
                    } else if n >= (1i128 << 32) {
                        "huge"
                    } else if n > 0x10ffff {
                        ">10ffff"
                    } else if (0xd800..=0xdfff).contains(&n) {
                        "surrogate"
                    } else {
                        "valid"
                    })
                    .into()
                }
                op if op.starts_with("char-ci") || op.starts_with("string-ci") => {
                    (if all_chars.iter().any(|c| nonascii_cased(*c)) { "nonascii-cased" } else { "plain" }).into()
                }
                "string-upcase" | "string-downcase" | "string-foldcase" => {
                    let sig = all_chars.contains(&'Σ');
                    format!("{}{}", ascii, if sig { ",has-capital-sigma" } else { "" })
                }
                "char-upcase" | "char-downcase" | "char-foldcase" => {
                    let multi = all_chars.iter().any(|c| c.to_uppercase().count() != 1 || c.to_lowercase().count() != 1);
                    format!("{}{}", ascii, if multi { ",multi-map" } else { "" })
                }
                op if op.starts_with("char") => ascii.into(),
                op if op.starts_with("string") && CMP.iter().any(|c| op.ends_with(c)) => format!("argc={}", s.args.len()),
                _ => ascii.into(),
            };
            (cls, boundary, mb)
        }

        /// Execute one operation on the model (R7RS 6.6, 6.7; the character
        /// tables are those of Rust's std, the trusted base of this check).
        pub fn apply(&mut self, s: &Step) -> Res {
            macro_rules! tryi {
                ($e:expr) => {
                    match $e {
                        Ok(v) => v,
                        Err(e) => return Res::Invalid(e),
                    }
                };
            }
            let argc = s.args.len();
            let one = |v: SVal| Res::Vals(vec![v]);
            let char_args = || -> Result<Vec<char>, String> {
                s.args
                    .iter()
                    .map(|a| match a {
                        Arg::Char(c) => Ok(*c),
                        o => Err(format!("{:?} is not a character", o)),
                    })
                    .collect()
            };
            // valid range on a string of n characters
            let range = |st: Option<i128>, en: Option<i128>, n: usize| -> Option<(usize, usize)> {
                let n = n as i128;
                let st = st.unwrap_or(0);
                let en = en.unwrap_or(n);
                if st < 0 || en < 0 || st > en || en > n {
                    None
                } else {
                    Some((st as usize, en as usize))
                }
            };
            match s.op {
                "ref" => {
                    if argc != 1 {
                        return Res::Invalid("ref takes one argument".into());
                    }
                    match &s.args[0] {
                        Arg::S(_) => {
                            let (o, _) = tryi!(self.str_arg(&s.args[0]));
                            one(SVal::Str(o.unwrap()))
                        }
                        _ => Res::Invalid("only a pool string can be aliased".into()),
                    }
                }
                "string-copy" | "substring" | "string->list" => {
                    if argc == 0 || argc > 3 || (s.op == "substring" && argc != 3) {
                        return Res::Invalid("arity".into());
                    }
                    let (_, cs) = tryi!(self.str_arg(&s.args[0]));
                    let iv = tryi!(Self::ints(s, 1));
                    match range(iv.first().copied(), iv.get(1).copied(), cs.len()) {
                        Some((a, b)) => {
                            let sub = cs[a..b].to_vec();
                            if s.op == "string->list" {
                                one(SVal::CharList(sub))
                            } else {
                                let o = self.mk(sub);
                                one(SVal::Str(o))
                            }
                        }
                        None => Res::MustErr,
                    }
                }
                "string" => {
                    let cs = tryi!(char_args());
                    let o = self.mk(cs);
                    one(SVal::Str(o))
                }
                "make-string" | "make-string/1" => {
                    if (s.op == "make-string") != (argc == 2) || argc == 0 {
                        return Res::Invalid("arity".into());
                    }
                    let k = match &s.args[0] {
                        Arg::Int(k) => *k,
                        _ => return Res::Invalid("size is not an integer".into()),
                    };
                    if k < 0 {
                        return Res::MustErr;
                    }
                    if k > 64 {
                        return Res::Invalid("size too large for the harness".into());
                    }
                    if s.op == "make-string/1" {
                        return one(SVal::Int(k));
                    }
                    let c = match &s.args[1] {
                        Arg::Char(c) => *c,
                        _ => return Res::Invalid("fill is not a character".into()),
                    };
                    let o = self.mk(vec![c; k as usize]);
                    one(SVal::Str(o))
                }
                "list->string" | "vector->string" => match s.args.first() {
                    Some(Arg::Chars(cs)) if argc == 1 => {
                        let o = self.mk(cs.clone());
                        one(SVal::Str(o))
                    }
                    _ => Res::Invalid("expects one inline character sequence".into()),
                },
                "string-length" => {
                    if argc != 1 {
                        return Res::Invalid("arity".into());
                    }
                    let (_, cs) = tryi!(self.str_arg(&s.args[0]));
                    one(SVal::Int(cs.len() as i128))
                }
                "string-ref" => {
                    if argc != 2 {
                        return Res::Invalid("arity".into());
                    }
                    let (_, cs) = tryi!(self.str_arg(&s.args[0]));
                    let k = tryi!(Self::ints(s, 1))[0];
                    if k >= 0 && k < cs.len() as i128 {
                        one(SVal::Char(cs[k as usize]))
                    } else {
                        Res::MustErr
                    }
                }
                "string-set!" => {
                    if argc != 3 {
                        return Res::Invalid("arity".into());
                    }
                    let (o, cs) = tryi!(self.str_arg(&s.args[0]));
                    let o = match o {
                        Some(o) => o,
                        None => return Res::Invalid("mutation of a literal".into()),
                    };
                    let k = match &s.args[1] {
                        Arg::Int(k) => *k,
                        _ => return Res::Invalid("index is not an integer".into()),
                    };
                    let c = match &s.args[2] {
                        Arg::Char(c) => *c,
                        _ => return Res::Invalid("not a character".into()),
                    };
                    if k >= 0 && k < cs.len() as i128 {
                        o.chars.borrow_mut()[k as usize] = c;
                        Res::Unspec
                    } else {
                        Res::MustErr
                    }
                }
                "string-fill!" => {
                    if !(2..=4).contains(&argc) {
                        return Res::Invalid("arity".into());
                    }
                    let (o, cs) = tryi!(self.str_arg(&s.args[0]));
                    let o = match o {
                        Some(o) => o,
                        None => return Res::Invalid("mutation of a literal".into()),
                    };
                    let c = match &s.args[1] {
                        Arg::Char(c) => *c,
                        _ => return Res::Invalid("not a character".into()),
                    };
                    let iv = tryi!(Self::ints(s, 2));
                    match range(iv.first().copied(), iv.get(1).copied(), cs.len()) {
                        Some((a, b)) => {
                            for slot in o.chars.borrow_mut()[a..b].iter_mut() {
                                *slot = c;
                            }
                            Res::Unspec
                        }
                        None => Res::MustErr,
                    }
                }
                "string->vector" => {
                    if argc != 1 {
                        return Res::Invalid("arity".into());
                    }
                    let (_, cs) = tryi!(self.str_arg(&s.args[0]));
                    one(SVal::CharVec(cs))
                }
                "string-append" => {
                    let mut out = vec![];
                    for a in s.args.iter() {
                        out.extend(tryi!(self.str_arg(a)).1);
                    }
                    let o = self.mk(out);
                    one(SVal::Str(o))
                }
                "string-upcase" | "string-downcase" | "string-foldcase" => {
                    if argc != 1 {
                        return Res::Invalid("arity".into());
                    }
                    let (_, cs) = tryi!(self.str_arg(&s.args[0]));
                    let text: String = cs.iter().collect();
                    let mut vals: Vec<Vec<char>> = vec![];
                    match s.op {
                        "string-upcase" => vals.push(text.to_uppercase().chars().collect()),
                        "string-downcase" => {
                            // full lower-casing with and without the context-sensitive final sigma
                            vals.push(text.to_lowercase().chars().collect());
                            let per: Vec<char> = cs.iter().flat_map(|c| c.to_lowercase()).collect();
                            if per != vals[0] {
                                vals.push(per);
                            }
                        }
                        _ => {
                            if cs.iter().any(|c| fold_undecidable(*c)) {
                                return one(SVal::Unknown);
                            }
                            // folding has no context rule: every character folds by itself
                            vals.push(cs.iter().map(|c| simple_lower(*c).unwrap_or(*c)).collect());
                        }
                    }
                    let objs: Vec<SVal> = vals.into_iter().map(|v| SVal::Str(self.mk(v))).collect();
                    Res::Vals(objs)
                }
                op if op.starts_with("string-ci") => {
                    if argc < 2 {
                        return Res::Invalid("arity".into());
                    }
                    for a in s.args.iter() {
                        tryi!(self.str_arg(a));
                    }
                    let plain = format!("string{}", &op["string-ci".len()..]);
                    let folded: Vec<Sx> = s.args.iter().map(|a| Sx::call("string-foldcase", vec![arg_sx(op, a)])).collect();
                    Res::Same(Sx::call(&plain, folded))
                }
                op if op.starts_with("char-ci") => {
                    if argc < 2 {
                        return Res::Invalid("arity".into());
                    }
                    let cs = tryi!(char_args());
                    let plain = format!("char{}", &op["char-ci".len()..]);
                    let folded: Vec<Sx> = cs.iter().map(|c| Sx::call("char-foldcase", vec![Sx::Char(*c)])).collect();
                    Res::Same(Sx::call(&plain, folded))
                }
                "string=?" | "string<?" | "string>?" | "string<=?" | "string>=?" | "char=?" | "char<?" | "char>?" | "char<=?" | "char>=?" => {
                    if argc < 2 {
                        return Res::Invalid("arity".into());
                    }
                    // lexicographic on scalar values; a character is a one-element sequence
                    let mut seqs: Vec<Vec<char>> = vec![];
                    if s.op.starts_with("char") {
                        for c in tryi!(char_args()) {
                            seqs.push(vec![c]);
                        }
                    } else {
                        for a in s.args.iter() {
                            seqs.push(tryi!(self.str_arg(a)).1);
                        }
                    }
                    let rel = s.op.trim_start_matches("string").trim_start_matches("char");
                    let ok = seqs.windows(2).all(|w| {
                        let o = w[0].cmp(&w[1]);
                        match rel {
                            "=?" => o.is_eq(),
                            "<?" => o.is_lt(),
                            ">?" => o.is_gt(),
                            "<=?" => o.is_le(),
                            _ => o.is_ge(),
                        }
                    });
                    one(SVal::Bool(ok))
                }
                "char->integer" => {
                    let cs = tryi!(char_args());
                    if cs.len() != 1 {
                        return Res::Invalid("arity".into());
                    }
                    one(SVal::Int(cs[0] as u32 as i128))
                }
                "integer->char" => {
                    let iv = tryi!(Self::ints(s, 0));
                    if iv.len() != 1 {
                        return Res::Invalid("arity".into());
                    }
                    let n = iv[0];
                    if (0..=0x10ffff).contains(&n) {
                        match char::from_u32(n as u32) {
                            Some(c) => one(SVal::Char(c)),
                            None => Res::MustErr,
                        }
                    } else {
                        Res::MustErr
                    }
                }
                "char-upcase" | "char-downcase" | "char-foldcase" | "char-alphabetic?" | "char-numeric?" | "char-whitespace?"
                | "char-upper-case?" | "char-lower-case?" => {
                    let cs = tryi!(char_args());
                    if cs.len() != 1 {
                        return Res::Invalid("arity".into());
                    }
                    let c = cs[0];
                    one(match s.op {
                        "char-upcase" => simple_upper(c).map(SVal::Char).unwrap_or(SVal::Unknown),
                        "char-downcase" => simple_lower(c).map(SVal::Char).unwrap_or(SVal::Unknown),
                        "char-foldcase" => {
                            if fold_undecidable(c) {
                                SVal::Unknown
                            } else {
                                SVal::Char(simple_lower(c).unwrap_or(c))
                            }
                        }
                        "char-alphabetic?" => SVal::Bool(c.is_alphabetic()),
                        "char-numeric?" => SVal::Bool(c.is_numeric()),
                        "char-whitespace?" => SVal::Bool(c.is_whitespace()),
                        "char-upper-case?" => SVal::Bool(c.is_uppercase()),
                        _ => SVal::Bool(c.is_lowercase()),
                    })
                }
                other => Res::Invalid(format!("unknown operation {}", other)),
            }
        }
    }

    fn is_mutator(op: &str) -> bool {
        matches!(op, "string-set!" | "string-fill!")
    }

    pub fn build_script(steps: &[Step]) -> Result<Script, String> {
        let mut st = Store::new();
        let mut out = Script::default();
        for s in steps {
            let (class, boundary, mb) = st.classify(s);
            let res = st.apply(s);
            let expect = match res {
                Res::Invalid(e) => return Err(format!("{}: {}", step_form(s), e)),
                Res::Vals(vs) => match s.store {
                    Some(k) => match vs.as_slice() {
                        [SVal::Str(o)] => {
                            st.pool[k] = Some(o.clone());
                            Expect::AnyValue
                        }
                        _ => return Err("only a determined string result can be stored".into()),
                    },
                    None => Expect::Value(vs.iter().map(to_sx).collect()),
                },
                Res::Unspec => {
                    if s.store.is_some() {
                        return Err("an unspecified value cannot be stored".into());
                    }
                    Expect::AnyValue
                }
                Res::MustErr => Expect::Error,
                Res::Same(f) => {
                    if s.store.is_some() {
                        return Err("a predicate result cannot be stored".into());
                    }
                    Expect::SameAs(f)
                }
            };
            out.steps.push(ScriptStep {
                pre: vec![],
                form: step_form(s),
                expect,
                post: None,
                pool_after: st.pool_sx(),
                audits: vec![],
                op: s.op,
                class,
                mutator: is_mutator(s.op),
                stored: s.store.map(pool_name),
                diverges: is_mutator(s.op) || s.store.is_some(),
                nontrivial: boundary || mb,
            });
        }
        Ok(out)
    }

    // ---------------------------------------------------------------
    // generator
    // ---------------------------------------------------------------

    const W1: [char; 16] = ['a', 'z', 'A', 'Z', 'b', 'B', '0', '9', ' ', '~', '\0', '\n', '\t', '(', '"', '\\'];
    const W2: [char; 20] = [
        'é', 'É', 'λ', 'Λ', 'ß', 'я', 'Я', 'µ', 'ÿ', '\u{a0}', '\u{85}', '٣', 'ǅ', 'İ', 'ı', 'ſ', 'Σ', 'σ', 'ς', '\u{7ff}',
    ];
    const W3: [char; 16] = [
        '日', '€', 'ẞ', 'ꙁ', 'Ꙁ', '\u{2003}', '\u{2028}', 'Ⅷ', 'ﬁ', 'ᾳ', '\u{ffff}', '\u{fffd}', '\u{e000}', '\u{d7ff}', 'Ꭰ', 'ꭰ',
    ];
    const W4: [char; 7] = ['𝒳', '🐶', '𐐀', '𐐨', '\u{10ffff}', '\u{10000}', '𒀀'];
    const LITS: [&str; 12] = ["", "abc", "o🐶o", "λx", "日本語", "aé日𝒳", "Straße", "ΑΣ", "HELLO", "Zz", "𝒳🐶", "ǅa"];
    const CODES: [i128; 22] = [
        0, 65, 955, 0xd7ff, 0xd800, 0xdbff, 0xdc00, 0xdfff, 0xe000, 0xffff, 0x10000, 0x10ffff, 0x110000, 0x110001, -1, -65,
        (1 << 32) - 1, 1 << 32, (1 << 32) + 65, 1 << 63, (1 << 64) + 65, -(1 << 63),
    ];

    pub fn gen_char(c: &mut Choices) -> char {
        match c.weighted(&[30, 25, 20, 20, 5]) {
            0 => W1[c.below(W1.len())],
            1 => W2[c.below(W2.len())],
            2 => W3[c.below(W3.len())],
            3 => W4[c.below(W4.len())],
            _ => char::from_u32(c.u32() % 0x110000).unwrap_or('\u{fffd}'),
        }
    }

    fn gen_chars(c: &mut Choices, max: usize) -> Vec<char> {
        let n = c.below(max + 1);
        (0..n).map(|_| gen_char(c)).collect()
    }

    pub struct Gen<'a, 'b> {
        pub c: &'a mut Choices<'b>,
        pub st: Store,
        pub steps: Vec<Step>,
        pub stats: GenStats,
        pub damp: &'a dyn Fn(&str, &str) -> bool,
    }

    impl<'a, 'b> Gen<'a, 'b> {
        fn defined(&self) -> Vec<usize> {
            (0..POOL).filter(|i| self.st.pool[*i].is_some()).collect()
        }

        fn pool_str(&mut self) -> Option<usize> {
            let d = self.defined();
            if d.is_empty() {
                None
            } else {
                Some(d[self.c.below(d.len())])
            }
        }

        /// a string argument for a non-mutating operation
        fn str_arg(&mut self) -> Arg {
            if self.c.chance(200) {
                if let Some(i) = self.pool_str() {
                    return Arg::S(i);
                }
            }
            if self.c.flip() {
                Arg::Lit(LITS[self.c.below(LITS.len())].to_string())
            } else {
                Arg::Lit(gen_chars(self.c, 5).into_iter().collect())
            }
        }

        fn len_of(&self, a: &Arg) -> usize {
            self.st.str_arg(a).map(|x| x.1.len()).unwrap_or(0)
        }

        fn free_slot(&mut self) -> usize {
            let free: Vec<usize> = (0..POOL).filter(|i| self.st.pool[*i].is_none()).collect();
            if !free.is_empty() && !self.c.chance(40) {
                free[0]
            } else {
                self.c.below(POOL)
            }
        }

        /// start/end arguments: mostly a valid range, otherwise boundary picks
        fn range_args(&mut self, len: usize, max_args: usize) -> Vec<Arg> {
            let n = self.c.below(max_args + 1);
            if n == 0 {
                return vec![];
            }
            if self.c.chance(170) {
                let a = self.c.below(len + 1);
                let b = a + self.c.below(len - a + 1);
                let mut v = vec![Arg::Int(a as i128)];
                if n == 2 {
                    v.push(Arg::Int(b as i128));
                }
                v
            } else {
                (0..n).map(|_| Arg::Int(pick_index(self.c, len))).collect()
            }
        }

        fn push(&mut self, s: Step) -> bool {
            let (class, _, _) = self.st.classify(&s);
            if (self.damp)(s.op, &class) && self.c.below(8) != 7 {
                self.stats.damped += 1;
                return false;
            }
            match self.st.apply(&s) {
                Res::Invalid(_) => {
                    self.stats.no_candidate += 1;
                    false
                }
                Res::Vals(vs) => {
                    if let Some(k) = s.store {
                        match vs.as_slice() {
                            [SVal::Str(o)] => self.st.pool[k] = Some(o.clone()),
                            _ => return false,
                        }
                    }
                    self.steps.push(s);
                    true
                }
                Res::MustErr => {
                    self.steps.push(s);
                    true
                }
                Res::Unspec | Res::Same(_) => {
                    if s.store.is_some() {
                        return false;
                    }
                    self.steps.push(s);
                    true
                }
            }
        }

        fn init_string(&mut self) {
            let k = self.free_slot();
            let s = match self.c.weighted(&[30, 25, 12, 10, 8, 15]) {
                0 => Step { op: "string-copy", args: vec![Arg::Lit(LITS[self.c.below(LITS.len())].to_string())], store: Some(k) },
                1 => Step { op: "string-copy", args: vec![Arg::Lit(gen_chars(self.c, 6).into_iter().collect())], store: Some(k) },
                2 => {
                    let mut cs = gen_chars(self.c, 3);
                    cs.push(gen_char(self.c));
                    Step { op: "string", args: cs.into_iter().map(Arg::Char).collect(), store: Some(k) }
                }
                3 => Step { op: "make-string", args: vec![Arg::Int(self.c.below(4) as i128), Arg::Char(gen_char(self.c))], store: Some(k) },
                4 => Step { op: "list->string", args: vec![Arg::Chars(gen_chars(self.c, 4))], store: Some(k) },
                _ => match self.pool_str() {
                    Some(j) => Step { op: "ref", args: vec![Arg::S(j)], store: Some(k) },
                    None => Step { op: "string-copy", args: vec![Arg::Lit(String::new())], store: Some(k) },
                },
            };
            self.push(s);
        }

        fn gen_op(&mut self) {
            const W: [u32; 47] = [
                6, 2, 3, 1, 3, 3, // string-copy string make-string make-string/1 list->string vector->string
                3, 8, 10, 6, 9, 6, // string-length string-ref string-set! substring string-fill! string->list
                3, 5, 3, 3, 3, // string->vector string-append upcase downcase foldcase
                2, 3, 2, 2, 2, // string=? < > <= >=
                3, 3, 2, 2, 2, // string-ci
                3, 7, 3, 3, 3, // char->integer integer->char char-upcase char-downcase char-foldcase
                2, 2, 2, 2, 2, // predicates
                2, 2, 2, 1, 1, // char=? ...
                3, 2, 2, 2, 2, // char-ci
            ];
            let op = OPS[1 + self.c.weighted(&W)];
            let k = self.free_slot();
            let want_store = self.c.chance(120);
            let st = |b: bool| if b { Some(k) } else { None };
            let step: Option<Step> = match op {
                "string-copy" | "string->list" => {
                    let a = self.str_arg();
                    let n = self.len_of(&a);
                    let mut args = vec![a];
                    args.extend(self.range_args(n, 2));
                    Some(Step { op, args, store: st(want_store && op == "string-copy") })
                }
                "substring" => {
                    let a = self.str_arg();
                    let n = self.len_of(&a);
                    let mut r = self.range_args(n, 2);
                    while r.len() < 2 {
                        r.push(Arg::Int(pick_index(self.c, n)));
                    }
                    Some(Step { op, args: vec![a, r[0].clone(), r[1].clone()], store: st(want_store) })
                }
                "string" => Some(Step { op, args: gen_chars(self.c, 4).into_iter().map(Arg::Char).collect(), store: st(want_store) }),
                "make-string" => Some(Step { op, args: vec![Arg::Int(self.c.range(-1, 5) as i128), Arg::Char(gen_char(self.c))], store: st(want_store) }),
                "make-string/1" => Some(Step { op, args: vec![Arg::Int(self.c.range(-1, 5) as i128)], store: None }),
                "list->string" | "vector->string" => Some(Step { op, args: vec![Arg::Chars(gen_chars(self.c, 5))], store: st(want_store) }),
                "string-length" | "string->vector" | "string-upcase" | "string-downcase" | "string-foldcase" => {
                    Some(Step { op, args: vec![self.str_arg()], store: st(want_store && op.ends_with("case") && op != "string-foldcase") })
                }
                "string-ref" => {
                    let a = self.str_arg();
                    let n = self.len_of(&a);
                    Some(Step { op, args: vec![a, Arg::Int(pick_index(self.c, n))], store: None })
                }
                "string-set!" => self.pool_str().map(|i| {
                    let n = self.len_of(&Arg::S(i));
                    let kx = pick_index(self.c, n);
                    Step { op, args: vec![Arg::S(i), Arg::Int(kx), Arg::Char(gen_char(self.c))], store: None }
                }),
                "string-fill!" => self.pool_str().map(|i| {
                    let n = self.len_of(&Arg::S(i));
                    let mut args = vec![Arg::S(i), Arg::Char(gen_char(self.c))];
                    args.extend(self.range_args(n, 2));
                    // Generated programs must be bounded: with start = length the SUT skips the
                    // validation of end and builds end-start fill characters (known finding
                    // `string-fill!|start=len,end>len`); a huge end would exhaust memory, which
                    // the driver can only report as inconclusive. Keep end small in that class.
                    if let (Some(Arg::Int(a)), Some(Arg::Int(b))) = (args.get(2).cloned(), args.get(3).cloned()) {
                        if a == n as i128 && b > n as i128 + 7 {
                            args[3] = Arg::Int(n as i128 + 7);
                        }
                    }
                    Step { op, args, store: None }
                }),
                "string-append" => {
                    let n = self.c.weighted(&[1, 3, 8, 4]);
                    Some(Step { op, args: (0..n).map(|_| self.str_arg()).collect(), store: st(want_store) })
                }
                "integer->char" => Some(Step { op, args: vec![Arg::Int(CODES[self.c.below(CODES.len())])], store: None }),
                op if op.starts_with("string") => {
                    // comparisons: related strings half of the time
                    let n = 2 + self.c.weighted(&[8, 3]);
                    let first = self.str_arg();
                    let base: Vec<char> = self.st.str_arg(&first).map(|x| x.1).unwrap_or_default();
                    let mut args = vec![first];
                    for _ in 1..n {
                        let a = match self.c.weighted(&[4, 2, 2, 2]) {
                            0 => self.str_arg(),
                            1 => Arg::Lit(base.iter().collect()),
                            2 => {
                                // case variant
                                let t: String = base.iter().collect();
                                Arg::Lit(if self.c.flip() { t.to_uppercase() } else { t.to_lowercase() })
                            }
                            _ => {
                                // prefix / extension
                                let mut t = base.clone();
                                if self.c.flip() && !t.is_empty() {
                                    t.pop();
                                } else {
                                    t.push(gen_char(self.c));
                                }
                                Arg::Lit(t.into_iter().collect())
                            }
                        };
                        args.push(a);
                    }
                    Some(Step { op, args, store: None })
                }
                op if op.ends_with('?') && CMP.iter().any(|x| op.ends_with(x)) => {
                    // character comparisons: case partners half of the time
                    let n = 2 + self.c.weighted(&[8, 3]);
                    let first = gen_char(self.c);
                    let mut args = vec![Arg::Char(first)];
                    for _ in 1..n {
                        let ch = match self.c.weighted(&[4, 3, 3]) {
                            0 => gen_char(self.c),
                            1 => first,
                            _ => {
                                let up: Vec<char> = first.to_uppercase().collect();
                                let lo: Vec<char> = first.to_lowercase().collect();
                                if up.len() == 1 && up[0] != first {
                                    up[0]
                                } else if lo.len() == 1 {
                                    lo[0]
                                } else {
                                    first
                                }
                            }
                        };
                        args.push(Arg::Char(ch));
                    }
                    Some(Step { op, args, store: None })
                }
                _ => Some(Step { op, args: vec![Arg::Char(gen_char(self.c))], store: None }),
            };
            match step {
                Some(s) => {
                    self.push(s);
                }
                None => self.stats.no_candidate += 1,
            }
        }
    }

    /// Decode one case: 2..=5 string definitions (some aliased), then up to 10 operations.
    pub fn gen_case(c: &mut Choices, damp: &dyn Fn(&str, &str) -> bool) -> (Vec<Step>, GenStats) {
        let mut g = Gen { c, st: Store::new(), steps: vec![], stats: GenStats::default(), damp };
        let n_init = 2 + g.c.below(4);
        for _ in 0..n_init {
            g.init_string();
        }
        let base = g.steps.len();
        let n_ops = 1 + g.c.below(MAX_OPS);
        let mut tries = 0;
        while g.steps.len() - base < n_ops && tries < 3 * MAX_OPS {
            g.gen_op();
            tries += 1;
        }
        (g.steps, g.stats)
    }
}
