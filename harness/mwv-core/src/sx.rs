//! The harness' own S-expression type, independent of the SUT: used for
//! generated programs, expected values and structural comparison.

use num::bigint::BigInt;
use num::BigRational;
use std::fmt;

#[derive(Clone, Debug)]
pub enum Sx {
    Bool(bool),
    Int(BigInt),
    Rat(BigRational),
    Real(f64),
    Char(char),
    Str(String),
    Sym(String),
    /// proper list; `List(vec![])` is the empty list
    List(Vec<Sx>),
    /// improper list: at least one element, tail is not a list
    Dotted(Vec<Sx>, Box<Sx>),
    Vector(Vec<Sx>),
    /// procedure, continuation, unspecified, ... (never equal to data)
    Opaque(String),
}

impl Sx {
    pub fn sym(s: &str) -> Sx {
        Sx::Sym(s.to_string())
    }
    pub fn int(i: i64) -> Sx {
        Sx::Int(BigInt::from(i))
    }
    pub fn nil() -> Sx {
        Sx::List(vec![])
    }
    pub fn list(v: Vec<Sx>) -> Sx {
        Sx::List(v)
    }
    pub fn call(head: &str, mut args: Vec<Sx>) -> Sx {
        let mut v = vec![Sx::sym(head)];
        v.append(&mut args);
        Sx::List(v)
    }
    pub fn quote(x: Sx) -> Sx {
        Sx::List(vec![Sx::sym("quote"), x])
    }
    pub fn is_nil(&self) -> bool {
        matches!(self, Sx::List(v) if v.is_empty())
    }
    pub fn as_sym(&self) -> Option<&str> {
        match self {
            Sx::Sym(s) => Some(s),
            _ => None,
        }
    }
    pub fn as_list(&self) -> Option<&[Sx]> {
        match self {
            Sx::List(v) => Some(v),
            _ => None,
        }
    }
    pub fn head_is(&self, s: &str) -> bool {
        match self {
            Sx::List(v) => v.first().and_then(|h| h.as_sym()) == Some(s),
            _ => false,
        }
    }

    /// Number of nodes (for size bounds and statistics).
    pub fn size(&self) -> usize {
        match self {
            Sx::List(v) | Sx::Vector(v) => 1 + v.iter().map(|x| x.size()).sum::<usize>(),
            Sx::Dotted(v, t) => 1 + v.iter().map(|x| x.size()).sum::<usize>() + t.size(),
            _ => 1,
        }
    }

    pub fn depth(&self) -> usize {
        match self {
            Sx::List(v) | Sx::Vector(v) => 1 + v.iter().map(|x| x.depth()).max().unwrap_or(0),
            Sx::Dotted(v, t) => {
                1 + v
                    .iter()
                    .map(|x| x.depth())
                    .max()
                    .unwrap_or(0)
                    .max(t.depth())
            }
            _ => 0,
        }
    }

    /// Visit every node.
    pub fn walk<F: FnMut(&Sx)>(&self, f: &mut F) {
        f(self);
        match self {
            Sx::List(v) | Sx::Vector(v) => v.iter().for_each(|x| x.walk(f)),
            Sx::Dotted(v, t) => {
                v.iter().for_each(|x| x.walk(f));
                t.walk(f);
            }
            _ => {}
        }
    }

    /// Strict structural equality: variant, value, exactness, float bits.
    /// `Opaque("unspecified")` on the *expected* side (self) matches anything.
    pub fn matches(&self, got: &Sx) -> bool {
        match (self, got) {
            (Sx::Opaque(s), _) if s == "unspecified" => true,
            (Sx::Opaque(a), Sx::Opaque(b)) => a == b,
            (Sx::Bool(a), Sx::Bool(b)) => a == b,
            (Sx::Int(a), Sx::Int(b)) => a == b,
            (Sx::Rat(a), Sx::Rat(b)) => a == b,
            (Sx::Real(a), Sx::Real(b)) => a.to_bits() == b.to_bits(),
            (Sx::Char(a), Sx::Char(b)) => a == b,
            (Sx::Str(a), Sx::Str(b)) => a == b,
            (Sx::Sym(a), Sx::Sym(b)) => a == b,
            (Sx::List(a), Sx::List(b)) | (Sx::Vector(a), Sx::Vector(b)) => {
                a.len() == b.len() && a.iter().zip(b.iter()).all(|(x, y)| x.matches(y))
            }
            (Sx::Dotted(a, ta), Sx::Dotted(b, tb)) => {
                a.len() == b.len()
                    && a.iter().zip(b.iter()).all(|(x, y)| x.matches(y))
                    && ta.matches(tb)
            }
            _ => false,
        }
    }
}

pub fn write_char_literal(c: char, out: &mut String) {
    match c {
        ' ' => out.push_str("#\\space"),
        '\n' => out.push_str("#\\newline"),
        c if (c as u32) < 0x20 || c as u32 == 0x7f || c.is_control() || c.is_whitespace() => {
            out.push_str(&format!("#\\x{:x}", c as u32))
        }
        c => {
            out.push_str("#\\");
            out.push(c);
        }
    }
}

pub fn write_string_literal(s: &str, out: &mut String) {
    out.push('"');
    for c in s.chars() {
        match c {
            '"' => out.push_str("\\\""),
            '\\' => out.push_str("\\\\"),
            '\n' => out.push_str("\\n"),
            '\t' => out.push_str("\\t"),
            '\r' => out.push_str("\\r"),
            c if c.is_control() => out.push_str(&format!("\\x{:x};", c as u32)),
            c => out.push(c),
        }
    }
    out.push('"');
}

impl Sx {
    pub fn write_to(&self, out: &mut String) {
        match self {
            Sx::Bool(true) => out.push_str("#t"),
            Sx::Bool(false) => out.push_str("#f"),
            Sx::Int(i) => out.push_str(&i.to_string()),
            Sx::Rat(r) => out.push_str(&format!("{}/{}", r.numer(), r.denom())),
            Sx::Real(f) => {
                if f.is_finite() && f.fract() == 0.0 && f.abs() < 1e15 {
                    out.push_str(&format!("{:.1}", f))
                } else {
                    out.push_str(&format!("{:e}", f))
                }
            }
            Sx::Char(c) => write_char_literal(*c, out),
            Sx::Str(s) => write_string_literal(s, out),
            Sx::Sym(s) => out.push_str(s),
            Sx::List(v) => {
                out.push('(');
                for (i, x) in v.iter().enumerate() {
                    if i > 0 {
                        out.push(' ');
                    }
                    x.write_to(out);
                }
                out.push(')');
            }
            Sx::Dotted(v, t) => {
                out.push('(');
                for (i, x) in v.iter().enumerate() {
                    if i > 0 {
                        out.push(' ');
                    }
                    x.write_to(out);
                }
                out.push_str(" . ");
                t.write_to(out);
                out.push(')');
            }
            Sx::Vector(v) => {
                out.push_str("#(");
                for (i, x) in v.iter().enumerate() {
                    if i > 0 {
                        out.push(' ');
                    }
                    x.write_to(out);
                }
                out.push(')');
            }
            Sx::Opaque(s) => {
                out.push_str("#<");
                out.push_str(s);
                out.push('>');
            }
        }
    }
}

impl fmt::Display for Sx {
    fn fmt(&self, f: &mut fmt::Formatter<'_>) -> fmt::Result {
        let mut s = String::new();
        self.write_to(&mut s);
        f.write_str(&s)
    }
}

/// A small reader for the harness' own use (corpus programs, hand-written
/// scenarios in the harness source). Supports the subset the generators emit.
pub fn read_all(text: &str) -> Result<Vec<Sx>, String> {
    let chars: Vec<char> = text.chars().collect();
    let mut pos = 0;
    let mut out = vec![];
    loop {
        skip_ws(&chars, &mut pos);
        if pos >= chars.len() {
            return Ok(out);
        }
        out.push(read_one(&chars, &mut pos)?);
    }
}

pub fn read(text: &str) -> Result<Sx, String> {
    let mut v = read_all(text)?;
    if v.len() == 1 {
        Ok(v.remove(0))
    } else {
        Err(format!("expected one datum, found {}", v.len()))
    }
}

fn skip_ws(c: &[char], pos: &mut usize) {
    while *pos < c.len() {
        if c[*pos].is_whitespace() {
            *pos += 1;
        } else if c[*pos] == ';' {
            while *pos < c.len() && c[*pos] != '\n' {
                *pos += 1;
            }
        } else {
            break;
        }
    }
}

fn is_delim(ch: char) -> bool {
    ch.is_whitespace() || matches!(ch, '(' | ')' | '[' | ']' | '"' | ';' | '\'')
}

fn read_one(c: &[char], pos: &mut usize) -> Result<Sx, String> {
    skip_ws(c, pos);
    if *pos >= c.len() {
        return Err("eof".into());
    }
    let ch = c[*pos];
    match ch {
        '(' | '[' => {
            *pos += 1;
            let mut items = vec![];
            loop {
                skip_ws(c, pos);
                if *pos >= c.len() {
                    return Err("eof in list".into());
                }
                if c[*pos] == ')' || c[*pos] == ']' {
                    *pos += 1;
                    return Ok(Sx::List(items));
                }
                if c[*pos] == '.' && *pos + 1 < c.len() && is_delim(c[*pos + 1]) {
                    *pos += 1;
                    let tail = read_one(c, pos)?;
                    skip_ws(c, pos);
                    if *pos < c.len() && (c[*pos] == ')' || c[*pos] == ']') {
                        *pos += 1;
                        return Ok(match tail {
                            Sx::List(mut t) => {
                                items.append(&mut t);
                                Sx::List(items)
                            }
                            Sx::Dotted(mut t, tt) => {
                                items.append(&mut t);
                                Sx::Dotted(items, tt)
                            }
                            t => Sx::Dotted(items, Box::new(t)),
                        });
                    }
                    return Err("bad dotted list".into());
                }
                items.push(read_one(c, pos)?);
            }
        }
        ')' | ']' => Err("unexpected )".into()),
        '\'' => {
            *pos += 1;
            Ok(Sx::quote(read_one(c, pos)?))
        }
        '`' => {
            *pos += 1;
            Ok(Sx::List(vec![Sx::sym("quasiquote"), read_one(c, pos)?]))
        }
        ',' => {
            *pos += 1;
            Ok(Sx::List(vec![Sx::sym("unquote"), read_one(c, pos)?]))
        }
        '"' => {
            *pos += 1;
            let mut s = String::new();
            while *pos < c.len() && c[*pos] != '"' {
                if c[*pos] == '\\' && *pos + 1 < c.len() {
                    *pos += 1;
                    match c[*pos] {
                        'n' => s.push('\n'),
                        't' => s.push('\t'),
                        'r' => s.push('\r'),
                        'x' => {
                            let mut v = 0u32;
                            *pos += 1;
                            while *pos < c.len() && c[*pos] != ';' {
                                v = v * 16 + c[*pos].to_digit(16).unwrap_or(0);
                                *pos += 1;
                            }
                            s.push(char::from_u32(v).unwrap_or('?'));
                        }
                        o => s.push(o),
                    }
                } else {
                    s.push(c[*pos]);
                }
                *pos += 1;
            }
            *pos += 1;
            Ok(Sx::Str(s))
        }
        '#' if *pos + 1 < c.len() && c[*pos + 1] == '(' => {
            *pos += 1;
            match read_one(c, pos)? {
                Sx::List(v) => Ok(Sx::Vector(v)),
                _ => Err("bad vector".into()),
            }
        }
        '#' if *pos + 1 < c.len() && c[*pos + 1] == '\\' => {
            *pos += 2;
            let start = *pos;
            *pos += 1;
            while *pos < c.len() && !is_delim(c[*pos]) {
                *pos += 1;
            }
            let name: String = c[start..*pos].iter().collect();
            if name.chars().count() == 1 {
                Ok(Sx::Char(name.chars().next().unwrap()))
            } else {
                match name.as_str() {
                    "space" => Ok(Sx::Char(' ')),
                    "newline" => Ok(Sx::Char('\n')),
                    "tab" => Ok(Sx::Char('\t')),
                    n if n.starts_with('x') => u32::from_str_radix(&n[1..], 16)
                        .ok()
                        .and_then(char::from_u32)
                        .map(Sx::Char)
                        .ok_or_else(|| format!("bad char {}", n)),
                    n => Err(format!("bad char {}", n)),
                }
            }
        }
        _ => {
            let start = *pos;
            while *pos < c.len() && !is_delim(c[*pos]) {
                *pos += 1;
            }
            let tok: String = c[start..*pos].iter().collect();
            if tok == "#t" {
                Ok(Sx::Bool(true))
            } else if tok == "#f" {
                Ok(Sx::Bool(false))
            } else if let Ok(i) = tok.parse::<BigInt>() {
                Ok(Sx::Int(i))
            } else {
                Ok(Sx::Sym(tok))
            }
        }
    }
}
