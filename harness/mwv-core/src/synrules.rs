//! C17 — reference `syntax-rules` (R7RS 4.3.2, non-hygienic), structural
//! analysis of transformers, and the generators of transformers and uses.
//! Nothing in this module depends on the system under test.
//!
//! Parts:
//!  1. `Spec` (a transformer), conversion from/to `(syntax-rules ...)` data
//!  2. the reference matcher and instantiator (`expand_use`)
//!  3. `validate`: is a transformer valid by R7RS (as far as this harness generates)?
//!  4. structural features (class histogram, signatures, recognition of the
//!     shapes on which the SUT is known not to terminate)
//!  5. generator of valid transformers and uses from a choice sequence
//!  6. generator of arbitrary (mutated, mostly invalid) definitions
//!  7. comparison up to a consistent renaming of reserved template symbols

use crate::choice::Choices;
use crate::sx::Sx;
use std::collections::{BTreeMap, BTreeSet};

pub const DEFAULT_ELLIPSIS: &str = "...";
pub const VAR_POOL: [&str; 10] = ["a", "b", "c", "d", "e", "f", "g", "h", "i", "j"];
pub const LITERAL_POOL: [&str; 4] = ["else", "=>", "to", "by"];
pub const ELLIPSIS_POOL: [&str; 3] = [":::", "___", "etc"];
/// template-only symbols; the comparison allows a consistent renaming of these
pub const RESERVED: [&str; 3] = ["t1", "t2", "t3"];
pub const DATA_SYMS: [&str; 4] = ["x", "y", "z", "w"];
/// placeholder for the macro keyword inside patterns (replaced when rendering)
pub const KW_MARK: &str = "%kw";

// ---------------------------------------------------------------------------
// 1. transformers
// ---------------------------------------------------------------------------

#[derive(Clone, Debug)]
pub struct Rule {
    /// full pattern, including the ignored keyword position
    pub pattern: Sx,
    pub template: Sx,
}

#[derive(Clone, Debug)]
pub struct Spec {
    pub ellipsis: String,
    pub custom_ellipsis: bool,
    pub literals: Vec<String>,
    pub rules: Vec<Rule>,
}

fn subst_kw(x: &Sx, kw: &str) -> Sx {
    match x {
        Sx::Sym(s) if s == KW_MARK => Sx::sym(kw),
        Sx::List(v) => Sx::List(v.iter().map(|e| subst_kw(e, kw)).collect()),
        Sx::Vector(v) => Sx::Vector(v.iter().map(|e| subst_kw(e, kw)).collect()),
        Sx::Dotted(v, t) => Sx::Dotted(
            v.iter().map(|e| subst_kw(e, kw)).collect(),
            Box::new(subst_kw(t, kw)),
        ),
        o => o.clone(),
    }
}

impl Spec {
    /// `(syntax-rules [ellipsis] (literal ...) (pattern (quote template)) ...)`
    /// — every template is wrapped in `quote`, so the value of a use is its expansion.
    pub fn syntax_rules(&self, kw: &str) -> Sx {
        let mut v = vec![Sx::sym("syntax-rules")];
        if self.custom_ellipsis {
            v.push(Sx::sym(&self.ellipsis));
        }
        v.push(Sx::List(self.literals.iter().map(|l| Sx::sym(l)).collect()));
        for r in &self.rules {
            v.push(Sx::List(vec![
                subst_kw(&r.pattern, kw),
                Sx::quote(subst_kw(&r.template, kw)),
            ]));
        }
        Sx::List(v)
    }

    pub fn definition(&self, kw: &str) -> Sx {
        Sx::List(vec![Sx::sym("define-syntax"), Sx::sym(kw), self.syntax_rules(kw)])
    }

    /// Parse `(define-syntax kw (syntax-rules ...))` whose templates are all of
    /// the form `(quote T)`. Returns the keyword and the transformer, or None
    /// if the datum does not have that shape (validity is `validate`'s job).
    pub fn from_definition(def: &Sx) -> Option<(String, Spec)> {
        let d = def.as_list()?;
        if d.len() != 3 || d[0].as_sym() != Some("define-syntax") {
            return None;
        }
        let kw = d[1].as_sym()?.to_string();
        let sr = d[2].as_list()?;
        if sr.first()?.as_sym() != Some("syntax-rules") {
            return None;
        }
        let mut i = 1;
        let (ellipsis, custom) = match sr.get(i)? {
            Sx::Sym(s) => {
                i += 1;
                (s.clone(), true)
            }
            _ => (DEFAULT_ELLIPSIS.to_string(), false),
        };
        let mut literals = vec![];
        for l in sr.get(i)?.as_list()? {
            literals.push(l.as_sym()?.to_string());
        }
        i += 1;
        let mut rules = vec![];
        for r in &sr[i..] {
            let r = r.as_list()?;
            if r.len() != 2 {
                return None;
            }
            let q = r[1].as_list()?;
            if q.len() != 2 || q[0].as_sym() != Some("quote") {
                return None;
            }
            rules.push(Rule { pattern: r[0].clone(), template: q[1].clone() });
        }
        Some((kw, Spec { ellipsis, custom_ellipsis: custom, literals, rules }))
    }

    pub fn is_literal(&self, s: &str) -> bool {
        self.literals.iter().any(|l| l == s)
    }
    /// the ellipsis identifier, unless it is listed as a literal
    pub fn is_ellipsis(&self, x: &Sx) -> bool {
        match x {
            Sx::Sym(s) => *s == self.ellipsis && !self.is_literal(s),
            _ => false,
        }
    }
}

/// `(kw . args)`
pub fn make_use(kw: &str, args: &Sx) -> Sx {
    cons_list(vec![Sx::sym(kw)], args.clone())
}

/// items followed by tail, normalised (a list tail is spliced).
pub fn cons_list(mut items: Vec<Sx>, tail: Sx) -> Sx {
    match tail {
        Sx::List(mut t) => {
            items.append(&mut t);
            Sx::List(items)
        }
        Sx::Dotted(mut t, tt) => {
            items.append(&mut t);
            Sx::Dotted(items, tt)
        }
        t => {
            if items.is_empty() {
                t
            } else {
                Sx::Dotted(items, Box::new(t))
            }
        }
    }
}

/// View of a datum as a chain of pairs: the elements and the final cdr
/// (None = proper list). Atoms have no view.
fn pairs(x: &Sx) -> Option<(&[Sx], Option<&Sx>)> {
    match x {
        Sx::List(v) => Some((v.as_slice(), None)),
        Sx::Dotted(v, t) => Some((v.as_slice(), Some(t))),
        _ => None,
    }
}

// ---------------------------------------------------------------------------
// 2. reference matcher / instantiator
// ---------------------------------------------------------------------------

#[derive(Clone, Debug)]
pub enum Binding {
    One(Sx),
    Many(Vec<Binding>),
}

pub type Env = BTreeMap<String, Binding>;

/// Things noticed during a successful match that the signature classifier uses.
#[derive(Clone, Debug, Default)]
pub struct MatchEvents {
    /// an ellipsis that is followed by at least one more pattern in its list matched zero items
    pub zero_items_before_fixed_tail: bool,
    /// an improper pattern matched
    pub dotted_pattern_used: bool,
    /// a vector pattern matched
    pub vector_pattern_used: bool,
    /// `(Pe <ellipsis> . Px)` matched against an atom (R7RS is not explicit)
    pub ambiguous_atom_as_improper_list: bool,
}

fn strict_eq(a: &Sx, b: &Sx) -> bool {
    a.matches(b)
}

/// All pattern variables of `p` (in order of appearance).
pub fn pattern_vars(spec: &Spec, p: &Sx, out: &mut Vec<String>) {
    match p {
        Sx::Sym(s) => {
            if s != "_" && !spec.is_literal(s) && *s != spec.ellipsis {
                out.push(s.clone());
            } else if s == "_" && spec.is_literal(s) {
                // literal underscore: not a variable
            }
        }
        Sx::List(v) | Sx::Vector(v) => v.iter().for_each(|e| pattern_vars(spec, e, out)),
        Sx::Dotted(v, t) => {
            v.iter().for_each(|e| pattern_vars(spec, e, out));
            pattern_vars(spec, t, out);
        }
        _ => {}
    }
}

fn match_seq(
    spec: &Spec,
    pitems: &[Sx],
    ptail: Option<&Sx>,
    eitems: &[Sx],
    etail: Option<&Sx>,
    env: &mut Env,
    ev: &mut MatchEvents,
) -> bool {
    let epos = pitems.iter().position(|p| spec.is_ellipsis(p));
    match epos {
        None => {
            match ptail {
                None => {
                    if etail.is_some() || eitems.len() != pitems.len() {
                        return false;
                    }
                }
                Some(_) => {
                    if eitems.len() < pitems.len() {
                        return false;
                    }
                }
            }
            for (p, e) in pitems.iter().zip(eitems.iter()) {
                if !match_pattern(spec, p, e, env, ev) {
                    return false;
                }
            }
            if let Some(pt) = ptail {
                ev.dotted_pattern_used = true;
                let rest = cons_list(
                    eitems[pitems.len()..].to_vec(),
                    etail.cloned().unwrap_or_else(Sx::nil),
                );
                return match_pattern(spec, pt, &rest, env, ev);
            }
            true
        }
        Some(j) => {
            if j == 0 {
                return false; // invalid pattern; never generated as valid
            }
            let before = &pitems[..j - 1];
            let pe = &pitems[j - 1];
            let after = &pitems[j + 1..];
            if ptail.is_none() && etail.is_some() {
                return false;
            }
            if eitems.len() < before.len() + after.len() {
                return false;
            }
            let n_mid = eitems.len() - before.len() - after.len();
            for (p, e) in before.iter().zip(eitems.iter()) {
                if !match_pattern(spec, p, e, env, ev) {
                    return false;
                }
            }
            let mut subs: Vec<Env> = vec![];
            for e in &eitems[before.len()..before.len() + n_mid] {
                let mut sub = Env::new();
                if !match_pattern(spec, pe, e, &mut sub, ev) {
                    return false;
                }
                subs.push(sub);
            }
            let mut vars = vec![];
            pattern_vars(spec, pe, &mut vars);
            for v in vars {
                let seq = subs
                    .iter()
                    .map(|s| s.get(&v).cloned().unwrap_or(Binding::Many(vec![])))
                    .collect();
                env.insert(v, Binding::Many(seq));
            }
            for (p, e) in after.iter().zip(eitems[before.len() + n_mid..].iter()) {
                if !match_pattern(spec, p, e, env, ev) {
                    return false;
                }
            }
            if n_mid == 0 && !after.is_empty() {
                ev.zero_items_before_fixed_tail = true;
            }
            if let Some(pt) = ptail {
                ev.dotted_pattern_used = true;
                let fin = etail.cloned().unwrap_or_else(Sx::nil);
                return match_pattern(spec, pt, &fin, env, ev);
            }
            true
        }
    }
}

pub fn match_pattern(spec: &Spec, p: &Sx, e: &Sx, env: &mut Env, ev: &mut MatchEvents) -> bool {
    match p {
        Sx::Sym(s) => {
            if spec.is_literal(s) {
                matches!(e, Sx::Sym(t) if t == s)
            } else if s == "_" {
                true
            } else {
                env.insert(s.clone(), Binding::One(e.clone()));
                true
            }
        }
        Sx::List(_) | Sx::Dotted(_, _) => {
            let (pi, pt) = pairs(p).unwrap();
            match pairs(e) {
                Some((ei, et)) => match_seq(spec, pi, pt, ei, et, env, ev),
                None => {
                    // E is an atom. `(Pe <ellipsis> . Px)` has no required element; whether an atom
                    // counts as "an improper list of 0 elements" is not settled by the text of R7RS
                    // (implementations accept it). Matched, but flagged so that the check can
                    // leave such a use out of the oracle.
                    if pt.is_some() && pi.len() == 2 && spec.is_ellipsis(&pi[1]) {
                        ev.ambiguous_atom_as_improper_list = true;
                        match_seq(spec, pi, pt, &[], Some(e), env, ev)
                    } else {
                        false
                    }
                }
            }
        }
        Sx::Vector(pv) => match e {
            Sx::Vector(evv) => {
                ev.vector_pattern_used = true;
                match_seq(spec, pv, None, evv, None, env, ev)
            }
            _ => false,
        },
        datum => strict_eq(datum, e),
    }
}

#[derive(Clone, Debug, PartialEq, Eq)]
pub enum InstErr {
    /// variables under one template ellipsis matched different numbers of items
    LengthMismatch,
    /// the template is not valid for the pattern (depth, no driving variable)
    Invalid(String),
}

fn count_ellipses_after(spec: &Spec, items: &[Sx], i: usize) -> usize {
    let mut k = 0;
    while i + 1 + k < items.len() && spec.is_ellipsis(&items[i + 1 + k]) {
        k += 1;
    }
    k
}

/// Pattern variables (keys of env) occurring anywhere in `t`.
fn template_vars(t: &Sx, env: &Env, out: &mut BTreeSet<String>) {
    t.walk(&mut |x| {
        if let Sx::Sym(s) = x {
            if env.contains_key(s) {
                out.insert(s.clone());
            }
        }
    });
}

fn expand_ellipsis(spec: &Spec, sub: &Sx, env: &Env, k: usize) -> Result<Vec<Sx>, InstErr> {
    let mut vars = BTreeSet::new();
    template_vars(sub, env, &mut vars);
    let mut n: Option<usize> = None;
    let mut drivers = vec![];
    for v in &vars {
        if let Some(Binding::Many(seq)) = env.get(v) {
            match n {
                None => n = Some(seq.len()),
                Some(m) => {
                    if m != seq.len() {
                        return Err(InstErr::LengthMismatch);
                    }
                }
            }
            drivers.push(v.clone());
        }
    }
    let n = match n {
        Some(n) => n,
        None => return Err(InstErr::Invalid("ellipsis follows a subtemplate without an ellipsis variable".into())),
    };
    let mut out = vec![];
    for i in 0..n {
        let mut env2 = env.clone();
        for d in &drivers {
            if let Some(Binding::Many(seq)) = env.get(d) {
                env2.insert(d.clone(), seq[i].clone());
            }
        }
        if k <= 1 {
            out.push(instantiate(spec, sub, &env2)?);
        } else {
            out.extend(expand_ellipsis(spec, sub, &env2, k - 1)?);
        }
    }
    Ok(out)
}

fn inst_items(spec: &Spec, items: &[Sx], env: &Env) -> Result<Vec<Sx>, InstErr> {
    let mut out = vec![];
    let mut i = 0;
    while i < items.len() {
        if spec.is_ellipsis(&items[i]) {
            return Err(InstErr::Invalid("ellipsis out of place in template".into()));
        }
        let k = count_ellipses_after(spec, items, i);
        if k == 0 {
            out.push(instantiate(spec, &items[i], env)?);
        } else {
            out.extend(expand_ellipsis(spec, &items[i], env, k)?);
        }
        i += 1 + k;
    }
    Ok(out)
}

pub fn instantiate(spec: &Spec, t: &Sx, env: &Env) -> Result<Sx, InstErr> {
    match t {
        Sx::Sym(s) => match env.get(s) {
            Some(Binding::One(x)) => Ok(x.clone()),
            Some(Binding::Many(_)) => Err(InstErr::Invalid(format!(
                "variable {} used with too few ellipses",
                s
            ))),
            None => Ok(t.clone()),
        },
        Sx::List(v) => {
            // (<ellipsis> <template>) : escape
            if v.len() == 2 && spec.is_ellipsis(&v[0]) {
                return Ok(instantiate_escaped(&v[1], env));
            }
            Ok(Sx::List(inst_items(spec, v, env)?))
        }
        Sx::Dotted(v, tail) => {
            let items = inst_items(spec, v, env)?;
            if spec.is_ellipsis(tail) {
                return Err(InstErr::Invalid("ellipsis as the tail of a template".into()));
            }
            let tl = instantiate(spec, tail, env)?;
            Ok(cons_list(items, tl))
        }
        Sx::Vector(v) => Ok(Sx::Vector(inst_items(spec, v, env)?)),
        o => Ok(o.clone()),
    }
}

fn instantiate_escaped(t: &Sx, env: &Env) -> Sx {
    match t {
        Sx::Sym(s) => match env.get(s) {
            Some(Binding::One(x)) => x.clone(),
            _ => t.clone(),
        },
        Sx::List(v) => Sx::List(v.iter().map(|e| instantiate_escaped(e, env)).collect()),
        Sx::Vector(v) => Sx::Vector(v.iter().map(|e| instantiate_escaped(e, env)).collect()),
        Sx::Dotted(v, tl) => cons_list(
            v.iter().map(|e| instantiate_escaped(e, env)).collect(),
            instantiate_escaped(tl, env),
        ),
        o => o.clone(),
    }
}

#[derive(Clone, Debug)]
pub enum RefOutcome {
    NoMatch,
    Match { rule: usize, expansion: Sx, events: MatchEvents },
    /// first matching rule cannot be instantiated because variables under one
    /// ellipsis have different lengths (excluded by the property statement)
    LengthMismatch { rule: usize },
    /// first matching rule's template is invalid for its pattern
    Invalid { rule: usize, why: String },
}

/// Match the rule's pattern against the use `(kw . args)`; the keyword
/// position is ignored (R7RS 4.3.2).
pub fn match_rule(spec: &Spec, rule: &Rule, args: &Sx) -> Option<(Env, MatchEvents)> {
    let (pi, pt) = pairs(&rule.pattern)?;
    if pi.is_empty() {
        return None;
    }
    let rest_pattern = cons_list(pi[1..].to_vec(), pt.cloned().unwrap_or_else(Sx::nil));
    let mut env = Env::new();
    let mut ev = MatchEvents::default();
    let ok = match &rest_pattern {
        Sx::List(_) | Sx::Dotted(_, _) => match_pattern(spec, &rest_pattern, args, &mut env, &mut ev),
        // (_ . r): the tail pattern sees the whole argument list
        other => {
            ev.dotted_pattern_used = true;
            match_pattern(spec, other, args, &mut env, &mut ev)
        }
    };
    // an empty proper rest pattern `()` matches only empty args: handled by match_seq
    if ok {
        Some((env, ev))
    } else {
        None
    }
}

pub fn expand_use(spec: &Spec, args: &Sx) -> RefOutcome {
    for (i, r) in spec.rules.iter().enumerate() {
        if let Some((env, events)) = match_rule(spec, r, args) {
            return match instantiate(spec, &r.template, &env) {
                Ok(x) => RefOutcome::Match { rule: i, expansion: x, events },
                Err(InstErr::LengthMismatch) => RefOutcome::LengthMismatch { rule: i },
                Err(InstErr::Invalid(why)) => RefOutcome::Invalid { rule: i, why },
            };
        }
    }
    RefOutcome::NoMatch
}

/// Every rule that matches (not only the first) with its instantiation, for diagnostics.
pub fn all_matches(spec: &Spec, args: &Sx) -> Vec<(usize, Option<Sx>)> {
    let mut out = vec![];
    for (i, r) in spec.rules.iter().enumerate() {
        if let Some((env, _)) = match_rule(spec, r, args) {
            out.push((i, instantiate(spec, &r.template, &env).ok()));
        }
    }
    out
}

// ---------------------------------------------------------------------------
// 3. validity
// ---------------------------------------------------------------------------

fn validate_pattern(
    spec: &Spec,
    p: &Sx,
    depth: usize,
    top: bool,
    vars: &mut BTreeMap<String, usize>,
) -> Result<(), String> {
    match p {
        Sx::Sym(s) => {
            if spec.is_ellipsis(p) {
                return Err("ellipsis out of place in pattern".into());
            }
            if s == "_" || spec.is_literal(s) {
                return Ok(());
            }
            if vars.insert(s.clone(), depth).is_some() {
                return Err(format!("duplicate pattern variable {}", s));
            }
            Ok(())
        }
        Sx::List(_) | Sx::Dotted(_, _) | Sx::Vector(_) => {
            let (items, tail): (&[Sx], Option<&Sx>) = match p {
                Sx::Vector(v) => (v.as_slice(), None),
                _ => pairs(p).unwrap(),
            };
            let start = if top { 1 } else { 0 };
            if top && (items.is_empty() || items[0].as_sym().is_none()) {
                return Err("pattern must start with the keyword or _".into());
            }
            let mut seen_ellipsis = false;
            let mut i = start;
            while i < items.len() {
                if spec.is_ellipsis(&items[i]) {
                    return Err("ellipsis out of place in pattern".into());
                }
                let followed = i + 1 < items.len() && spec.is_ellipsis(&items[i + 1]);
                if followed {
                    if seen_ellipsis {
                        return Err("two ellipses in one pattern list".into());
                    }
                    seen_ellipsis = true;
                    validate_pattern(spec, &items[i], depth + 1, false, vars)?;
                    i += 2;
                } else {
                    validate_pattern(spec, &items[i], depth, false, vars)?;
                    i += 1;
                }
            }
            if let Some(t) = tail {
                validate_pattern(spec, t, depth, false, vars)?;
            }
            Ok(())
        }
        _ => Ok(()),
    }
}

fn validate_template(
    spec: &Spec,
    t: &Sx,
    level: usize,
    vars: &BTreeMap<String, usize>,
) -> Result<bool, String> {
    // returns: does t contain (at this level) a variable of depth >= 1, i.e. can it drive an ellipsis
    match t {
        Sx::Sym(s) => {
            if spec.is_ellipsis(t) {
                return Err("ellipsis out of place in template".into());
            }
            match vars.get(s) {
                Some(0) => Ok(false),
                Some(d) => {
                    if *d == level {
                        Ok(true)
                    } else {
                        Err(format!("variable {} of depth {} used at depth {}", s, d, level))
                    }
                }
                None => Ok(false),
            }
        }
        Sx::List(_) | Sx::Dotted(_, _) | Sx::Vector(_) => {
            let (items, tail): (&[Sx], Option<&Sx>) = match t {
                Sx::Vector(v) => (v.as_slice(), None),
                _ => pairs(t).unwrap(),
            };
            if let Sx::List(v) = t {
                if v.len() == 2 && spec.is_ellipsis(&v[0]) {
                    return Err("escaped ellipsis not generated by this harness".into());
                }
            }
            let mut any = false;
            let mut i = 0;
            while i < items.len() {
                if spec.is_ellipsis(&items[i]) {
                    return Err("ellipsis out of place in template".into());
                }
                let k = count_ellipses_after(spec, items, i);
                let d = validate_template(spec, &items[i], level + k, vars)?;
                if k > 0 && !d {
                    return Err("ellipsis follows a subtemplate without an ellipsis variable".into());
                }
                any |= d;
                i += 1 + k;
            }
            if let Some(tl) = tail {
                any |= validate_template(spec, tl, level, vars)?;
            }
            Ok(any)
        }
        _ => Ok(false),
    }
}

/// Valid by R7RS 4.3.2 (strict reading: an ellipsis variable is followed by
/// exactly as many ellipses as in the pattern; depth-0 variables anywhere).
/// Returns the variables of each rule with their ellipsis depth.
pub fn validate(spec: &Spec) -> Result<Vec<BTreeMap<String, usize>>, String> {
    if spec.is_literal(&spec.ellipsis) {
        return Err("ellipsis listed as a literal (not generated)".into());
    }
    if spec.rules.is_empty() {
        return Err("no rules".into());
    }
    let mut out = vec![];
    for r in &spec.rules {
        if pairs(&r.pattern).is_none() {
            return Err("pattern is not a list".into());
        }
        let mut vars = BTreeMap::new();
        validate_pattern(spec, &r.pattern, 0, true, &mut vars)?;
        vars.remove(KW_MARK);
        validate_template(spec, &r.template, 0, &vars)?;
        out.push(vars);
    }
    Ok(out)
}

// ---------------------------------------------------------------------------
// 4. structural features
// ---------------------------------------------------------------------------

/// Tolerant analysis of one `(pattern template)` pair that need not be valid:
/// variables with their ellipsis depth (first occurrence wins).
pub fn loose_pattern_vars(spec: &Spec, p: &Sx, depth: usize, top: bool, skip_vectors: bool, vars: &mut BTreeMap<String, usize>) {
    if skip_vectors && matches!(p, Sx::Vector(_)) {
        return;
    }
    match p {
        Sx::Sym(s) => {
            if s != "_" && !spec.is_literal(s) && *s != spec.ellipsis {
                vars.entry(s.clone()).or_insert(depth);
            }
        }
        Sx::List(_) | Sx::Dotted(_, _) | Sx::Vector(_) => {
            let (items, tail): (&[Sx], Option<&Sx>) = match p {
                Sx::Vector(v) => (v.as_slice(), None),
                _ => pairs(p).unwrap(),
            };
            let start = if top { 1.min(items.len()) } else { 0 };
            for i in start..items.len() {
                if spec.is_ellipsis(&items[i]) {
                    continue;
                }
                let followed = i + 1 < items.len() && spec.is_ellipsis(&items[i + 1]);
                loose_pattern_vars(spec, &items[i], depth + followed as usize, false, skip_vectors, vars);
            }
            if let Some(t) = tail {
                loose_pattern_vars(spec, t, depth, false, skip_vectors, vars);
            }
        }
        _ => {}
    }
}

#[derive(Clone, Debug, Default)]
pub struct PatternFeatures {
    pub ellipsis: bool,
    pub nested_ellipsis: bool,
    pub ellipsis_before_fixed_tail: bool,
    pub ellipsis_after_nonvariable: bool,
    pub dotted_tail: bool,
    pub vector: bool,
    pub literal: bool,
    pub underscore: bool,
    pub datum: bool,
    /// list nesting depth (the pattern itself = 1)
    pub nesting: usize,
}

fn pf(spec: &Spec, p: &Sx, edepth: usize, nest: usize, top: bool, f: &mut PatternFeatures) {
    match p {
        Sx::Sym(s) => {
            if spec.is_literal(s) {
                f.literal = true;
            } else if s == "_" && !top {
                f.underscore = true;
            }
        }
        Sx::List(_) | Sx::Dotted(_, _) | Sx::Vector(_) => {
            let (items, tail): (&[Sx], Option<&Sx>) = match p {
                Sx::Vector(v) => {
                    f.vector = true;
                    (v.as_slice(), None)
                }
                _ => pairs(p).unwrap(),
            };
            f.nesting = f.nesting.max(nest + 1);
            if tail.is_some() {
                f.dotted_tail = true;
            }
            let start = if top { 1.min(items.len()) } else { 0 };
            for i in start..items.len() {
                if spec.is_ellipsis(&items[i]) {
                    f.ellipsis = true;
                    if edepth >= 1 {
                        f.nested_ellipsis = true;
                    }
                    if i + 1 < items.len() {
                        f.ellipsis_before_fixed_tail = true;
                    }
                    continue;
                }
                let followed = i + 1 < items.len() && spec.is_ellipsis(&items[i + 1]);
                if followed {
                    let is_var = matches!(&items[i], Sx::Sym(s) if s != "_" && !spec.is_literal(s));
                    let is_list = matches!(&items[i], Sx::List(v) if !v.is_empty())
                        || matches!(&items[i], Sx::Dotted(_, _));
                    if !is_var && !is_list {
                        f.ellipsis_after_nonvariable = true;
                    }
                }
                pf(spec, &items[i], edepth + followed as usize, nest + 1, false, f);
            }
            if let Some(t) = tail {
                pf(spec, t, edepth, nest + 1, false, f);
            }
        }
        _ => f.datum = true,
    }
}

pub fn pattern_features(spec: &Spec, p: &Sx) -> PatternFeatures {
    let mut f = PatternFeatures::default();
    pf(spec, p, 0, 0, true, &mut f);
    f
}

#[derive(Clone, Debug, Default)]
pub struct TemplateFeatures {
    pub ellipsis: bool,
    pub nested_ellipsis: bool,
    pub multi_ellipsis: bool,
    pub dotted_tail: bool,
    /// a vector that contains a pattern variable
    pub vector_with_var: bool,
    pub vector: bool,
    pub var_twice_under_one_ellipsis: bool,
    /// >= 2 distinct ellipsis variables under one ellipsis
    pub zip: bool,
    /// an ellipsis variable that was not the first one evaluated in a zip occurs again later
    pub zip_then_reuse: bool,
    pub dup_var: bool,
    pub drops_var: bool,
    pub reserved_symbol: bool,
    /// an ellipsis whose subtemplate has no ellipsis variable outside nested ellipses:
    /// kind of the subtemplate ("depth0-variable", "datum", "list-without-ellipsis-variable",
    /// "nested-ellipsis-only", "symbol")
    pub undriven: Vec<String>,
    pub escape: bool,
}

/// Ellipsis variables (depth >= 1) of `t` in evaluation order; `outside_nested`
/// restricts to those not under a further ellipsis inside `t`.
fn evars_in_order(spec: &Spec, t: &Sx, vars: &BTreeMap<String, usize>, outside_nested: bool, skip_vectors: bool, out: &mut Vec<String>) {
    if skip_vectors && matches!(t, Sx::Vector(_)) {
        return;
    }
    match t {
        Sx::Sym(s) => {
            if vars.get(s).copied().unwrap_or(0) >= 1 {
                out.push(s.clone());
            }
        }
        Sx::List(_) | Sx::Dotted(_, _) | Sx::Vector(_) => {
            let (items, tail): (&[Sx], Option<&Sx>) = match t {
                Sx::Vector(v) => (v.as_slice(), None),
                _ => pairs(t).unwrap(),
            };
            for i in 0..items.len() {
                if spec.is_ellipsis(&items[i]) {
                    continue;
                }
                let k = count_ellipses_after(spec, items, i);
                if k > 0 && outside_nested {
                    continue;
                }
                evars_in_order(spec, &items[i], vars, outside_nested, skip_vectors, out);
            }
            if let Some(tl) = tail {
                evars_in_order(spec, tl, vars, outside_nested, skip_vectors, out);
            }
        }
        _ => {}
    }
}

struct TfState {
    /// variables left "stale" by a zip (not first in evaluation order)
    stale: BTreeSet<String>,
    used: BTreeMap<String, usize>,
}

fn tf(spec: &Spec, t: &Sx, vars: &BTreeMap<String, usize>, level: usize, f: &mut TemplateFeatures, st: &mut TfState) {
    match t {
        Sx::Sym(s) => {
            if vars.contains_key(s) {
                *st.used.entry(s.clone()).or_insert(0) += 1;
            } else if RESERVED.contains(&s.as_str()) {
                f.reserved_symbol = true;
            }
        }
        Sx::List(_) | Sx::Dotted(_, _) | Sx::Vector(_) => {
            let (items, tail): (&[Sx], Option<&Sx>) = match t {
                Sx::Vector(v) => {
                    f.vector = true;
                    let mut has = false;
                    t.walk(&mut |x| {
                        if let Sx::Sym(s) = x {
                            if vars.contains_key(s) {
                                has = true;
                            }
                        }
                    });
                    if has {
                        f.vector_with_var = true;
                    }
                    (v.as_slice(), None)
                }
                _ => pairs(t).unwrap(),
            };
            if let Sx::List(v) = t {
                if v.len() == 2 && spec.is_ellipsis(&v[0]) {
                    f.escape = true;
                }
            }
            if tail.is_some() {
                f.dotted_tail = true;
            }
            let mut i = 0;
            while i < items.len() {
                if spec.is_ellipsis(&items[i]) {
                    i += 1;
                    continue;
                }
                let k = count_ellipses_after(spec, items, i);
                if k > 0 {
                    f.ellipsis = true;
                    if level >= 1 {
                        f.nested_ellipsis = true;
                    }
                    if k > 1 {
                        f.multi_ellipsis = true;
                        f.nested_ellipsis = true;
                    }
                    let sub = &items[i];
                    // "outside": ellipsis variables of the subtemplate that are neither under a
                    // further ellipsis nor inside a vector (the SUT copies vectors verbatim)
                    let mut outside = vec![];
                    evars_in_order(spec, sub, vars, true, true, &mut outside);
                    let mut all_novec = vec![];
                    evars_in_order(spec, sub, vars, false, true, &mut all_novec);
                    let mut all = vec![];
                    evars_in_order(spec, sub, vars, false, false, &mut all);
                    if all_novec.len() > outside.len() {
                        f.nested_ellipsis = true;
                    }
                    // a variable that also occurs under a nested ellipsis of the same subtemplate is
                    // rewound by that inner ellipsis each time round: it cannot end the outer one
                    let mut nested_occ = all_novec.clone();
                    for v in &outside {
                        if let Some(p) = nested_occ.iter().position(|w| w == v) {
                            nested_occ.remove(p);
                        }
                    }
                    let drivers: Vec<&String> = outside.iter().filter(|v| !nested_occ.contains(v)).collect();
                    if drivers.is_empty() && !outside.is_empty() {
                        f.undriven.push("variable-also-under-nested-ellipsis".to_string());
                    }
                    if outside.is_empty() {
                        let kind = match sub {
                            Sx::Sym(s) if vars.contains_key(s) => "depth0-variable",
                            Sx::Sym(_) => "symbol",
                            Sx::List(v) if v.is_empty() => "datum",
                            Sx::List(_) | Sx::Dotted(_, _) => {
                                if !all_novec.is_empty() {
                                    "nested-ellipsis-only"
                                } else if !all.is_empty() {
                                    "vector"
                                } else {
                                    "list-without-ellipsis-variable"
                                }
                            }
                            Sx::Vector(_) => "vector",
                            _ => "datum",
                        };
                        f.undriven.push(kind.to_string());
                    }
                    // a variable that is stale from an earlier zip is used again
                    if all.iter().any(|v| st.stale.contains(v)) {
                        f.zip_then_reuse = true;
                    }
                    let distinct: BTreeSet<&String> = outside.iter().collect();
                    if distinct.len() < outside.len() {
                        f.var_twice_under_one_ellipsis = true;
                    }
                    if distinct.len() >= 2 {
                        f.zip = true;
                        for v in outside.iter().skip(1) {
                            if *v != outside[0] {
                                st.stale.insert(v.clone());
                            }
                        }
                    }
                    // a later clean traversal of a variable alone resets it; keep it simple:
                    // the first variable of this ellipsis is exhausted (reset) afterwards
                    if let Some(first) = outside.first() {
                        st.stale.remove(first);
                    }
                }
                tf(spec, &items[i], vars, level + k, f, st);
                i += 1 + k;
            }
            if let Some(tl) = tail {
                tf(spec, tl, vars, level, f, st);
            }
        }
        _ => {}
    }
}

pub fn template_features(spec: &Spec, t: &Sx, vars: &BTreeMap<String, usize>) -> TemplateFeatures {
    let mut f = TemplateFeatures::default();
    let mut st = TfState { stale: BTreeSet::new(), used: BTreeMap::new() };
    tf(spec, t, vars, 0, &mut f, &mut st);
    for v in vars.keys() {
        match st.used.get(v).copied().unwrap_or(0) {
            0 => f.drops_var = true,
            1 => {}
            _ => f.dup_var = true,
        }
    }
    f
}

/// The shapes on which the SUT is known not to terminate (an ellipsis whose
/// subtemplate cannot run out: KNOWN_FINDINGS `C17|nonterm|...`). Computed
/// from the definition alone, for any rule; None = no such shape.
pub fn known_hang_feature(spec: &Spec) -> Option<String> {
    // the SUT takes the ellipsis identifier as the ellipsis even where it is listed as a literal
    let mut unlit = spec.clone();
    unlit.literals.retain(|l| *l != spec.ellipsis);
    let spec = &unlit;
    for r in &spec.rules {
        let mut vars = BTreeMap::new();
        loose_pattern_vars(spec, &r.pattern, 0, true, false, &mut vars);
        let f = template_features(spec, &r.template, &vars);
        if let Some(k) = f.undriven.iter().find(|k| k.as_str() != "symbol") {
            return Some(format!("template:ellipsis-after-{}", k));
        }
        // the SUT does not bind variables inside vector patterns: an ellipsis that is driven
        // only by such variables cannot run out either
        let mut vars2 = BTreeMap::new();
        loose_pattern_vars(spec, &r.pattern, 0, true, true, &mut vars2);
        if vars2.len() != vars.len() {
            let f2 = template_features(spec, &r.template, &vars2);
            if f2.undriven.iter().any(|k| k.as_str() != "symbol") {
                return Some("template:ellipsis-driven-by-vector-pattern-variables".to_string());
            }
        }
    }
    None
}

// ---------------------------------------------------------------------------
// 5. generator of valid transformers and uses
// ---------------------------------------------------------------------------

#[derive(Clone, Debug)]
pub struct GenCase {
    pub spec: Spec,
    /// cdr of the use form
    pub args: Sx,
    pub target_rule: usize,
    pub mutated: bool,
    /// the weighting profile that was drawn (plain = supported subset only)
    pub exotic: bool,
}

struct PGen<'s> {
    literals: &'s [String],
    ellipsis: &'s str,
    exotic: bool,
    vars: Vec<(String, usize)>,
}

fn gen_pdatum(c: &mut Choices) -> Sx {
    match c.weighted(&[50, 20, 20, 10]) {
        0 => Sx::int(c.below(4) as i64),
        1 => Sx::Bool(c.flip()),
        2 => Sx::Str(["s", "", "str"][c.below(3)].to_string()),
        _ => Sx::Char(['k', 'q'][c.below(2)]),
    }
}

impl<'s> PGen<'s> {
    fn fresh_var(&mut self, edepth: usize) -> Sx {
        // with a custom ellipsis, `...` is an ordinary identifier: use it (rarely) as a variable
        let n = self.vars.len();
        if n >= VAR_POOL.len() {
            return Sx::sym("_");
        }
        let name = VAR_POOL[n].to_string();
        self.vars.push((name.clone(), edepth));
        Sx::Sym(name)
    }

    fn elem(&mut self, c: &mut Choices, depth_left: usize, edepth: usize) -> Sx {
        let w_list = if depth_left > 0 { 20 } else { 0 };
        let w_lit = if self.literals.is_empty() { 0 } else { 10 };
        let w_datum = if self.exotic { 6 } else { 2 };
        let w_vec = if self.exotic && depth_left > 0 { 4 } else { 0 };
        match c.weighted(&[50, w_list, 8, w_lit, w_datum, w_vec, 2]) {
            0 => self.fresh_var(edepth),
            1 => self.list(c, depth_left - 1, edepth, false, false),
            2 => Sx::sym("_"),
            3 => Sx::Sym(self.literals[c.below(self.literals.len())].clone()),
            4 => gen_pdatum(c),
            5 => self.list(c, depth_left - 1, edepth, false, true),
            _ => Sx::nil(),
        }
    }

    /// a list (or vector) pattern; `top` adds the keyword position
    fn list(&mut self, c: &mut Choices, depth_left: usize, edepth: usize, top: bool, vector: bool) -> Sx {
        let mut items = vec![];
        if top {
            items.push(if c.chance(40) { Sx::sym(KW_MARK) } else { Sx::sym("_") });
        }
        let nb = c.weighted(&[20, 35, 30, 15]);
        for _ in 0..nb {
            let e = self.elem(c, depth_left, edepth);
            items.push(e);
        }
        let p_ell: u8 = if edepth >= 2 {
            0
        } else if edepth == 1 {
            45
        } else if top {
            120
        } else {
            80
        };
        if c.chance(p_ell) {
            let w_list = if depth_left > 0 { 30 } else { 0 };
            let w_other = if self.exotic { 5 } else { 0 };
            let pe = match c.weighted(&[60, w_list * 3 / 2, w_other]) {
                0 => self.fresh_var(edepth + 1),
                1 => self.list(c, depth_left - 1, edepth + 1, false, false),
                _ => match c.below(3) {
                    0 => Sx::sym("_"),
                    1 if !self.literals.is_empty() => Sx::Sym(self.literals[0].clone()),
                    _ => gen_pdatum(c),
                },
            };
            items.push(pe);
            items.push(Sx::sym(self.ellipsis));
            let na = c.weighted(&[60, 25, 15]);
            for _ in 0..na {
                let e = self.elem(c, depth_left, edepth);
                items.push(e);
            }
        }
        if vector {
            return Sx::Vector(items);
        }
        if self.exotic && c.chance(50) {
            let tail = if c.chance(230) { self.fresh_var(edepth) } else if c.flip() { Sx::sym("_") } else { gen_pdatum(c) };
            return cons_list(items, tail);
        }
        Sx::List(items)
    }
}

struct TGen<'s> {
    literals: &'s [String],
    ellipsis: &'s str,
    exotic: bool,
    vars: &'s [(String, usize)],
}

impl<'s> TGen<'s> {
    fn constant(&self, c: &mut Choices) -> Sx {
        let w_lit = if self.literals.is_empty() { 0 } else { 15 };
        match c.weighted(&[40, 25, w_lit, 8, 6, 6, 4]) {
            0 => Sx::sym(RESERVED[c.below(RESERVED.len())]),
            1 => Sx::int(c.below(4) as i64),
            2 => Sx::Sym(self.literals[c.below(self.literals.len())].clone()),
            3 => Sx::Str("s".into()),
            4 => Sx::nil(),
            5 => Sx::Bool(c.flip()),
            // in a template the underscore is an ordinary identifier
            _ => Sx::sym("_"),
        }
    }

    fn usable(&self, level: usize) -> Vec<&'s (String, usize)> {
        self.vars.iter().filter(|v| v.1 == level || v.1 == 0).collect()
    }

    fn deeper(&self, level: usize) -> Vec<&'s (String, usize)> {
        self.vars.iter().filter(|v| v.1 > level).collect()
    }

    fn atom(&self, c: &mut Choices, level: usize) -> Sx {
        let u = self.usable(level);
        if !u.is_empty() && c.chance(170) {
            Sx::Sym(u[c.below(u.len())].0.clone())
        } else {
            self.constant(c)
        }
    }

    fn elem(&self, c: &mut Choices, level: usize, depth_left: usize) -> Sx {
        let u = self.usable(level);
        let w_var = if u.is_empty() { 0 } else { 45 };
        let w_list = if depth_left > 0 { 25 } else { 0 };
        let w_vec = if self.exotic && depth_left > 0 { 5 } else { 0 };
        match c.weighted(&[w_var, 25, w_list, w_vec]) {
            0 if !u.is_empty() => Sx::Sym(u[c.below(u.len())].0.clone()),
            2 => self.list(c, level, depth_left - 1, vec![], false),
            3 => self.list(c, level, depth_left - 1, vec![], true),
            _ => self.constant(c),
        }
    }

    /// a list at ellipsis level `level`; `must` (an element, possibly followed
    /// by its ellipses) is inserted at a random position
    fn list(&self, c: &mut Choices, level: usize, depth_left: usize, must: Vec<Sx>, vector: bool) -> Sx {
        let n = if must.is_empty() { 1 + c.weighted(&[30, 40, 30]) } else { c.weighted(&[40, 35, 25]) };
        let mut groups: Vec<Vec<Sx>> = vec![];
        // the SUT rejects a second ellipsis in one template list: keep that to a probe rate
        let mut ngroups = if must.len() > 1 { 1 } else { 0 };
        for _ in 0..n {
            let deeper = self.deeper(level);
            let p: u8 = if ngroups == 0 { 120 } else { 12 };
            if !deeper.is_empty() && c.chance(p) {
                ngroups += 1;
                groups.push(self.egroup(c, level + 1, depth_left, None));
            } else {
                groups.push(vec![self.elem(c, level, depth_left)]);
            }
        }
        if !must.is_empty() {
            let pos = c.below(groups.len() + 1);
            groups.insert(pos, must);
        }
        let items: Vec<Sx> = groups.into_iter().flatten().collect();
        if vector {
            return Sx::Vector(items);
        }
        if self.exotic && c.chance(40) {
            let tail = self.atom(c, level);
            return cons_list(items, tail);
        }
        Sx::List(items)
    }

    /// `sub <ellipsis>...` where sub lives at ellipsis level `level`
    fn egroup(&self, c: &mut Choices, level: usize, depth_left: usize, forced: Option<&'s (String, usize)>) -> Vec<Sx> {
        let drivers = self.deeper(level - 1);
        let v = match forced {
            Some(v) => v,
            None => drivers[c.below(drivers.len())],
        };
        let ell = Sx::sym(self.ellipsis);
        if v.1 == level {
            if depth_left == 0 || !c.chance(130) {
                vec![Sx::Sym(v.0.clone()), ell]
            } else {
                vec![self.list(c, level, depth_left - 1, vec![Sx::Sym(v.0.clone())], false), ell]
            }
        } else if self.exotic && v.1 == level + 1 && c.chance(50) {
            // a ... ... (flattening)
            vec![Sx::Sym(v.0.clone()), ell.clone(), ell]
        } else {
            let inner = self.egroup(c, level + 1, depth_left.saturating_sub(1), Some(v));
            vec![self.list(c, level, depth_left.saturating_sub(1), inner, false), ell]
        }
    }

    fn top(&self, c: &mut Choices) -> Sx {
        let u = self.usable(0);
        let w_var = if u.iter().any(|v| v.1 == 0) { 10 } else { 0 };
        match c.weighted(&[80, w_var, 10]) {
            0 => self.list(c, 0, 3, vec![], false),
            1 => {
                let z: Vec<_> = u.iter().filter(|v| v.1 == 0).collect();
                Sx::Sym(z[c.below(z.len())].0.clone())
            }
            _ => self.constant(c),
        }
    }
}

pub fn gen_datum(c: &mut Choices, depth: usize, spec: &Spec) -> Sx {
    let w_list = if depth > 0 { 7 } else { 0 };
    let w_imp = if depth > 0 { 2 } else { 0 };
    let w_vec = if depth > 0 { 3 } else { 0 };
    let w_lit = if spec.literals.is_empty() { 0 } else { 4 };
    match c.weighted(&[40, 25, 5, 5, 3, 4, w_lit, 4, w_list, w_imp, w_vec]) {
        0 => Sx::int(c.below(10) as i64),
        1 => Sx::sym(DATA_SYMS[c.below(DATA_SYMS.len())]),
        2 => Sx::Bool(c.flip()),
        3 => Sx::Str(["s", "", "str"][c.below(3)].to_string()),
        4 => Sx::Char(['k', 'q'][c.below(2)]),
        5 => Sx::nil(),
        6 => Sx::Sym(spec.literals[c.below(spec.literals.len())].clone()),
        // (reserved template symbols never occur in data, so the renaming allowance stays exact)
        7 => match c.below(4) {
            0 => Sx::sym("..."),
            1 => Sx::sym("_"),
            2 => Sx::sym(VAR_POOL[c.below(3)]),
            _ => Sx::Sym(spec.ellipsis.clone()),
        },
        8 => {
            let n = c.below(4);
            Sx::List((0..n).map(|_| gen_datum(c, depth - 1, spec)).collect())
        }
        9 => {
            let n = 1 + c.below(2);
            let items = (0..n).map(|_| gen_datum(c, depth - 1, spec)).collect();
            let t = gen_datum(c, 0, spec);
            cons_list(items, t)
        }
        _ => {
            let n = c.below(3);
            Sx::Vector((0..n).map(|_| gen_datum(c, depth - 1, spec)).collect())
        }
    }
}

/// A datum that matches pattern `p` (R7RS reading).
fn inst_pattern(c: &mut Choices, spec: &Spec, p: &Sx, n0: usize) -> Sx {
    match p {
        Sx::Sym(s) => {
            if spec.is_literal(s) {
                p.clone()
            } else {
                gen_datum(c, 2, spec)
            }
        }
        Sx::List(_) | Sx::Dotted(_, _) | Sx::Vector(_) => {
            let (items, tail): (&[Sx], Option<&Sx>) = match p {
                Sx::Vector(v) => (v.as_slice(), None),
                _ => pairs(p).unwrap(),
            };
            let mut out = vec![];
            let mut i = 0;
            while i < items.len() {
                let followed = i + 1 < items.len() && spec.is_ellipsis(&items[i + 1]);
                if followed {
                    let n = if c.chance(50) { c.below(4) } else { n0 };
                    for _ in 0..n {
                        out.push(inst_pattern(c, spec, &items[i], n0));
                    }
                    i += 2;
                } else {
                    out.push(inst_pattern(c, spec, &items[i], n0));
                    i += 1;
                }
            }
            if let Sx::Vector(_) = p {
                return Sx::Vector(out);
            }
            match tail {
                None => Sx::List(out),
                Some(t) => {
                    // a tail variable usually takes "the rest" (a list), sometimes an atom
                    let tl = match t {
                        Sx::Sym(s) if !spec.is_literal(s) => {
                            // after an ellipsis the tail pattern sees only the final cdr
                            let has_ellipsis = items.iter().any(|x| spec.is_ellipsis(x));
                            if !has_ellipsis && c.chance(150) {
                                let n = c.below(3);
                                Sx::List((0..n).map(|_| gen_datum(c, 1, spec)).collect())
                            } else {
                                gen_datum(c, 0, spec)
                            }
                        }
                        o => inst_pattern(c, spec, o, n0),
                    };
                    cons_list(out, tl)
                }
            }
        }
        o => o.clone(),
    }
}

fn other_symbol(c: &mut Choices, spec: &Spec) -> Sx {
    let n = DATA_SYMS.len() + spec.literals.len();
    let k = c.below(n);
    if k < DATA_SYMS.len() {
        Sx::sym(DATA_SYMS[k])
    } else {
        Sx::Sym(spec.literals[k - DATA_SYMS.len()].clone())
    }
}

/// One random edit somewhere inside `x`.
pub fn mutate_datum(c: &mut Choices, spec: &Spec, x: &Sx, depth: usize) -> Sx {
    let (mut items, mut tail): (Vec<Sx>, Option<Sx>) = match x {
        Sx::List(v) => (v.clone(), None),
        Sx::Dotted(v, t) => (v.clone(), Some((**t).clone())),
        Sx::Vector(v) => {
            // edit inside the vector
            let mut v = v.clone();
            if v.is_empty() || c.flip() {
                v.push(gen_datum(c, 1, spec));
            } else {
                let i = c.below(v.len());
                v[i] = mutate_datum(c, spec, &v[i], depth + 1);
            }
            return Sx::Vector(v);
        }
        Sx::Sym(_) if c.flip() => return other_symbol(c, spec),
        _ => return gen_datum(c, 1, spec),
    };
    // descend?
    let nested: Vec<usize> = items
        .iter()
        .enumerate()
        .filter(|(_, e)| matches!(e, Sx::List(_) | Sx::Dotted(_, _) | Sx::Vector(_)))
        .map(|(i, _)| i)
        .collect();
    if !nested.is_empty() && depth < 3 && c.chance(100) {
        let i = nested[c.below(nested.len())];
        items[i] = mutate_datum(c, spec, &items[i], depth + 1);
    } else {
        match c.below(6) {
            0 if !items.is_empty() => {
                let i = c.below(items.len());
                items.remove(i);
            }
            1 => {
                let i = c.below(items.len() + 1);
                items.insert(i, gen_datum(c, 1, spec));
            }
            2 if !items.is_empty() => {
                let i = c.below(items.len());
                items[i] = gen_datum(c, 1, spec);
            }
            3 if !items.is_empty() => {
                let i = c.below(items.len());
                items[i] = match &items[i] {
                    Sx::Sym(_) => other_symbol(c, spec),
                    _ => gen_datum(c, 0, spec),
                };
            }
            4 => {
                tail = match tail {
                    Some(_) => None,
                    None => Some(gen_datum(c, 0, spec)),
                };
            }
            _ => {
                if items.is_empty() {
                    items.push(gen_datum(c, 1, spec));
                } else {
                    let i = c.below(items.len());
                    let d = items[i].clone();
                    items.insert(i, d);
                }
            }
        }
    }
    match tail {
        None => Sx::List(items),
        Some(t) => cons_list(items, t),
    }
}

pub fn gen_valid(c: &mut Choices) -> GenCase {
    let exotic = c.chance(70);
    let custom_ellipsis = c.chance(40);
    let ellipsis = if custom_ellipsis {
        ELLIPSIS_POOL[c.below(ELLIPSIS_POOL.len())].to_string()
    } else {
        DEFAULT_ELLIPSIS.to_string()
    };
    let nlit = c.weighted(&[45, 35, 20]);
    let mut literals: Vec<String> = vec![];
    let first = c.below(LITERAL_POOL.len());
    for i in 0..nlit {
        literals.push(LITERAL_POOL[(first + i) % LITERAL_POOL.len()].to_string());
    }
    if exotic && c.chance(20) {
        literals.push("_".to_string());
    }
    let nrules = 1 + c.weighted(&[45, 35, 20]);
    let mut rules = vec![];
    for r in 0..nrules {
        let mut pg = PGen { literals: &literals, ellipsis: &ellipsis, exotic, vars: vec![] };
        let pattern = if r > 0 && r + 1 == nrules && c.chance(50) {
            // catch-all last rule, as hand-written macros have
            let v = pg.fresh_var(1);
            Sx::List(vec![Sx::sym("_"), v, Sx::sym(&ellipsis)])
        } else {
            pg.list(c, 2, 0, true, false)
        };
        let vars = pg.vars.clone();
        let tg = TGen { literals: &literals, ellipsis: &ellipsis, exotic, vars: &vars };
        let template = tg.top(c);
        rules.push(Rule { pattern, template });
    }
    let spec = Spec { ellipsis, custom_ellipsis, literals, rules };
    let target_rule = c.below(nrules);
    let n0 = c.weighted(&[15, 25, 35, 25]);
    let full = inst_pattern(c, &spec, &spec.rules[target_rule].pattern, n0);
    // drop the keyword position
    let mut args = match full {
        Sx::List(mut v) => {
            if !v.is_empty() {
                v.remove(0);
            }
            Sx::List(v)
        }
        Sx::Dotted(mut v, t) => {
            v.remove(0);
            cons_list(v, *t)
        }
        o => o,
    };
    let mut mutated = false;
    if c.chance(90) {
        mutated = true;
        let k = 1 + c.below(2);
        for _ in 0..k {
            args = mutate_datum(c, &spec, &args, 0);
        }
    }
    GenCase { spec, args, target_rule, mutated, exotic }
}

// ---------------------------------------------------------------------------
// 6. arbitrary (mutated, mostly invalid) definitions
// ---------------------------------------------------------------------------

#[derive(Clone, Debug)]
pub enum LooseRule {
    /// `(pattern (quote template) extra...)`
    Normal { pattern: Sx, template: Sx, extra: Vec<Sx> },
    /// anything else that cannot expand to code: an atom, `()`, `(pattern)`
    Junk(Sx),
}

#[derive(Clone, Debug)]
pub struct LooseDef {
    pub ellipsis_slot: Option<Sx>,
    pub literals: Option<Sx>,
    pub rules: Vec<LooseRule>,
    pub ops: Vec<String>,
}

impl LooseDef {
    pub fn from_spec(spec: &Spec) -> LooseDef {
        LooseDef {
            ellipsis_slot: if spec.custom_ellipsis { Some(Sx::sym(&spec.ellipsis)) } else { None },
            literals: Some(Sx::List(spec.literals.iter().map(|l| Sx::sym(l)).collect())),
            rules: spec
                .rules
                .iter()
                .map(|r| LooseRule::Normal { pattern: r.pattern.clone(), template: r.template.clone(), extra: vec![] })
                .collect(),
            ops: vec![],
        }
    }

    pub fn syntax_rules(&self, kw: &str) -> Sx {
        let mut v = vec![Sx::sym("syntax-rules")];
        if let Some(e) = &self.ellipsis_slot {
            v.push(e.clone());
        }
        if let Some(l) = &self.literals {
            v.push(l.clone());
        }
        for r in &self.rules {
            v.push(match r {
                LooseRule::Normal { pattern, template, extra } => {
                    let mut x = vec![subst_kw(pattern, kw), Sx::quote(subst_kw(template, kw))];
                    x.extend(extra.iter().cloned());
                    Sx::List(x)
                }
                LooseRule::Junk(j) => subst_kw(j, kw),
            });
        }
        Sx::List(v)
    }

    pub fn definition(&self, kw: &str) -> Sx {
        Sx::List(vec![Sx::sym("define-syntax"), Sx::sym(kw), self.syntax_rules(kw)])
    }
}

/// Read whatever `(define-syntax kw (syntax-rules ...))` offers as a Spec, for
/// structural analysis only: rules that are not `(pattern (quote T) ...)` with
/// a pair pattern are ignored.
pub fn loose_spec(def: &Sx) -> Option<(String, Spec)> {
    let d = def.as_list()?;
    if d.len() != 3 || d[0].as_sym() != Some("define-syntax") {
        return None;
    }
    let kw = d[1].as_sym()?.to_string();
    let sr = d[2].as_list()?;
    if sr.first()?.as_sym() != Some("syntax-rules") {
        return None;
    }
    let mut i = 1;
    let (ellipsis, custom) = match sr.get(i) {
        Some(Sx::Sym(s)) => {
            i += 1;
            (s.clone(), true)
        }
        _ => (DEFAULT_ELLIPSIS.to_string(), false),
    };
    let mut literals = vec![];
    if let Some(l) = sr.get(i) {
        if let Some((items, _)) = pairs(l) {
            for x in items {
                if let Some(s) = x.as_sym() {
                    literals.push(s.to_string());
                }
            }
        }
        i += 1;
    }
    let mut rules = vec![];
    for r in sr.iter().skip(i) {
        if let Some((items, _)) = pairs(r) {
            if items.len() >= 2 && pairs(&items[0]).is_some() {
                if let Some(q) = items[1].as_list() {
                    if q.len() == 2 && q[0].as_sym() == Some("quote") {
                        rules.push(Rule { pattern: items[0].clone(), template: q[1].clone() });
                    }
                }
            }
        }
    }
    Some((kw, Spec { ellipsis, custom_ellipsis: custom, literals, rules }))
}

fn junk_atom(c: &mut Choices, spec: &Spec) -> Sx {
    match c.below(8) {
        0 => Sx::Sym(spec.ellipsis.clone()),
        1 => Sx::sym("_"),
        2 => Sx::sym(VAR_POOL[c.below(4)]),
        3 => Sx::int(c.below(3) as i64),
        4 => Sx::nil(),
        5 => Sx::sym(RESERVED[0]),
        6 => {
            if spec.literals.is_empty() {
                Sx::Str("s".into())
            } else {
                Sx::Sym(spec.literals[0].clone())
            }
        }
        _ => Sx::Vector(vec![Sx::sym(VAR_POOL[c.below(2)])]),
    }
}

/// One structural edit somewhere inside a pattern or template.
fn edit_node(c: &mut Choices, spec: &Spec, x: &Sx, depth: usize, op_name: &mut String) -> Sx {
    let (mut items, mut tail, was_vec): (Vec<Sx>, Option<Sx>, bool) = match x {
        Sx::List(v) => (v.clone(), None, false),
        Sx::Dotted(v, t) => (v.clone(), Some((**t).clone()), false),
        Sx::Vector(v) => (v.clone(), None, true),
        _ => {
            *op_name = "atom-replace".into();
            return match c.below(3) {
                0 => Sx::List(vec![x.clone()]),
                1 => Sx::List(vec![x.clone(), Sx::Sym(spec.ellipsis.clone())]),
                _ => junk_atom(c, spec),
            };
        }
    };
    let nested: Vec<usize> = items
        .iter()
        .enumerate()
        .filter(|(_, e)| matches!(e, Sx::List(_) | Sx::Dotted(_, _) | Sx::Vector(_)))
        .map(|(i, _)| i)
        .collect();
    let ell = Sx::Sym(spec.ellipsis.clone());
    let mut to_vec = was_vec;
    if !nested.is_empty() && depth < 3 && c.chance(110) {
        let i = nested[c.below(nested.len())];
        items[i] = edit_node(c, spec, &items[i], depth + 1, op_name);
    } else {
        let n = items.len();
        match c.below(11) {
            0 => {
                *op_name = "insert-ellipsis".into();
                let i = c.below(n + 1);
                items.insert(i, ell);
            }
            1 if n > 0 => {
                *op_name = "replace-by-ellipsis".into();
                let i = c.below(n);
                items[i] = ell;
            }
            2 if n > 0 => {
                *op_name = "delete".into();
                let i = c.below(n);
                items.remove(i);
            }
            3 if n > 0 => {
                *op_name = "duplicate".into();
                let i = c.below(n);
                let d = items[i].clone();
                items.insert(i, d);
            }
            4 => {
                *op_name = "insert-atom".into();
                let i = c.below(n + 1);
                items.insert(i, junk_atom(c, spec));
            }
            5 if n > 0 => {
                *op_name = "replace-by-atom".into();
                let i = c.below(n);
                items[i] = junk_atom(c, spec);
            }
            6 if n > 0 => {
                *op_name = "wrap".into();
                let i = c.below(n);
                let d = items[i].clone();
                items[i] = Sx::List(vec![d]);
            }
            7 if n > 1 => {
                *op_name = "make-dotted".into();
                tail = items.pop();
            }
            8 => {
                *op_name = "toggle-vector".into();
                to_vec = !was_vec;
            }
            9 if n > 1 => {
                *op_name = "swap".into();
                let i = c.below(n - 1);
                items.swap(i, i + 1);
            }
            _ => {
                *op_name = "append-ellipsis".into();
                items.push(ell);
            }
        }
    }
    if to_vec {
        if let Some(t) = tail {
            items.push(t);
        }
        return Sx::Vector(items);
    }
    match tail {
        None => Sx::List(items),
        Some(t) => cons_list(items, t),
    }
}

pub struct InvalidCase {
    pub def: LooseDef,
    pub args: Sx,
}

/// A valid transformer and use, then 1–3 random edits of the definition.
pub fn gen_invalid(c: &mut Choices) -> InvalidCase {
    let base = gen_valid(c);
    let spec = base.spec;
    let mut def = LooseDef::from_spec(&spec);
    let k = 1 + c.weighted(&[50, 30, 20]);
    for _ in 0..k {
        let which = c.weighted(&[35, 40, 8, 6, 6, 5]);
        let nr = def.rules.len();
        match which {
            0 | 1 if nr > 0 => {
                let ri = c.below(nr);
                let mut name = String::new();
                if let LooseRule::Normal { pattern, template, .. } = &mut def.rules[ri] {
                    if which == 0 {
                        *pattern = edit_node(c, &spec, pattern, 0, &mut name);
                        def.ops.push(format!("pattern:{}", name));
                    } else {
                        *template = edit_node(c, &spec, template, 0, &mut name);
                        def.ops.push(format!("template:{}", name));
                    }
                }
            }
            2 => {
                let mut name = String::new();
                def.literals = match c.below(4) {
                    0 => {
                        def.ops.push("literals:drop".into());
                        None
                    }
                    1 => {
                        def.ops.push("literals:atom".into());
                        Some(junk_atom(c, &spec))
                    }
                    _ => {
                        let l = def.literals.clone().unwrap_or_else(Sx::nil);
                        let l = edit_node(c, &spec, &l, 3, &mut name);
                        def.ops.push(format!("literals:{}", name));
                        Some(l)
                    }
                };
            }
            3 => {
                def.ops.push("ellipsis-slot".into());
                def.ellipsis_slot = match c.below(3) {
                    0 => None,
                    1 => Some(junk_atom(c, &spec)),
                    _ => Some(Sx::sym(VAR_POOL[c.below(3)])),
                };
            }
            4 if nr > 0 => {
                def.ops.push("rule:junk".into());
                let ri = c.below(nr);
                let pat = match &def.rules[ri] {
                    LooseRule::Normal { pattern, .. } => pattern.clone(),
                    LooseRule::Junk(j) => j.clone(),
                };
                def.rules[ri] = LooseRule::Junk(match c.below(4) {
                    0 => Sx::nil(),
                    1 => Sx::List(vec![pat]),
                    2 => junk_atom(c, &spec),
                    _ => Sx::List(vec![]),
                });
            }
            _ => {
                if nr > 0 && c.flip() {
                    def.ops.push("rule:extra".into());
                    let ri = c.below(nr);
                    if let LooseRule::Normal { extra, .. } = &mut def.rules[ri] {
                        extra.push(junk_atom(c, &spec));
                    }
                } else {
                    def.ops.push("rules:none".into());
                    def.rules.clear();
                }
            }
        }
    }
    InvalidCase { def, args: base.args }
}

// ---------------------------------------------------------------------------
// 7. comparison up to renaming of the reserved template symbols
// ---------------------------------------------------------------------------

pub fn eq_mod_renaming(
    exp: &Sx,
    got: &Sx,
    fwd: &mut BTreeMap<String, String>,
    rev: &mut BTreeMap<String, String>,
) -> bool {
    match (exp, got) {
        (Sx::Sym(a), Sx::Sym(b)) if RESERVED.contains(&a.as_str()) => {
            match (fwd.get(a), rev.get(b)) {
                (Some(x), _) => x == b,
                (None, Some(_)) => false,
                (None, None) => {
                    // a renamed symbol may not collide with a non-reserved one that must stay exact;
                    // that is checked positionally elsewhere, here only consistency
                    fwd.insert(a.clone(), b.clone());
                    rev.insert(b.clone(), a.clone());
                    true
                }
            }
        }
        (Sx::List(a), Sx::List(b)) | (Sx::Vector(a), Sx::Vector(b)) => {
            a.len() == b.len() && a.iter().zip(b.iter()).all(|(x, y)| eq_mod_renaming(x, y, fwd, rev))
        }
        (Sx::Dotted(a, ta), Sx::Dotted(b, tb)) => {
            a.len() == b.len()
                && a.iter().zip(b.iter()).all(|(x, y)| eq_mod_renaming(x, y, fwd, rev))
                && eq_mod_renaming(ta, tb, fwd, rev)
        }
        (a, b) => a.matches(b),
    }
}

pub fn equal_up_to_renaming(exp: &Sx, got: &Sx) -> bool {
    eq_mod_renaming(exp, got, &mut BTreeMap::new(), &mut BTreeMap::new())
}

#[cfg(test)]
mod tests {
    use super::*;
    use crate::sx::read;

    fn spec(text: &str) -> Spec {
        Spec::from_definition(&read(text).unwrap()).unwrap().1
    }
    fn run(def: &str, use_: &str) -> String {
        let s = spec(def);
        let u = read(use_).unwrap();
        let args = match u {
            Sx::List(mut v) => {
                v.remove(0);
                Sx::List(v)
            }
            Sx::Dotted(mut v, t) => {
                v.remove(0);
                cons_list(v, *t)
            }
            _ => panic!(),
        };
        match expand_use(&s, &args) {
            RefOutcome::Match { expansion, .. } => expansion.to_string(),
            RefOutcome::NoMatch => "NOMATCH".into(),
            RefOutcome::LengthMismatch { .. } => "LENGTH".into(),
            RefOutcome::Invalid { why, .. } => format!("INVALID {}", why),
        }
    }

    #[test]
    fn basics() {
        let d = "(define-syntax k (syntax-rules () ((_ a b) '(b a))))";
        assert_eq!(run(d, "(k 1 2)"), "(2 1)");
        assert_eq!(run(d, "(k 1)"), "NOMATCH");
        assert_eq!(run(d, "(k 1 2 3)"), "NOMATCH");
        assert_eq!(run(d, "(k 1 . 2)"), "NOMATCH");
    }

    #[test]
    fn ellipsis_and_tail() {
        let d = "(define-syntax k (syntax-rules () ((_ a1 a* ... a2) '(+ a1 a* ... a2))))";
        assert_eq!(run(d, "(k 10 20)"), "(+ 10 20)");
        assert_eq!(run(d, "(k 10 20 30 40)"), "(+ 10 20 30 40)");
        assert_eq!(run(d, "(k 10)"), "NOMATCH");
        let d = "(define-syntax k (syntax-rules () ((_ (a b ...) ...) '((b ... a) ...))))";
        assert_eq!(run(d, "(k (1 2 3) (4) (5 6))"), "((2 3 1) (4) (6 5))");
        let d = "(define-syntax k (syntax-rules () ((_ (a ...) ...) '(a ... ...))))";
        assert_eq!(run(d, "(k (1 2 3) () (5 6))"), "(1 2 3 5 6)");
    }

    #[test]
    fn dotted_and_vector() {
        let d = "(define-syntax k (syntax-rules () ((_ a . r) '(r a))))";
        assert_eq!(run(d, "(k 1 2 3)"), "((2 3) 1)");
        assert_eq!(run(d, "(k 1)"), "(() 1)");
        assert_eq!(run(d, "(k 1 . 2)"), "(2 1)");
        let d = "(define-syntax k (syntax-rules () ((_ . r) 'r)))";
        assert_eq!(run(d, "(k 1)"), "(1)");
        assert_eq!(run(d, "(k)"), "()");
        let d = "(define-syntax k (syntax-rules () ((_ #(a b ...)) '#(b ... a))))";
        assert_eq!(run(d, "(k #(1 2 3))"), "#(2 3 1)");
        assert_eq!(run(d, "(k (1 2 3))"), "NOMATCH");
        let d = "(define-syntax k (syntax-rules () ((_ a ... . r) '((a ...) r))))";
        assert_eq!(run(d, "(k 1 2 . 3)"), "((1 2) 3)");
        assert_eq!(run(d, "(k 1 2)"), "((1 2) ())");
        let d = "(define-syntax k (syntax-rules () ((_ a b) '(a . b))))";
        assert_eq!(run(d, "(k 1 (2 3))"), "(1 2 3)");
        assert_eq!(run(d, "(k 1 2)"), "(1 . 2)");
    }

    #[test]
    fn literals_underscore_first_match() {
        let d = "(define-syntax k (syntax-rules (add sub) ((_ add a b) '(+ a b)) ((_ sub a b) '(- a b)) ((_ x a b) '(other x))))";
        assert_eq!(run(d, "(k add 1 2)"), "(+ 1 2)");
        assert_eq!(run(d, "(k sub 1 2)"), "(- 1 2)");
        assert_eq!(run(d, "(k mul 1 2)"), "(other mul)");
        let d = "(define-syntax k (syntax-rules () ((_ _ a _ b) '(a b _))))";
        assert_eq!(run(d, "(k 1 2 3 4)"), "(2 4 _)");
        let d = "(define-syntax k (syntax-rules (_) ((_ _ a) 'a)))";
        assert_eq!(run(d, "(k 1 2)"), "NOMATCH");
        assert_eq!(run(d, "(k _ 2)"), "2");
        let d = "(define-syntax k (syntax-rules ::: () ((_ a ::: ...) '(... a :::))))";
        assert_eq!(run(d, "(k 1 2 3)"), "(3 1 2)");
    }

    #[test]
    fn zip_and_mismatch() {
        let d = "(define-syntax k (syntax-rules () ((_ (a ...) (b ...)) '((a b) ...))))";
        assert_eq!(run(d, "(k (1 2) (3 4))"), "((1 3) (2 4))");
        assert_eq!(run(d, "(k (1 2) (3))"), "LENGTH");
        let d = "(define-syntax k (syntax-rules () ((_ x a ...) '((x a) ...))))";
        assert_eq!(run(d, "(k 0 1 2)"), "((0 1) (0 2))");
    }

    #[test]
    fn validity() {
        assert!(validate(&spec("(define-syntax k (syntax-rules () ((_ a ...) '(a ...))))")).is_ok());
        assert!(validate(&spec("(define-syntax k (syntax-rules () ((_ a ...) '(a))))")).is_err());
        assert!(validate(&spec("(define-syntax k (syntax-rules () ((_ a) '(a ...))))")).is_err());
        assert!(validate(&spec("(define-syntax k (syntax-rules () ((_ a a) '(a))))")).is_err());
        assert!(validate(&spec("(define-syntax k (syntax-rules () ((_ a ... b ...) '(a ...))))")).is_err());
        assert!(validate(&spec("(define-syntax k (syntax-rules () ((_ ... a) '(a))))")).is_err());
        assert!(validate(&spec("(define-syntax k (syntax-rules () ((_ (a ...) ...) '((a ...) ...))))")).is_ok());
        assert!(validate(&spec("(define-syntax k (syntax-rules () ((_ (a ...) ...) '(a ...))))")).is_err());
    }

    #[test]
    fn generator_produces_valid_transformers() {
        let mut seed = 12345u64;
        let mut matched = 0;
        for _ in 0..20000 {
            let mut bytes = vec![];
            let n = 40 + (seed % 200) as usize;
            for _ in 0..n {
                seed = seed.wrapping_mul(6364136223846793005).wrapping_add(1442695040888963407);
                bytes.push((seed >> 33) as u8);
            }
            let mut c = Choices::new(&bytes);
            let g = gen_valid(&mut c);
            if let Err(e) = validate(&g.spec) {
                panic!("invalid: {} in {}", e, g.spec.definition("kw"));
            }
            match expand_use(&g.spec, &g.args) {
                RefOutcome::Invalid { why, .. } => panic!("invalid at use: {} in {}", why, g.spec.definition("kw")),
                RefOutcome::Match { .. } => matched += 1,
                RefOutcome::NoMatch => {
                    if !g.mutated {
                        panic!("unmutated use does not match: {} {}", g.spec.definition("kw"), g.args);
                    }
                }
                _ => {}
            }
            // the definition round-trips through its datum form
            let d = g.spec.definition("kw");
            let (_, s2) = Spec::from_definition(&d).unwrap();
            assert_eq!(s2.definition("kw").to_string(), d.to_string());
            let mut c = Choices::new(&bytes);
            let inv = gen_invalid(&mut c);
            let _ = loose_spec(&inv.def.definition("kw")).map(|(_, s)| known_hang_feature(&s));
        }
        assert!(matched > 8000, "matched {}", matched);
    }
}
