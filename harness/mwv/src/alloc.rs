//! Counting global allocator: live heap bytes of the process (C12's plateau oracle
//! also sees Rc payloads, the symbol table and the global environment this way).
use std::alloc::{GlobalAlloc, Layout, System};
use std::sync::atomic::{AtomicUsize, Ordering};

pub struct Counting;

static LIVE: AtomicUsize = AtomicUsize::new(0);

unsafe impl GlobalAlloc for Counting {
    unsafe fn alloc(&self, layout: Layout) -> *mut u8 {
        let p = System.alloc(layout);
        if !p.is_null() {
            LIVE.fetch_add(layout.size(), Ordering::Relaxed);
        }
        p
    }
    unsafe fn dealloc(&self, ptr: *mut u8, layout: Layout) {
        System.dealloc(ptr, layout);
        LIVE.fetch_sub(layout.size(), Ordering::Relaxed);
    }
    unsafe fn realloc(&self, ptr: *mut u8, layout: Layout, new_size: usize) -> *mut u8 {
        let p = System.realloc(ptr, layout, new_size);
        if !p.is_null() {
            LIVE.fetch_sub(layout.size(), Ordering::Relaxed);
            LIVE.fetch_add(new_size, Ordering::Relaxed);
        }
        p
    }
}

pub fn live_bytes() -> usize {
    LIVE.load(Ordering::Relaxed)
}
