//! Per-worker context: statistics, known-finding tolerance, journal/heartbeat
//! protocol to the driver, and the proptest-driven byte-sequence runner.
//!
//! Worker -> driver protocol (one line each, on stdout):
//!   H                heartbeat
//!   J <hash> <json>  about to run this case (journal, for hang/abort attribution)
//!   V <json>         violation (unlisted signature)
//!   K <json>         known finding reproduced (first time per signature)
//!   R <json>         final statistics of the shard

use mwv_core::choice::{fnv, hex};
use mwv_core::known::Known;
use proptest::prelude::*;
use proptest::test_runner::{Config, RngSeed, TestCaseError, TestError, TestRunner};
use serde_json::{json, Map, Value};
use std::cell::{Cell, RefCell};
use std::collections::{BTreeMap, BTreeSet, HashSet};
use std::io::Write;
use std::time::Instant;

#[derive(Clone, Copy, Debug, Eq, PartialEq)]
pub enum Tier {
    Quick,
    Thorough,
}

impl Tier {
    pub fn name(&self) -> &'static str {
        match self {
            Tier::Quick => "quick",
            Tier::Thorough => "thorough",
        }
    }
    pub fn pick<T>(&self, quick: T, thorough: T) -> T {
        match self {
            Tier::Quick => quick,
            Tier::Thorough => thorough,
        }
    }
}

pub enum Outcome {
    Pass,
    Discard,
    Fail {
        sig: String,
        detail: String,
        render: Value,
    },
}

impl Outcome {
    pub fn fail<S: Into<String>, D: Into<String>>(sig: S, detail: D, render: Value) -> Outcome {
        Outcome::Fail {
            sig: sig.into(),
            detail: detail.into(),
            render,
        }
    }
}

#[derive(Default)]
pub struct Stats {
    pub evaluations: u64,
    pub nontrivial: BTreeSet<u64>,
    pub samples: Vec<Value>,
    pub class_samples: BTreeMap<String, Value>,
    pub classes: BTreeMap<String, u64>,
    pub discarded: BTreeMap<String, u64>,
    pub tolerated: BTreeMap<String, u64>,
    pub extra: Map<String, Value>,
    pub exhaustive: bool,
}

pub struct Ctx {
    pub prop: String,
    pub tier: Tier,
    pub seed: u64,
    pub shard: usize,
    pub nshards: usize,
    pub known: Known,
    pub skip: HashSet<u64>,
    /// replay / strict mode: nothing is tolerated, nothing is journaled
    pub strict: bool,
    pub stats: RefCell<Stats>,
    counting: Cell<bool>,
    last_beat: Cell<Instant>,
    announced: RefCell<BTreeSet<String>>,
    session_tolerated: RefCell<BTreeSet<String>>,
    pub violations: Cell<u64>,
    pub quiet: bool,
    /// keep the byte case being executed in a file (crash attribution); worth it only
    /// when a case costs milliseconds
    pub journal_bytes: Cell<bool>,
    /// proptest shrink iterations per failure (expensive cases lower it)
    pub shrink_iters: Cell<u32>,
    /// byte cases already dealt with by an earlier incarnation of this shard (it crashed):
    /// they are generated but not executed again
    pub fast_forward: Cell<u64>,
    case_no: Cell<u64>,
}

pub const MAX_SAMPLES: usize = 6;

impl Ctx {
    pub fn new(
        prop: &str,
        tier: Tier,
        seed: u64,
        shard: usize,
        nshards: usize,
        known: Known,
        skip: HashSet<u64>,
    ) -> Ctx {
        Ctx {
            prop: prop.to_string(),
            tier,
            seed,
            shard,
            nshards,
            known,
            skip,
            strict: false,
            stats: RefCell::new(Stats::default()),
            counting: Cell::new(true),
            last_beat: Cell::new(Instant::now()),
            announced: RefCell::new(BTreeSet::new()),
            session_tolerated: RefCell::new(BTreeSet::new()),
            violations: Cell::new(0),
            quiet: false,
            journal_bytes: Cell::new(false),
            shrink_iters: Cell::new(1_500),
            fast_forward: Cell::new(0),
            case_no: Cell::new(0),
        }
    }

    fn emit(&self, tag: char, payload: &str) {
        if self.quiet {
            return;
        }
        let out = std::io::stdout();
        let mut out = out.lock();
        let _ = writeln!(out, "{} {}", tag, payload);
        let _ = out.flush();
        self.last_beat.set(Instant::now());
    }

    /// Seed for a sub-check of this shard, a pure function of VERIF_SEED.
    pub fn sub_seed(&self, name: &str) -> u64 {
        let mut b = Vec::new();
        b.extend_from_slice(&self.seed.to_le_bytes());
        b.extend_from_slice(&(self.shard as u64).to_le_bytes());
        b.extend_from_slice(name.as_bytes());
        fnv(&b)
    }

    pub fn beat(&self) {
        if self.last_beat.get().elapsed().as_millis() > 400 {
            self.emit('H', "");
        }
    }

    pub fn counting(&self) -> bool {
        self.counting.get()
    }

    /// Journal a case before running it. Returns false if the driver asked to
    /// skip it (it hung or aborted in an earlier incarnation of this shard).
    pub fn journal(&self, case: &Value) -> bool {
        let h = fnv(case.to_string().as_bytes());
        if self.skip.contains(&h) {
            return false;
        }
        if !self.strict {
            self.emit('J', &format!("{} {}", h, case));
        }
        true
    }

    pub fn count(&self, n: u64) {
        if self.counting.get() {
            self.stats.borrow_mut().evaluations += n;
        }
    }

    pub fn nontrivial(&self, hash: u64) {
        if self.counting.get() {
            self.stats.borrow_mut().nontrivial.insert(hash);
        }
    }

    pub fn nontrivial_str(&self, s: &str) {
        self.nontrivial(fnv(s.as_bytes()));
    }

    pub fn class(&self, name: &str) {
        if self.counting.get() {
            *self.stats.borrow_mut().classes.entry(name.to_string()).or_insert(0) += 1;
        }
    }

    pub fn class_n(&self, name: &str, n: u64) {
        if self.counting.get() {
            *self.stats.borrow_mut().classes.entry(name.to_string()).or_insert(0) += n;
        }
    }

    /// Record a class and keep the first case seen of that class as a sample.
    pub fn class_with_sample<F: FnOnce() -> Value>(&self, name: &str, f: F) {
        if self.counting.get() {
            let mut st = self.stats.borrow_mut();
            *st.classes.entry(name.to_string()).or_insert(0) += 1;
            if !st.class_samples.contains_key(name) && st.class_samples.len() < 40 {
                st.class_samples.insert(name.to_string(), f());
            }
        }
    }

    pub fn discard(&self, why: &str) {
        if self.counting.get() {
            *self.stats.borrow_mut().discarded.entry(why.to_string()).or_insert(0) += 1;
        }
    }

    pub fn sample<F: FnOnce() -> Value>(&self, f: F) {
        if self.counting.get() {
            let mut st = self.stats.borrow_mut();
            if st.samples.len() < MAX_SAMPLES {
                st.samples.push(f());
            }
        }
    }

    pub fn extra(&self, key: &str, v: Value) {
        self.stats.borrow_mut().extra.insert(key.to_string(), v);
    }

    pub fn extra_add(&self, key: &str, n: u64) {
        if !self.counting.get() {
            return;
        }
        let mut st = self.stats.borrow_mut();
        let cur = st.extra.get(key).and_then(|v| v.as_u64()).unwrap_or(0);
        st.extra.insert(key.to_string(), json!(cur + n));
    }

    pub fn extra_max(&self, key: &str, n: u64) {
        let mut st = self.stats.borrow_mut();
        let cur = st.extra.get(key).and_then(|v| v.as_u64()).unwrap_or(0);
        if n > cur {
            st.extra.insert(key.to_string(), json!(n));
        }
    }

    pub fn set_exhaustive(&self, b: bool) {
        self.stats.borrow_mut().exhaustive = b;
    }

    pub fn is_known(&self, sig: &str) -> bool {
        !self.strict
            && (self.known.lookup(&self.prop, sig).is_some()
                || self.session_tolerated.borrow().contains(sig))
    }

    /// Report a failing case that was found outside the proptest runner
    /// (enumerations, grids). Returns true if it is a listed known finding.
    pub fn report(&self, kind: &str, payload: Value, sig: &str, detail: &str) -> bool {
        if !self.strict {
            if let Some(f) = self.known.lookup(&self.prop, sig) {
                let first = self.announced.borrow_mut().insert(f.sig.clone());
                *self
                    .stats
                    .borrow_mut()
                    .tolerated
                    .entry(f.sig.clone())
                    .or_insert(0) += 1;
                if first {
                    self.emit(
                        'K',
                        &json!({"sig": f.sig, "text": f.text, "seen_sig": sig, "detail": detail})
                            .to_string(),
                    );
                }
                return true;
            }
            if self.session_tolerated.borrow().contains(sig) {
                return false;
            }
            self.session_tolerated.borrow_mut().insert(sig.to_string());
        }
        self.violations.set(self.violations.get() + 1);
        self.emit(
            'V',
            &json!({
                "property": self.prop, "kind": kind, "payload": payload,
                "sig": sig, "detail": detail, "seed": self.seed, "tier": self.tier.name(),
                "shard": self.shard,
            })
            .to_string(),
        );
        false
    }

    pub fn finish(&self) {
        let st = self.stats.borrow();
        let mut samples = st.samples.clone();
        for (k, v) in st.class_samples.iter() {
            if samples.len() >= MAX_SAMPLES + 24 {
                break;
            }
            samples.push(json!({"class": k, "case": v}));
        }
        let v = json!({
            "evaluations": st.evaluations,
            "nontrivial": st.nontrivial.iter().collect::<Vec<_>>(),
            "samples": samples,
            "classes": st.classes,
            "discarded": st.discarded,
            "tolerated": st.tolerated,
            "extra": st.extra,
            "exhaustive": st.exhaustive,
            "violations": self.violations.get(),
        });
        self.emit('R', &v.to_string());
    }

    /// Drive `f` with proptest-generated byte sequences (choice sequences).
    /// On an unlisted failure proptest shrinks the bytes, keeping only
    /// candidates that fail with the same signature; the minimal case is
    /// reported as a violation and the search continues (with that signature
    /// tolerated for the rest of the shard) so that one shallow defect does
    /// not hide what lies behind it.
    pub fn run_bytes<F>(&self, kind: &str, cases: u32, max_len: usize, f: F)
    where
        F: Fn(&Ctx, &[u8]) -> Outcome,
    {
        let mut remaining = cases;
        let mut attempt = 0u64;
        // signatures already reported by this call: a further failure with one of them is not
        // searched for and shrunk again (the search continues behind it)
        let reported: RefCell<HashSet<String>> = RefCell::new(HashSet::new());
        while remaining > 0 && attempt < 6 {
            let seed = self.sub_seed(&format!("{}#{}", kind, attempt));
            let config = Config {
                cases: remaining,
                failure_persistence: None,
                rng_seed: RngSeed::Fixed(seed),
                max_shrink_iters: self.shrink_iters.get(),
                max_local_rejects: 1_000_000,
                max_global_rejects: 1_000_000,
                ..Config::default()
            };
            let mut runner = TestRunner::new(config);
            let first_sig: RefCell<Option<String>> = RefCell::new(None);
            let done = Cell::new(0u32);
            self.counting.set(true);
            let strat = proptest::collection::vec(any::<u8>(), 0..max_len);
            let cur_path = format!(
                "{}/replays/.cur-{}-{}.tmp",
                std::env::var("VERIF_ROOT").unwrap_or_else(|_| "/verif".into()),
                self.prop,
                self.shard
            );
            let result = runner.run(&strat, |bytes| {
                self.beat();
                if first_sig.borrow().is_none() {
                    self.case_no.set(self.case_no.get() + 1);
                    if self.case_no.get() <= self.fast_forward.get() {
                        return Ok(());
                    }
                }
                if !self.strict && self.journal_bytes.get() {
                    // crash attribution: the case being executed is always on disk
                    let rec = format!("{{\"kind\":\"{}\",\"n\":{},\"payload\":{{\"bytes\":\"{}\"}}}}", kind, self.case_no.get(), hex(&bytes));
                    if !self.skip.is_empty() && self.skip.contains(&fnv(rec.as_bytes())) {
                        self.discard("skipped: hung or aborted in an earlier incarnation of this shard");
                        return Ok(());
                    }
                    let _ = std::fs::write(&cur_path, rec);
                }
                let searching = first_sig.borrow().is_none();
                if searching {
                    done.set(done.get() + 1);
                    self.count(1);
                }
                match f(self, &bytes) {
                    Outcome::Pass | Outcome::Discard => Ok(()),
                    Outcome::Fail { sig, detail, render } => {
                        let cur = first_sig.borrow().clone();
                        match cur {
                            Some(s) => {
                                if s == sig {
                                    Err(TestCaseError::fail(sig))
                                } else {
                                    Ok(())
                                }
                            }
                            None => {
                                if reported.borrow().contains(&sig) {
                                    self.class("failure-with-a-signature-already-reported-in-this-run");
                                    Ok(())
                                } else if self.is_known(&sig) {
                                    if self.known.lookup(&self.prop, &sig).is_some() {
                                        self.report(kind, render, &sig, &detail);
                                    }
                                    Ok(())
                                } else {
                                    *first_sig.borrow_mut() = Some(sig.clone());
                                    self.counting.set(false);
                                    Err(TestCaseError::fail(sig))
                                }
                            }
                        }
                    }
                }
            });
            self.counting.set(true);
            let _ = std::fs::remove_file(&cur_path);
            match result {
                Ok(()) => break,
                Err(TestError::Fail(_, bytes)) => {
                    self.counting.set(false);
                    let out = f(self, &bytes);
                    self.counting.set(true);
                    let (sig, detail, render) = match out {
                        Outcome::Fail { sig, detail, render } => (sig, detail, render),
                        _ => (
                            first_sig.borrow().clone().unwrap_or_default(),
                            "minimal case did not fail again when re-run (nondeterministic)".into(),
                            Value::Null,
                        ),
                    };
                    self.report(
                        kind,
                        json!({"bytes": hex(&bytes), "render": render}),
                        &sig,
                        &detail,
                    );
                    reported.borrow_mut().insert(sig.clone());
                    if let Some(s) = first_sig.borrow().clone() {
                        reported.borrow_mut().insert(s);
                    }
                    remaining = remaining.saturating_sub(done.get());
                    attempt += 1;
                }
                Err(TestError::Abort(reason)) => {
                    self.extra("proptest_abort", json!(reason.to_string()));
                    break;
                }
            }
        }
    }
}

/// A quiet context for in-process use by the fuzz targets: nothing is printed,
/// listed findings are tolerated.
pub fn fuzz_ctx(prop: &str) -> Ctx {
    let mut ctx = Ctx::new(prop, Tier::Thorough, 0, 0, 1, crate::driver::load_known(), HashSet::new());
    ctx.quiet = true;
    // no statistics in a long fuzz campaign (they would only grow)
    ctx.counting.set(false);
    ctx
}

/// Convenience for the sig-stable "render" of a byte case.
pub fn bytes_payload(bytes: &[u8], render: Value) -> Value {
    json!({"bytes": hex(bytes), "render": render})
}
