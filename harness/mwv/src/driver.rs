//! Driver: regression tier, worker processes, watchdog, merging, evidence,
//! KNOWN-FINDING / VIOLATION lines and exit status.
//!
//! Exit status: 0 = held on everything explored (known findings listed),
//! 1 = at least one unlisted violation, 2 = infrastructure trouble or
//! inconclusive only.

use crate::ctx::Tier;
use crate::props;
use mwv_core::choice::fnv;
use mwv_core::known::Known;
use serde_json::{json, Map, Value};
use std::collections::{BTreeMap, BTreeSet};
use std::io::{BufRead, BufReader};
use std::process::{Child, Command, Stdio};
use std::sync::mpsc::{channel, Receiver, RecvTimeoutError};
use std::time::{Duration, Instant};

pub fn verif_root() -> String {
    std::env::var("VERIF_ROOT").unwrap_or_else(|_| "/verif".to_string())
}

pub fn load_known() -> Known {
    Known::load(&format!("{}/KNOWN_FINDINGS.txt", verif_root()))
}

struct Worker {
    shard: usize,
    child: Child,
    rx: Receiver<String>,
    last_activity: Instant,
    last_journal: Option<(u64, String)>,
    skip: Vec<u64>,
    fast_forward: u64,
    restarts: u32,
    done: bool,
    result: Option<Value>,
}

fn spawn_worker(
    exe: &str,
    id: &str,
    tier: Tier,
    seed: u64,
    shard: usize,
    nshards: usize,
    skip: &[u64],
    fast_forward: u64,
) -> (Child, Receiver<String>) {
    let skip_s = skip.iter().map(|h| h.to_string()).collect::<Vec<_>>().join(",");
    let mut child = Command::new(exe)
        .arg("worker")
        .arg(id)
        .arg(tier.name())
        .arg(seed.to_string())
        .arg(shard.to_string())
        .arg(nshards.to_string())
        .arg(skip_s)
        .arg(fast_forward.to_string())
        .stdin(Stdio::null())
        .stdout(Stdio::piped())
        .stderr(Stdio::piped())
        .spawn()
        .expect("cannot spawn worker");
    let stdout = child.stdout.take().unwrap();
    let stderr = child.stderr.take().unwrap();
    let (tx, rx) = channel();
    let tx2 = tx.clone();
    std::thread::spawn(move || {
        for line in BufReader::new(stdout).lines() {
            match line {
                Ok(l) => {
                    if tx.send(l).is_err() {
                        break;
                    }
                }
                Err(_) => break,
            }
        }
    });
    std::thread::spawn(move || {
        for line in BufReader::new(stderr).lines().map_while(Result::ok) {
            let _ = tx2.send(format!("E {}", line));
        }
    });
    (child, rx)
}

pub struct OneShot {
    pub status: String, // "ok" | "fail" | "timeout" | "signal:<n>" | "exit:<n>"
    pub lines: Vec<String>,
    pub stderr_tail: String,
}

/// Run `mwv <args>` as a one-shot child with a time limit.
pub fn one_shot(exe: &str, args: &[String], limit: Duration) -> OneShot {
    let mut child = Command::new(exe)
        .args(args)
        .stdin(Stdio::null())
        .stdout(Stdio::piped())
        .stderr(Stdio::piped())
        .spawn()
        .expect("cannot spawn child");
    let stdout = child.stdout.take().unwrap();
    let stderr = child.stderr.take().unwrap();
    let (tx, rx) = channel();
    std::thread::spawn(move || {
        let lines: Vec<String> = BufReader::new(stdout).lines().map_while(Result::ok).collect();
        let _ = tx.send(lines);
    });
    let (etx, erx) = channel();
    std::thread::spawn(move || {
        let lines: Vec<String> = BufReader::new(stderr).lines().map_while(Result::ok).collect();
        let _ = etx.send(lines);
    });
    let start = Instant::now();
    let status;
    loop {
        match child.try_wait() {
            Ok(Some(st)) => {
                use std::os::unix::process::ExitStatusExt;
                status = if let Some(sig) = st.signal() {
                    format!("signal:{}", sig)
                } else if st.code() == Some(0) {
                    "ok".to_string()
                } else if st.code() == Some(1) {
                    "fail".to_string()
                } else {
                    format!("exit:{}", st.code().unwrap_or(-1))
                };
                break;
            }
            Ok(None) => {
                if start.elapsed() > limit {
                    let _ = child.kill();
                    let _ = child.wait();
                    status = "timeout".to_string();
                    break;
                }
                std::thread::sleep(Duration::from_millis(10));
            }
            Err(_) => {
                status = "exit:-1".to_string();
                break;
            }
        }
    }
    let lines = rx.recv_timeout(Duration::from_secs(2)).unwrap_or_default();
    let elines = erx.recv_timeout(Duration::from_secs(2)).unwrap_or_default();
    let tail = elines
        .iter()
        .rev()
        .take(6)
        .rev()
        .cloned()
        .collect::<Vec<_>>()
        .join(" | ");
    OneShot {
        status,
        lines,
        stderr_tail: tail,
    }
}

fn is_alloc_failure(stderr: &str) -> bool {
    stderr.contains("memory allocation of") || stderr.contains("out of memory")
}

/// Thorough tier: run a cargo-fuzz target (libFuzzer, fixed -runs and -seed, fresh corpus
/// seeded from /verif/corpus) whose body is the property's own oracle. A crash artifact is
/// turned into a replay record of kind `fuzz:<target>`.
fn fuzz_stage(id: &str, target: &str, runs: u64, max_len: usize, seed: u64, root: &str, known: &Known) -> (Map<String, Value>, Vec<Value>) {
    let mut info = Map::new();
    let mut found = vec![];
    info.insert("target".into(), json!(target));
    info.insert("runs_requested".into(), json!(runs));
    let work = format!("{}/harness/target/fuzz-{}-{}", root, id, target);
    let _ = std::fs::remove_dir_all(&work);
    let corpus = format!("{}/corpus", work);
    let artifacts = format!("{}/artifacts/", work);
    let _ = std::fs::create_dir_all(&corpus);
    let _ = std::fs::create_dir_all(&artifacts);
    // seed corpus: the committed small programs (text targets only)
    if target == "reader" || target == "highlight" {
        if let Ok(rd) = std::fs::read_dir(format!("{}/corpus", root)) {
            for e in rd.filter_map(|e| e.ok()) {
                let _ = std::fs::copy(e.path(), format!("{}/{}", corpus, e.file_name().to_string_lossy()));
            }
        }
    }
    let start = Instant::now();
    let out = Command::new("cargo")
        .current_dir(format!("{}/harness/fuzz", root))
        .env("VERIF_ROOT", root)
        .args(["+nightly", "fuzz", "run", "-s", "none", target, &corpus, "--"])
        .arg(format!("-runs={}", runs))
        .arg(format!("-seed={}", (seed % 4_000_000_000) + 1))
        .arg(format!("-max_len={}", max_len))
        .arg("-len_control=0")
        .arg(format!("-artifact_prefix={}", artifacts))
        .stdin(Stdio::null())
        .output();
    info.insert("wall_s".into(), json!(start.elapsed().as_secs_f64().round()));
    match out {
        Err(e) => {
            info.insert("skipped".into(), json!(format!("cargo fuzz could not be started: {}", e)));
        }
        Ok(o) => {
            let text = String::from_utf8_lossy(&o.stderr).to_string();
            let done = text
                .lines()
                .rev()
                .find_map(|l| l.strip_prefix("Done ").and_then(|r| r.split(' ').next()).and_then(|n| n.parse::<u64>().ok()));
            if let Some(n) = done {
                info.insert("runs_done".into(), json!(n));
            }
            if let Some(l) = text.lines().rev().find(|l| l.contains(" cov: ")) {
                info.insert("last_status".into(), json!(l.trim()));
            }
            let crashed = !o.status.success();
            let mut arts: Vec<String> = std::fs::read_dir(&artifacts)
                .map(|rd| rd.filter_map(|e| e.ok()).map(|e| e.path().to_string_lossy().to_string()).collect())
                .unwrap_or_default();
            arts.sort();
            if crashed && arts.is_empty() && done.is_none() {
                let tail: Vec<&str> = text.lines().rev().take(6).collect();
                info.insert("skipped".into(), json!(format!("fuzz build or run failed: {}", tail.into_iter().rev().collect::<Vec<_>>().join(" | "))));
            }
            for a in arts {
                if let Ok(bytes) = std::fs::read(&a) {
                    let vline = text.lines().find(|l| l.starts_with("FUZZ-VIOLATION")).unwrap_or("").to_string();
                    let sig = vline.split("sig=").nth(1).and_then(|r| r.split(" :: ").next()).unwrap_or("").to_string();
                    let sig = if sig.is_empty() { format!("{}|fuzz:{}|crash", id, target) } else { sig };
                    if known.lookup(id, &sig).is_none() {
                        found.push(json!({
                            "property": id, "kind": format!("fuzz:{}", target),
                            "payload": {"bytes": mwv_core::choice::hex(&bytes)},
                            "sig": sig, "detail": format!("found by libFuzzer target {}: {}", target, vline), "seed": seed, "tier": "thorough",
                        }));
                    }
                }
            }
        }
    }
    let _ = std::fs::remove_dir_all(&work);
    (info, found)
}

pub fn write_replay(id: &str, v: &Value) -> String {
    let root = verif_root();
    let _ = std::fs::create_dir_all(format!("{}/replays", root));
    let h = fnv(v.to_string().as_bytes());
    let path = format!("{}/replays/{}-{:016x}.json", root, id, h);
    let _ = std::fs::write(&path, serde_json::to_string_pretty(v).unwrap());
    path
}

pub fn check(id: &str, tier: Tier, seed: u64) -> i32 {
    let start = Instant::now();
    let exe = std::env::current_exe().unwrap().to_string_lossy().to_string();
    let prop = match props::lookup(id) {
        Some(p) => p,
        None => {
            eprintln!("unknown property {}", id);
            return 2;
        }
    };
    let known = load_known();
    let root = verif_root();
    // replay files of earlier runs of this property are stale: remove them
    if let Ok(rd) = std::fs::read_dir(format!("{}/replays", root)) {
        for e in rd.filter_map(|e| e.ok()) {
            let name = e.file_name().to_string_lossy().to_string();
            if e.path().is_file() && name.starts_with(&format!("{}-", id)) && name.ends_with(".json") {
                let _ = std::fs::remove_file(e.path());
            }
        }
    }
    let mut violations: Vec<Value> = vec![];
    let mut known_hits: BTreeMap<String, (String, u64)> = BTreeMap::new();
    let mut inconclusive: Vec<String> = vec![];
    let mut notes: Vec<String> = vec![];
    let mut regression = Map::new();

    // ---- regression tier: replays/known (must still fail as listed) and
    // replays/fixed (must pass).
    for (dir, expect_fail) in [("known", true), ("fixed", false)] {
        let d = format!("{}/replays/{}", root, dir);
        let mut files: Vec<String> = std::fs::read_dir(&d)
            .map(|rd| {
                rd.filter_map(|e| e.ok())
                    .map(|e| e.path().to_string_lossy().to_string())
                    .filter(|p| {
                        p.ends_with(".json")
                            && p.rsplit('/').next().unwrap_or("").starts_with(&format!("{}-", id))
                    })
                    .collect()
            })
            .unwrap_or_default();
        files.sort();
        let mut n = 0;
        for f in files {
            n += 1;
            let r = one_shot(
                &exe,
                &["replay".to_string(), f.clone(), "--raw".to_string()],
                Duration::from_secs(prop.replay_timeout_s()),
            );
            let recorded: Value = std::fs::read_to_string(&f)
                .ok()
                .and_then(|t| serde_json::from_str(&t).ok())
                .unwrap_or(Value::Null);
            let recorded_sig = recorded["sig"].as_str().unwrap_or("").to_string();
            // what did the replay observe?
            let mut observed_sig: Option<String> = None;
            for l in &r.lines {
                if let Some(rest) = l.strip_prefix("REPLAY-FAIL sig=") {
                    observed_sig = Some(rest.split(" :: ").next().unwrap_or("").to_string());
                }
            }
            if r.status == "timeout" || r.status.starts_with("signal") {
                // hang/abort replays: the recorded signature describes it
                observed_sig = Some(props::hang_sig(&recorded, &r.status));
            }
            if expect_fail {
                match observed_sig {
                    Some(s) => {
                        if let Some(fd) = known.lookup(id, &s) {
                            let e = known_hits
                                .entry(fd.sig.clone())
                                .or_insert((fd.text.clone(), 0));
                            e.1 += 1;
                        } else if known.lookup(id, &recorded_sig).is_some() {
                            // still failing, but differently: report as a new violation
                            let mut v = recorded.clone();
                            v["sig"] = json!(s);
                            v["detail"] = json!(format!(
                                "known-finding reproducer {} now fails with a different signature (was {})",
                                f, recorded_sig
                            ));
                            violations.push(v);
                        } else {
                            notes.push(format!("replay {} fails but no finding lists {}", f, s));
                            let mut v = recorded.clone();
                            v["sig"] = json!(s);
                            violations.push(v);
                        }
                    }
                    None => {
                        notes.push(format!(
                            "known finding no longer reproduces: {} ({})",
                            recorded_sig, f
                        ));
                    }
                }
            } else if let Some(s) = observed_sig {
                let mut v = recorded.clone();
                v["sig"] = json!(s);
                v["detail"] = json!(format!("regression: fixed defect is back ({})", f));
                violations.push(v);
            }
        }
        regression.insert(dir.to_string(), json!(n));
    }

    // ---- search tier
    let nshards = prop.shards(tier).max(1);
    let timeout = Duration::from_secs(prop.case_timeout_s());
    let mut workers: Vec<Worker> = (0..nshards)
        .map(|s| {
            let (child, rx) = spawn_worker(&exe, id, tier, seed, s, nshards, &[], 0);
            Worker {
                shard: s,
                child,
                rx,
                last_activity: Instant::now(),
                last_journal: None,
                skip: vec![],
                fast_forward: 0,
                restarts: 0,
                done: false,
                result: None,
            }
        })
        .collect();

    let mut stderr_tail: BTreeMap<usize, Vec<String>> = BTreeMap::new();
    let mut infra_fail = false;
    loop {
        let mut all_done = true;
        for w in workers.iter_mut() {
            if w.done {
                continue;
            }
            all_done = false;
            // drain lines
            loop {
                match w.rx.recv_timeout(Duration::from_millis(5)) {
                    Ok(line) => {
                        w.last_activity = Instant::now();
                        let (tag, rest) = line.split_at(line.len().min(1));
                        let rest = rest.trim_start();
                        match tag {
                            "H" => {}
                            "J" => {
                                if let Some((h, c)) = rest.split_once(' ') {
                                    w.last_journal =
                                        Some((h.parse().unwrap_or(0), c.to_string()));
                                }
                            }
                            "V" => {
                                if let Ok(v) = serde_json::from_str::<Value>(rest) {
                                    violations.push(v);
                                }
                            }
                            "K" => {
                                if let Ok(v) = serde_json::from_str::<Value>(rest) {
                                    let sig = v["sig"].as_str().unwrap_or("").to_string();
                                    let text = v["text"].as_str().unwrap_or("").to_string();
                                    known_hits.entry(sig).or_insert((text, 0)).1 += 1;
                                }
                            }
                            "R" => {
                                w.result = serde_json::from_str::<Value>(rest).ok();
                            }
                            "E" => {
                                let t = stderr_tail.entry(w.shard).or_default();
                                t.push(rest.to_string());
                                if t.len() > 8 {
                                    t.remove(0);
                                }
                            }
                            _ => {}
                        }
                    }
                    Err(RecvTimeoutError::Timeout) => break,
                    Err(RecvTimeoutError::Disconnected) => break,
                }
            }
            // process state
            let exited = match w.child.try_wait() {
                Ok(Some(st)) => Some(st),
                _ => None,
            };
            let timed_out = exited.is_none() && w.last_activity.elapsed() > timeout;
            if let Some(st) = exited {
                // drain whatever is left (the reader threads end at EOF, which disconnects the channel)
                while let Ok(line) = w.rx.recv_timeout(Duration::from_secs(5)) {
                    if let Some(rest) = line.strip_prefix("R ") {
                        w.result = serde_json::from_str::<Value>(rest).ok();
                    } else if let Some(rest) = line.strip_prefix("V ") {
                        if let Ok(v) = serde_json::from_str::<Value>(rest) {
                            violations.push(v);
                        }
                    } else if let Some(rest) = line.strip_prefix("K ") {
                        if let Ok(v) = serde_json::from_str::<Value>(rest) {
                            let sig = v["sig"].as_str().unwrap_or("").to_string();
                            let text = v["text"].as_str().unwrap_or("").to_string();
                            known_hits.entry(sig).or_insert((text, 0)).1 += 1;
                        }
                    } else if let Some(rest) = line.strip_prefix("E ") {
                        let t = stderr_tail.entry(w.shard).or_default();
                        t.push(rest.to_string());
                    } else if let Some(rest) = line.strip_prefix("J ") {
                        if let Some((h, c)) = rest.split_once(' ') {
                            w.last_journal = Some((h.parse().unwrap_or(0), c.to_string()));
                        }
                    }
                }
                if st.success() && w.result.is_some() {
                    w.done = true;
                    continue;
                }
            }
            if exited.is_some() || timed_out {
                // abnormal: kill, attribute to the journaled case, confirm, restart
                let _ = w.child.kill();
                let _ = w.child.wait();
                let how = if timed_out {
                    "timeout".to_string()
                } else {
                    use std::os::unix::process::ExitStatusExt;
                    let st = exited.unwrap();
                    match st.signal() {
                        Some(s) => format!("signal:{}", s),
                        None => format!("exit:{}", st.code().unwrap_or(-1)),
                    }
                };
                let tail = stderr_tail
                    .get(&w.shard)
                    .map(|t| t.join(" | "))
                    .unwrap_or_default();
                if w.last_journal.is_none() {
                    // byte-sequence runners keep the current case in a file instead of journaling it
                    let cur = format!("{}/replays/.cur-{}-{}.tmp", root, id, w.shard);
                    if let Ok(t) = std::fs::read_to_string(&cur) {
                        if let Some(n) = serde_json::from_str::<Value>(&t).ok().and_then(|v| v["n"].as_u64()) {
                            // the restarted shard need not execute the cases before this one again
                            w.fast_forward = n;
                        }
                        w.last_journal = Some((fnv(t.as_bytes()), t));
                    }
                    let _ = std::fs::remove_file(&cur);
                }
                match w.last_journal.take() {
                    Some((h, case)) => {
                        // confirm alone, with 3x the limit
                        let case_v: Value = serde_json::from_str(&case).unwrap_or(Value::Null);
                        let tmp = format!("{}/replays/.confirm-{}-{}.tmp", root, id, w.shard);
                        let _ = std::fs::create_dir_all(format!("{}/replays", root));
                        let rec = json!({"property": id, "kind": case_v["kind"], "payload": case_v["payload"],
                            "sig": "", "detail": "", "seed": seed, "tier": tier.name()});
                        let _ = std::fs::write(&tmp, rec.to_string());
                        let r = one_shot(
                            &exe,
                            &["replay".to_string(), tmp.clone(), "--raw".to_string()],
                            Duration::from_secs(prop.case_timeout_s() * 3),
                        );
                        let _ = std::fs::remove_file(&tmp);
                        let confirmed = r.status == "timeout" || r.status.starts_with("signal");
                        if (is_alloc_failure(&r.stderr_tail) || is_alloc_failure(&tail))
                            && !prop.alloc_failure_is_nontermination()
                        {
                            inconclusive.push(format!(
                                "allocation failure on case {} ({})",
                                case, how
                            ));
                        } else if confirmed && prop.hang_is_violation() {
                            let sig = props::hang_sig(&rec, &r.status);
                            if let Some(fd) = known.lookup(id, &sig) {
                                known_hits
                                    .entry(fd.sig.clone())
                                    .or_insert((fd.text.clone(), 0))
                                    .1 += 1;
                            } else {
                                let mut v = rec.clone();
                                v["sig"] = json!(sig);
                                v["detail"] = json!(format!(
                                    "case did not complete: {} (confirmed alone: {}) {}",
                                    how, r.status, r.stderr_tail
                                ));
                                violations.push(v);
                            }
                        } else if confirmed {
                            inconclusive.push(format!("{} on case {} ({})", r.status, case, how));
                        } else {
                            // the case alone is fine / fails normally: if it fails normally the
                            // worker would have said so; treat the shard stall as inconclusive
                            for l in &r.lines {
                                if let Some(rest) = l.strip_prefix("REPLAY-FAIL sig=") {
                                    let s = rest.split(" :: ").next().unwrap_or("").to_string();
                                    if known.lookup(id, &s).is_none() {
                                        let mut v = rec.clone();
                                        v["sig"] = json!(s);
                                        v["detail"] = json!(rest.to_string());
                                        violations.push(v);
                                    }
                                }
                            }
                            inconclusive.push(format!(
                                "shard {} stopped ({}) but case {} completes alone; stderr: {}",
                                w.shard, how, case, tail
                            ));
                        }
                        w.skip.push(h);
                    }
                    None => {
                        inconclusive.push(format!(
                            "shard {} stopped ({}) with no journaled case; stderr: {}",
                            w.shard, how, tail
                        ));
                        w.restarts += 100; // nothing to skip: do not loop
                    }
                }
                w.restarts += 1;
                if w.restarts > prop.max_restarts() {
                    infra_fail = true;
                    w.done = true;
                    continue;
                }
                let (child, rx) = spawn_worker(&exe, id, tier, seed, w.shard, nshards, &w.skip, w.fast_forward);
                w.child = child;
                w.rx = rx;
                w.last_activity = Instant::now();
                w.result = None;
            }
        }
        if all_done {
            break;
        }
    }

    // ---- coverage-guided stage (thorough tier only): libFuzzer over the same oracle
    let mut fuzz_info = Map::new();
    if tier == Tier::Thorough {
        if let Some((target, runs, max_len)) = prop.fuzz_stage() {
            let (info, found) = fuzz_stage(id, target, runs, max_len, seed, &root, &known);
            fuzz_info = info;
            violations.extend(found);
        }
    }

    // ---- merge
    let mut evaluations = 0u64;
    let mut nontrivial: BTreeSet<u64> = BTreeSet::new();
    let mut samples: Vec<Value> = vec![];
    let mut class_samples_seen: BTreeSet<String> = BTreeSet::new();
    let mut classes: BTreeMap<String, u64> = BTreeMap::new();
    let mut discarded: BTreeMap<String, u64> = BTreeMap::new();
    let mut tolerated: BTreeMap<String, u64> = BTreeMap::new();
    let mut extra: Map<String, Value> = Map::new();
    let mut exhaustive = true;
    let mut have_results = 0;
    for w in &workers {
        if let Some(r) = &w.result {
            have_results += 1;
            evaluations += r["evaluations"].as_u64().unwrap_or(0);
            if let Some(a) = r["nontrivial"].as_array() {
                for h in a {
                    if let Some(h) = h.as_u64() {
                        nontrivial.insert(h);
                    }
                }
            }
            if let Some(a) = r["samples"].as_array() {
                for s in a {
                    if let Some(c) = s.get("class").and_then(|c| c.as_str()) {
                        if class_samples_seen.insert(c.to_string()) && samples.len() < 40 {
                            samples.push(s.clone());
                        }
                    } else if samples.len() < 8 || w.shard == 0 {
                        if samples.len() < 40 {
                            samples.push(s.clone());
                        }
                    }
                }
            }
            for (name, tgt) in [
                ("classes", &mut classes),
                ("discarded", &mut discarded),
                ("tolerated", &mut tolerated),
            ] {
                if let Some(o) = r[name].as_object() {
                    for (k, v) in o {
                        *tgt.entry(k.clone()).or_insert(0) += v.as_u64().unwrap_or(0);
                    }
                }
            }
            if let Some(o) = r["extra"].as_object() {
                for (k, v) in o {
                    match (extra.get(k).and_then(|x| x.as_u64()), v.as_u64()) {
                        (Some(a), Some(b)) => {
                            let merged = if k.starts_with("max_") { a.max(b) } else { a + b };
                            extra.insert(k.clone(), json!(merged));
                        }
                        _ => {
                            extra.entry(k.clone()).or_insert(v.clone());
                        }
                    }
                }
            }
            if !r["exhaustive"].as_bool().unwrap_or(false) {
                exhaustive = false;
            }
        } else {
            exhaustive = false;
        }
    }
    if have_results == 0 {
        infra_fail = true;
    }
    for (sig, n) in &tolerated {
        if let Some(fd) = known.lookup(id, sig) {
            known_hits
                .entry(fd.sig.clone())
                .or_insert((fd.text.clone(), 0))
                .1 += *n;
        }
    }

    // ---- de-duplicate violations by signature, write replay files
    let mut seen_sigs = BTreeSet::new();
    let mut violation_lines = vec![];
    for v in &violations {
        let sig = v["sig"].as_str().unwrap_or("").to_string();
        if known.lookup(id, &sig).is_some() {
            continue;
        }
        if !seen_sigs.insert(sig.clone()) {
            continue;
        }
        let path = write_replay(id, v);
        violation_lines.push((path, sig, v["detail"].as_str().unwrap_or("").to_string()));
    }

    // ---- evidence
    let wall = start.elapsed().as_secs_f64();
    let mut coverage = Map::new();
    coverage.insert("evaluations".into(), json!(evaluations));
    coverage.insert("distinct_nontrivial".into(), json!(nontrivial.len()));
    coverage.insert("rule".into(), json!(prop.rule()));
    coverage.insert("samples".into(), json!(samples));
    coverage.insert("classes".into(), json!(classes));
    coverage.insert("discarded".into(), json!(discarded));
    coverage.insert("tolerated_known".into(), json!(tolerated));
    coverage.insert("inconclusive".into(), json!(inconclusive));
    coverage.insert("regression_replays".into(), Value::Object(regression));
    coverage.insert("shards".into(), json!(nshards));
    coverage.insert("notes".into(), json!(notes));
    if exhaustive && prop.can_be_exhaustive(tier) {
        coverage.insert("exhaustive".into(), json!(true));
    }
    for (k, v) in extra {
        coverage.insert(k, v);
    }
    if !fuzz_info.is_empty() {
        coverage.insert("coverage_guided_stage".into(), Value::Object(fuzz_info));
    }
    let ev = json!({
        "property_id": id,
        "tier": tier.name(),
        "seed": seed,
        "level": "exploration",
        "coverage": Value::Object(coverage),
        "assumptions": prop.assumptions(),
        "wall_s": (wall * 100.0).round() / 100.0,
        "violations": violation_lines.len(),
        "known_findings_reproduced": known_hits.iter().map(|(k, v)| json!({"sig": k, "hits": v.1})).collect::<Vec<_>>(),
    });
    let _ = std::fs::create_dir_all(format!("{}/evidence", root));
    // VERIF_EVIDENCE_SUFFIX: a secondary run (the plain-release profile of the thorough tier)
    // writes evidence/<ID><suffix>.json; VERIF_MERGE_EVIDENCE names such a file to fold into this run's
    let suffix = std::env::var("VERIF_EVIDENCE_SUFFIX").unwrap_or_default();
    let mut ev = ev;
    if let Ok(other) = std::env::var("VERIF_MERGE_EVIDENCE") {
        if let Some(o) = std::fs::read_to_string(&other).ok().and_then(|t| serde_json::from_str::<Value>(&t).ok()) {
            ev["coverage"]["plain_release_profile_run"] = json!({
                "evaluations": o["coverage"]["evaluations"],
                "distinct_nontrivial": o["coverage"]["distinct_nontrivial"],
                "violations": o["violations"],
                "wall_s": o["wall_s"],
                "note": "same check, harness and SUT built with overflow-checks and debug-assertions off (how the REPL and wasm front ends ship)",
            });
            let _ = std::fs::remove_file(&other);
        }
    }
    let _ = std::fs::write(
        format!("{}/evidence/{}{}.json", root, id, suffix),
        serde_json::to_string_pretty(&ev).unwrap(),
    );

    // ---- report
    for fd in known.for_property(id) {
        match known_hits.get(&fd.sig) {
            Some((_, n)) => println!(
                "KNOWN-FINDING: property={} {} [sig={}; reproduced {}x this run]",
                id, fd.text, fd.sig, n
            ),
            None => println!(
                "NOTE: property={} listed finding not reproduced this run: sig={}",
                id, fd.sig
            ),
        }
    }
    for n in &notes {
        println!("NOTE: {}", n);
    }
    for i in &inconclusive {
        println!("INCONCLUSIVE property={} {}", id, i);
    }
    for (path, sig, detail) in &violation_lines {
        println!("VIOLATION property={} replay={}", id, path);
        println!("  sig={} :: {}", sig, detail);
    }
    println!(
        "{} {}: {} cases, {} distinct non-trivial, {} violation(s), {:.1}s",
        id,
        tier.name(),
        evaluations,
        nontrivial.len(),
        violation_lines.len(),
        wall
    );
    if !violation_lines.is_empty() {
        1
    } else if infra_fail || (!inconclusive.is_empty() && evaluations == 0) {
        2
    } else {
        0
    }
}
