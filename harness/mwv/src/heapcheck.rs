//! Independent heap reachability and collector invariants (C03, C12, C18).
//!
//! Written against raw VM state obtained through the read-only `verif`
//! accessors; it shares no code with the collector. Every edge kind the VM can
//! follow is followed; `JMP`/`JNT` operands are offsets, not references.

use marwood::vm::gc::State;
use marwood::vm::opcode::OpCode;
use marwood::vm::vcell::VCell;
use marwood::vm::Vm;

pub struct Reach {
    pub reached: Vec<bool>,
    pub count: usize,
    /// shallow fingerprint per reached cell
    pub prints: Vec<u64>,
    pub has_continuation: bool,
    pub sp: usize,
}

fn push_edges(v: &VCell, work: &mut Vec<usize>, deep: &mut Vec<VCell>) {
    match v {
        VCell::Ptr(p) => work.push(*p),
        VCell::Pair(a, d) => {
            work.push(*a);
            work.push(*d);
        }
        VCell::Closure(l, e) => {
            work.push(*l);
            work.push(*e);
        }
        VCell::LexicalEnvPtr(p, _) => work.push(*p),
        VCell::EnvironmentPointer(p) => {
            if *p != usize::MAX {
                work.push(*p)
            }
        }
        VCell::InstructionPointer(l, _) => {
            if *l != usize::MAX {
                work.push(*l)
            }
        }
        // containers whose contents are VCells held by value: scan them
        VCell::Lambda(_) | VCell::LexicalEnv(_) | VCell::Vector(_) | VCell::Continuation(_) => {
            deep.push(v.clone())
        }
        _ => {}
    }
}

fn scan_container(v: &VCell, work: &mut Vec<usize>, deep: &mut Vec<VCell>, has_cont: &mut bool) {
    match v {
        VCell::Lambda(l) => {
            let mut prev_jump = false;
            for c in l.bc.iter() {
                match c {
                    VCell::OpCode(op) => {
                        prev_jump = matches!(op, OpCode::Jmp | OpCode::Jnt);
                    }
                    operand => {
                        if !prev_jump {
                            push_edges(operand, work, deep);
                        }
                        prev_jump = false;
                    }
                }
            }
            for a in l.args.iter() {
                push_edges(a, work, deep);
            }
            for (sym, _) in l.envmap.get_map().iter() {
                push_edges(sym, work, deep);
            }
        }
        VCell::LexicalEnv(e) => {
            for i in 0..e.slot_len() {
                push_edges(&e.get(i), work, deep);
            }
        }
        VCell::Vector(vec) => {
            for i in 0..vec.len() {
                if let Some(x) = vec.get(i) {
                    push_edges(&x, work, deep);
                }
            }
        }
        VCell::Continuation(k) => {
            *has_cont = true;
            // only the slots a resumed computation can read: [0, sp]
            let ksp = k.stack().get_sp();
            for (i, c) in k.stack().iter().enumerate() {
                if i > ksp {
                    break;
                }
                push_edges(c, work, deep);
            }
            if k.ip().0 != usize::MAX {
                work.push(k.ip().0);
            }
            if k.ep() != usize::MAX {
                work.push(k.ep());
            }
        }
        _ => {}
    }
}

fn shallow_print(v: &VCell) -> u64 {
    // cheap, allocation-free summary: discriminant + scalar payload
    let (tag, a, b): (u64, u64, u64) = match v {
        VCell::Bool(x) => (1, *x as u64, 0),
        VCell::Char(c) => (2, *c as u64, 0),
        VCell::Nil => (3, 0, 0),
        VCell::Number(n) => (4, n.to_f64().map(|f| f.to_bits()).unwrap_or(7), 0),
        VCell::Pair(x, y) => (5, *x as u64, *y as u64),
        VCell::Symbol(s) => (6, s.len() as u64, s.as_ptr() as u64),
        VCell::String(s) => (7, s.borrow().len() as u64, 0),
        VCell::Vector(x) => (8, x.len() as u64, 0),
        VCell::Undefined => (9, 0, 0),
        VCell::Void => (10, 0, 0),
        VCell::Continuation(k) => (11, std::rc::Rc::as_ptr(k) as u64, 0),
        VCell::Closure(x, y) => (12, *x as u64, *y as u64),
        VCell::Lambda(l) => (13, std::rc::Rc::as_ptr(l) as u64, 0),
        VCell::LexicalEnv(e) => (14, e.slot_len() as u64, 0),
        VCell::LexicalEnvSlot(x) => (15, *x as u64, 0),
        VCell::LexicalEnvPtr(x, y) => (16, *x as u64, *y as u64),
        VCell::Macro(m) => (17, std::rc::Rc::as_ptr(m) as u64, 0),
        VCell::Ptr(p) => (18, *p as u64, 0),
        VCell::BuiltInProc(p) => (19, std::rc::Rc::as_ptr(p) as u64, 0),
        _ => (20, 0, 0),
    };
    tag.wrapping_mul(0x9E3779B97F4A7C15) ^ a.wrapping_mul(0xC2B2AE3D27D4EB4F) ^ b.rotate_left(17)
}

/// Cells reachable from acc, ep, ip, stack[0..=sp], global bindings and slots.
pub fn reachable(vm: &Vm) -> Reach {
    let heap = vm.verif_heap();
    let cells = heap.verif_cells();
    let n = cells.len();
    let mut reached = vec![false; n];
    let mut work: Vec<usize> = vec![];
    let mut deep: Vec<VCell> = vec![];
    let mut has_cont = false;
    // roots
    push_edges(vm.verif_acc(), &mut work, &mut deep);
    if vm.verif_ep() != usize::MAX {
        work.push(vm.verif_ep());
    }
    if vm.verif_ip().0 != usize::MAX {
        work.push(vm.verif_ip().0);
    }
    let stack = vm.verif_stack();
    let sp = stack.get_sp();
    for (i, c) in stack.iter().enumerate() {
        if i > sp {
            break;
        }
        push_edges(c, &mut work, &mut deep);
    }
    let genv = vm.verif_globenv();
    for (sym, _) in genv.verif_bindings().iter() {
        work.push(*sym);
    }
    for v in genv.iter_slots() {
        push_edges(v, &mut work, &mut deep);
    }
    let mut count = 0;
    loop {
        while let Some(c) = deep.pop() {
            scan_container(&c, &mut work, &mut deep, &mut has_cont);
        }
        match work.pop() {
            None => break,
            Some(p) => {
                if p >= n || reached[p] {
                    continue;
                }
                reached[p] = true;
                count += 1;
                push_edges(&cells[p], &mut work, &mut deep);
            }
        }
    }
    let prints = reached
        .iter()
        .enumerate()
        .map(|(i, r)| if *r { shallow_print(&cells[i]) } else { 0 })
        .collect();
    Reach { reached, count, prints, has_continuation: has_cont, sp }
}

/// Invariants that must hold immediately after a sweep, given the reachable
/// set computed just before the collection started. Returns (kind, detail).
pub fn check_after_sweep(vm: &Vm, before: &Reach) -> Vec<(&'static str, String)> {
    let mut out = vec![];
    let heap = vm.verif_heap();
    let cells = heap.verif_cells();
    let n = cells.len().min(before.reached.len());
    // I1: nothing reachable was reclaimed or changed
    for i in 0..n {
        if before.reached[i] {
            match heap.verif_state(i) {
                Some(State::Free) | None => {
                    out.push(("live-cell-freed", format!("cell {} was reachable before the collection and is free after it", i)));
                    break;
                }
                _ => {}
            }
            if shallow_print(&cells[i]) != before.prints[i] {
                out.push(("live-cell-changed", format!("reachable cell {} changed during the collection: now {:?}", i, cells[i])));
                break;
            }
        }
    }
    // I2: symbol table <-> allocated symbol cells
    let table = heap.verif_symbol_table();
    for (name, idx) in table.iter() {
        let ok = match cells.get(*idx) {
            Some(VCell::Symbol(s)) => s.as_str() == name.as_str(),
            _ => false,
        };
        if !ok || matches!(heap.verif_state(*idx), Some(State::Free) | None) {
            out.push(("symbol-table-dangling", format!("symbol table maps {:?} to cell {} which is not that (allocated) symbol", name, idx)));
            break;
        }
    }
    let mut sym_cells = 0usize;
    for (i, c) in cells.iter().enumerate() {
        if let VCell::Symbol(s) = c {
            if !matches!(heap.verif_state(i), Some(State::Free) | None) {
                sym_cells += 1;
                if table.get(s.as_str()) != Some(&i) {
                    out.push(("symbol-not-in-table", format!("allocated symbol cell {} ({:?}) is not the table's entry for its name", i, s)));
                    break;
                }
            }
        }
    }
    if sym_cells != table.len() && out.is_empty() {
        out.push(("symbol-table-size", format!("{} allocated symbol cells but {} table entries", sym_cells, table.len())));
    }
    // I3: free list
    let fl = heap.verif_free_list();
    let mut seen = vec![false; cells.len()];
    for f in fl {
        if *f >= cells.len() {
            out.push(("free-list-out-of-range", format!("free list entry {}", f)));
            break;
        }
        if seen[*f] {
            out.push(("free-list-duplicate", format!("cell {} is on the free list twice", f)));
            break;
        }
        seen[*f] = true;
        if !matches!(heap.verif_state(*f), Some(State::Free)) {
            out.push(("free-list-allocated-cell", format!("cell {} is on the free list but not in state Free", f)));
            break;
        }
    }
    let free_states = (0..cells.len()).filter(|i| matches!(heap.verif_state(*i), Some(State::Free))).count();
    if free_states != fl.len() && out.is_empty() {
        out.push(("free-list-incomplete", format!("{} cells in state Free but {} free-list entries", free_states, fl.len())));
    }
    // no cell may be left in the transient Used state
    if let Some(i) = (0..cells.len()).find(|i| matches!(heap.verif_state(*i), Some(State::Used))) {
        out.push(("mark-left-behind", format!("cell {} still marked Used after the sweep", i)));
    }
    out
}

/// C12: cells that are allocated after the sweep although unreachable before it.
pub fn unreachable_but_allocated(vm: &Vm, before: &Reach) -> Vec<usize> {
    let heap = vm.verif_heap();
    let n = heap.verif_cells().len().min(before.reached.len());
    (0..n)
        .filter(|i| !before.reached[*i] && !matches!(heap.verif_state(*i), Some(State::Free) | None))
        .collect()
}
