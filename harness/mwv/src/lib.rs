//! mwv as a library: the property modules and their machinery, so that the
//! cargo-fuzz targets (harness/fuzz) can call the same oracles as `./check`.
pub mod alloc;
pub mod ctx;
pub mod driver;
pub mod heapcheck;
pub mod props;
pub mod session;
pub mod sut;
