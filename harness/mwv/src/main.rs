
use mwv::ctx::{Ctx, Outcome, Tier};
use mwv::{alloc, driver, props, session, sut};

#[global_allocator]
static GLOBAL: alloc::Counting = alloc::Counting;
use serde_json::Value;
use std::collections::HashSet;

/// A corrupted or cyclic structure can make the SUT allocate without bound (conversion of a
/// cyclic value, runaway expansion): die with an allocation failure at 6 GiB instead of
/// taking the machine down. C19's children and C17's forked cases set their own limits.
fn limit_address_space() {
    let lim = libc::rlimit { rlim_cur: 6 << 30, rlim_max: 6 << 30 };
    unsafe {
        libc::setrlimit(libc::RLIMIT_AS, &lim);
    }
}

fn usage() -> ! {
    eprintln!("usage: mwv check <ID> <quick|thorough> | mwv replay <file> [--raw] | mwv list");
    std::process::exit(2)
}

fn main() {
    let args: Vec<String> = std::env::args().collect();
    if args.len() < 2 {
        usage();
    }
    let seed: u64 = std::env::var("VERIF_SEED")
        .ok()
        .and_then(|s| s.trim().parse::<i64>().ok())
        .map(|v| v as u64)
        .unwrap_or(0);
    match args[1].as_str() {
        "list" => {
            for p in props::all() {
                println!("{}", p.id());
            }
        }
        "check" => {
            if args.len() < 4 {
                usage();
            }
            let tier = match args[3].as_str() {
                "quick" => Tier::Quick,
                "thorough" => Tier::Thorough,
                _ => usage(),
            };
            std::process::exit(driver::check(&args[2], tier, seed));
        }
        "worker" => {
            // worker <ID> <tier> <seed> <shard> <nshards> <skip>
            sut::install_panic_hook();
            limit_address_space();
            let tier = if args[3] == "thorough" { Tier::Thorough } else { Tier::Quick };
            let seed: u64 = args[4].parse().unwrap_or(0);
            let shard: usize = args[5].parse().unwrap_or(0);
            let nshards: usize = args[6].parse().unwrap_or(1);
            let skip: HashSet<u64> = args
                .get(7)
                .map(|s| s.split(',').filter_map(|x| x.parse().ok()).collect())
                .unwrap_or_default();
            let prop = props::lookup(&args[2]).expect("unknown property");
            let ctx = Ctx::new(&args[2], tier, seed, shard, nshards, driver::load_known(), skip);
            ctx.fast_forward.set(args.get(8).and_then(|x| x.parse().ok()).unwrap_or(0));
            prop.run(&ctx);
            ctx.finish();
        }
        "replay" => {
            // replay <file> [--raw]: re-execute one recorded case, bypassing proptest.
            sut::install_panic_hook();
            limit_address_space();
            if args.len() < 3 {
                usage();
            }
            let raw = args.iter().any(|a| a == "--raw");
            let text = std::fs::read_to_string(&args[2]).expect("cannot read replay file");
            let rec: Value = serde_json::from_str(&text).expect("replay file is not JSON");
            let id = rec["property"].as_str().expect("replay file has no property").to_string();
            let prop = props::lookup(&id).expect("unknown property");
            let tier = if rec["tier"].as_str() == Some("thorough") { Tier::Thorough } else { Tier::Quick };
            let mut ctx = Ctx::new(&id, tier, rec["seed"].as_u64().unwrap_or(0), 0, 1, driver::load_known(), HashSet::new());
            ctx.strict = true;
            ctx.quiet = true;
            let kind = rec["kind"].as_str().unwrap_or("").to_string();
            let mut failed: Option<(String, String)> = None;
            // the SUT's compiler is nondeterministic (HashSet order): try up to 8 times
            for _ in 0..8 {
                match prop.replay(&ctx, &kind, &rec["payload"]) {
                    Outcome::Fail { sig, detail, .. } => {
                        failed = Some((sig, detail));
                        break;
                    }
                    _ => {}
                }
            }
            match failed {
                Some((sig, detail)) => {
                    if raw {
                        println!("REPLAY-FAIL sig={} :: {}", sig, detail);
                    } else {
                        let known = driver::load_known();
                        if let Some(f) = known.lookup(&id, &sig) {
                            println!("KNOWN-FINDING: property={} {} [sig={}]", id, f.text, f.sig);
                            println!("  {}", detail);
                            std::process::exit(0);
                        }
                        println!("VIOLATION property={} replay={}", id, args[2]);
                        println!("  sig={} :: {}", sig, detail);
                    }
                    std::process::exit(1);
                }
                None => {
                    println!("REPLAY-PASS property={}", id);
                }
            }
        }
        "c19child" => props::c19::child_main(args.get(2).map(|s| s.as_str()).unwrap_or("")),
        "run" => {
            // debug aid: evaluate the forms of a file, optionally sliced: mwv run file.scm [budget ...]
            sut::install_panic_hook();
            let text = std::fs::read_to_string(&args[2]).expect("cannot read file");
            let forms = mwv_core::sx::read_all(&text).expect("cannot parse");
            let budgets: Vec<usize> = args[3..].iter().filter_map(|x| x.parse().ok()).collect();
            let opts = session::RunOpts {
                mode: if budgets.is_empty() { session::EvalMode::Whole } else { session::EvalMode::Sliced(budgets) },
                ..Default::default()
            };
            let mut s = session::SutSession::new(opts);
            for f in &forms {
                let (r, o) = s.eval_form(f);
                println!("{} => {}  out={:?}", f.to_string().chars().take(60).collect::<String>(), r.short(), o.len());
                eprintln!("   sp={} heap={} instr={}", s.vm.verif_stack().get_sp(), s.vm.verif_heap().verif_cells().len(), s.vm.verif_instructions());
            }
        }
        "bench" => {
            let t = std::time::Instant::now();
            for _ in 0..200 {
                let _ = marwood::vm::Vm::new();
            }
            println!("Vm::new: {:?} each", t.elapsed() / 200);
            let t = std::time::Instant::now();
            for _ in 0..200 {
                let mut vm = marwood::vm::Vm::new();
                session::pollute(&mut vm);
            }
            println!("Vm::new + pollute: {:?} each", t.elapsed() / 200);
        }
        "pg" => {
            // debug aid: print the program a byte sequence decodes to
            let text = std::fs::read_to_string(&args[2]).expect("cannot read file");
            let rec: Value = serde_json::from_str(&text).expect("not JSON");
            let bytes = mwv_core::choice::unhex(rec["payload"]["bytes"].as_str().unwrap_or(""));
            let cfg = mwv_core::pg::Cfg { callcc: args.iter().any(|a| a == "--callcc"), ..Default::default() };
            let skip: usize = args.iter().position(|a| a == "--skip").and_then(|i| args.get(i + 1)).and_then(|x| x.parse().ok()).unwrap_or(0);
            let mut c = mwv_core::choice::Choices::new(&bytes);
            for _ in 0..skip {
                c.byte();
            }
            let s = mwv_core::pg::Gen::new(&mut c, cfg).session();
            for f in &s.forms {
                println!("{}", f);
            }
            eprintln!("features: {:?}", s.features);
        }
        _ => usage(),
    }
}
