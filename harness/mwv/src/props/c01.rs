//! C01 — evaluation agrees with the language semantics for core and derived forms.
//!
//! Generator: typed, scope-aware sessions (mwv-core::pg). Oracle: reference
//! interpreter (mwv-core::ri), form by form (value / failure / output order),
//! plus two metamorphic runs: a second fresh VM and a VM polluted with
//! unrelated definitions must give the same per-form outcomes.

use crate::ctx::{Ctx, Outcome, Tier};
use crate::props::Prop;
use crate::session::{compare, render_session, run_ri, run_sut, RunOpts};
use mwv_core::choice::unhex;
use mwv_core::pg::{gen_session, kf_features, Cfg};
use mwv_core::sx::{read_all, Sx};
use serde_json::{json, Value};

pub struct C01;

pub fn special_form_count(features: &std::collections::BTreeSet<&'static str>) -> usize {
    const FORMS: [&str; 22] = [
        "if", "let", "let*", "letrec", "named-let", "begin", "cond", "cond=>", "case", "case=>", "and",
        "or", "when", "unless", "delay-force", "quasiquote", "quasiquote-vector", "lambda", "eval",
        "apply", "internal-define", "set!-local",
    ];
    FORMS.iter().filter(|f| features.contains(**f)).count()
}

/// The deviation features (DESIGN.md section 5, C01 a-f) present in the program
/// text, in priority order; the first one names the signature.
pub fn kf_sig(prefix: &str, forms: &[Sx]) -> Option<String> {
    kf_features(forms).first().map(|f| format!("{}|kf:{}", prefix, f))
}

pub fn check_forms(ctx: &Ctx, forms: &[Sx], features: &std::collections::BTreeSet<&'static str>) -> Outcome {
    check_session(ctx, "C01", forms, features, &|st, features| {
        st.closure_calls > 0 && special_form_count(features) >= 2
    })
}

/// Shared by C01 and C05: reference differential in three VMs.
pub fn check_session(
    ctx: &Ctx,
    id: &str,
    forms: &[Sx],
    features: &std::collections::BTreeSet<&'static str>,
    nontrivial: &dyn Fn(&mwv_core::ri::RiStats, &std::collections::BTreeSet<&'static str>) -> bool,
) -> Outcome {
    let ri = run_ri(forms, 200_000);
    let render = json!({"program": render_session(forms)});
    if ri.comparable == 0 {
        ctx.discard(ri.cut.as_deref().map(|c| c.split(':').next().unwrap_or("cut")).unwrap_or("cut"));
        return Outcome::Discard;
    }
    let prefix = &forms[..ri.comparable.min(forms.len())];
    let mut runs = vec![
        ("fresh", RunOpts::default()),
        ("fresh2", RunOpts::default()),
        ("polluted", RunOpts { pollute: true, ..RunOpts::default() }),
    ];
    if id == "C05" {
        // continuations keep frames and environments alive that nothing else references: the
        // same session once more with collections forced at pseudo-random instructions (a
        // function of the program text) and after every form
        let state = mwv_core::choice::fnv(render_session(forms).as_bytes()) | 1;
        runs.push((
            "collected",
            RunOpts {
                schedule: marwood::vm::verif::GcSchedule::Random { state, num: 1, den: 11 },
                gc_between_forms: true,
                // a collection costs a sweep of the whole heap: a run that goes astray must not
                // spend two million instructions at that price (over budget = not compared)
                instr_budget: 60_000,
                ..RunOpts::default()
            },
        ));
    }
    let mut failure: Option<(String, String)> = None;
    let mut compared = 0;
    for (name, opts) in runs.iter() {
        let sut = run_sut(prefix, opts);
        match compare(&ri, &sut) {
            Ok(n) => compared = n,
            Err(m) => {
                let upto = &forms[..=m.form.min(forms.len() - 1)];
                let sig = kf_sig(id, upto).unwrap_or_else(|| format!("{}|{}", id, m.kind));
                failure = Some((
                    sig,
                    format!("{} VM, form #{} `{}`: {}", name, m.form, forms[m.form], m.detail),
                ));
                break;
            }
        }
    }
    if ctx.counting() {
        if ri.cut.is_some() {
            ctx.class(&format!("cut:{}", ri.cut.as_deref().unwrap_or("").split(':').next().unwrap_or("")));
        }
        for f in features.iter() {
            ctx.class(&format!("feature:{}", f));
        }
        ctx.class_n("forms-compared", compared as u64);
        if nontrivial(&ri.stats, features) {
            ctx.nontrivial_str(&render_session(prefix));
        }
        if ri.stats.apply_calls > 0 && ri.stats.vararg_calls > 0 {
            ctx.class("variadic-procedure-through-apply");
        }
        if ri.stats.cont_captures > 0 {
            ctx.class("ri:continuation-captured");
        }
        if ri.stats.cont_invocations > 0 {
            ctx.class("ri:continuation-invoked");
        }
        if ri.stats.cont_reentries > 0 {
            ctx.class("ri:continuation-re-entered");
        }
        if ri.stats.cont_cross_form > 0 {
            ctx.class("ri:continuation-invoked-from-later-form");
        }
        if ri.stats.cont_reentries_pending_operands > 0 {
            ctx.class("ri:re-entry-with-pending-operands");
        }
        ctx.sample(|| render.clone());
    }
    match failure {
        Some((sig, detail)) => Outcome::fail(sig, detail, render),
        None => Outcome::Pass,
    }
}

pub fn case(ctx: &Ctx, bytes: &[u8]) -> Outcome {
    let s = gen_session(bytes, &Cfg::default());
    check_forms(ctx, &s.forms, &s.features)
}

/// Activation histories: a maker procedure (formals (), (a), (a . r) or r; its state in internal
/// definitions, a `let`, or a parameter) whose instances are closures over that state; a random
/// interleaving of creating instances and operating on them, plus a recursive procedure that
/// reads one of its own internal definitions after the recursive call returned. Every activation
/// must have its own locations, whatever the shape of the formals.
fn activation_program(c: &mut mwv_core::choice::Choices) -> Vec<Sx> {
    let formals = c.below(4);
    let style = c.below(4);
    let (head, arg_n): (&str, usize) = match formals {
        0 => ("(mk)", 0),
        1 => ("(mk a)", 1),
        2 => ("(mk a . r)", 1 + c.below(2)),
        _ => ("(mk . r)", c.below(3)),
    };
    let init = match formals {
        0 => "0",
        1 | 2 => "a",
        _ => "(if (null? r) 0 (car r))",
    };
    let mut src = String::new();
    let dispatch = "(lambda (op) (cond ((eq? op 'inc) (bump! 1)) ((eq? op 'get) n) (else (set! n op) n)))";
    match style {
        0 => src.push_str(&format!("(define {} (define n {}) (define (bump! d) (set! n (+ n d)) n) {})", head, init, dispatch)),
        1 => src.push_str(&format!("(define {} (let ((n {})) (define (bump! d) (set! n (+ n d)) n) {}))", head, init, dispatch)),
        2 => src.push_str(&format!(
            "(define {} (define n {}) (define log '()) (define (bump! d) (set! log (cons n log)) (set! n (+ n d)) n) (lambda (op) (cond ((eq? op 'inc) (bump! 1)) ((eq? op 'get) (cons n log)) (else (set! n op) n))))",
            head, init
        )),
        _ => src.push_str(&format!(
            "(define {} (define n {}) (define bump! (lambda (d) (set! n (+ n d)) n)) (begin (define extra 100) {}))",
            head, init, dispatch
        )),
    }
    let mut made: Vec<String> = vec![];
    let nops = 4 + c.below(10);
    for i in 0..nops {
        let create = made.is_empty() || (made.len() < 4 && c.chance(70));
        if create {
            let args: Vec<String> = (0..arg_n).map(|_| (c.below(9) as i64 - 3).to_string()).collect();
            let nm = format!("i{}", made.len());
            src.push_str(&format!("(define {} (mk {}))", nm, args.join(" ")));
            made.push(nm);
        } else {
            let who = made[c.below(made.len())].clone();
            match c.below(4) {
                0 | 1 => src.push_str(&format!("({} 'inc)", who)),
                2 => src.push_str(&format!("({} 'get)", who)),
                _ => src.push_str(&format!("({} {})", who, 10 * (i as i64 + 1))),
            }
        }
    }
    for who in &made {
        src.push_str(&format!("({} 'get)", who));
    }
    // recursion: an internal definition read after the recursive activation returned
    let wf = c.below(3);
    let (whead, wcall) = match wf {
        0 => ("(walk)", "(walk)"),
        1 => ("(walk x)", "(walk (+ x 1))"),
        _ => ("(walk . r)", "(apply walk 1 r)"),
    };
    let k = 2 + c.below(4);
    src.push_str(&format!(
        "(define depth 0) (define {} (define mine depth) (set! depth (+ depth 1)) (if (< depth {}) {} 'bottom) (list mine depth))",
        whead, k, wcall
    ));
    src.push_str(match wf {
        0 => "(walk)",
        1 => "(walk 0)",
        _ => "(walk)",
    });
    read_all(&src).expect("activation template parses")
}

fn activation_case(ctx: &Ctx, bytes: &[u8]) -> Outcome {
    let mut c = mwv_core::choice::Choices::new(bytes);
    let forms = activation_program(&mut c);
    let mut feats = std::collections::BTreeSet::new();
    feats.insert("activation-history");
    check_session(ctx, "C01", &forms, &feats, &|st, _| st.closure_calls > 2)
}

/// Promises that are forced re-entrantly (R7RS 4.2.5 / 7.3: the value of the first completed
/// force is kept, whatever the outer, still running, force goes on to compute), forced repeatedly,
/// and chained through delay-force style nesting.
fn promise_program(c: &mut mwv_core::choice::Choices) -> Vec<Sx> {
    let n = 1 + c.below(5);
    let up = 1 + c.below(3);
    let mut src = String::new();
    match c.below(4) {
        0 => {
            // the outer force post-processes after the inner one completed
            src.push_str(&format!(
                "(define pc {n}) (define pp (delay (if (<= pc 0) pc (begin (set! pc (- pc 1)) (force pp) (set! pc (+ pc {up})) pc)))) pc (force pp) pc (force pp) pc",
                n = n,
                up = up
            ));
        }
        1 => {
            src.push_str(&format!(
                "(define px {n}) (define pcount 0) (define pp (delay (begin (set! pcount (+ pcount 1)) (if (> pcount px) pcount (force pp))))) (force pp) (begin (set! px {m}) (force pp)) pcount",
                n = n,
                m = n + up + 3
            ));
        }
        2 => {
            src.push_str(&format!(
                "(define pf (let ((first? #t) (seen '())) (delay (begin (set! seen (cons {n} seen)) (if first? (begin (set! first? #f) (cons 'outer (force pf))) (list 'second seen)))))) (force pf) (force pf)",
                n = n
            ));
        }
        _ => {
            // a promise whose value is another promise's value, both forced in either order
            src.push_str(&format!(
                "(define plog '()) (define pa (delay (begin (set! plog (cons 'a plog)) {n}))) (define pb (delay (begin (set! plog (cons 'b plog)) (+ (force pa) {up})))) {first} {second} (force pb) (force pa) plog",
                n = n,
                up = up,
                first = if c.flip() { "(force pa)" } else { "(force pb)" },
                second = if c.flip() { "(force pb)" } else { "(list (force pa) (force pb))" }
            ));
        }
    }
    read_all(&src).expect("promise template parses")
}

/// Nests of procedures in which variables of enclosing procedures are read through the various
/// spellings a reference can take (quasiquote element, dotted tail, vector, let initialiser,
/// nested thunk, cond clause): the scope skeletons of C02 with a random spelling.
fn scoped_reference_case(ctx: &Ctx, bytes: &[u8]) -> Outcome {
    use mwv_core::skeleton::{decode, Bounds, REF_STYLES};
    let mut c = mwv_core::choice::Choices::new(bytes);
    let b = Bounds { max_levels: 3, names: 2, modes: 5, actions: 4 };
    let mut sk = decode(&mut |n| c.below(n), &b);
    sk.ref_style = 1 + c.below(REF_STYLES.len() - 1);
    let forms = sk.program();
    let mut feats = std::collections::BTreeSet::new();
    feats.insert("enclosing-variable-read-through-quasiquote-let-or-thunk");
    check_session(ctx, "C01", &forms, &feats, &|_, _| true)
}

/// Redefinition of a global that holds a builtin procedure: code compiled before the
/// redefinition (a wrapper procedure, a stored lambda, the builtin passed as a value) must see the
/// new definition afterwards, whether it was made by define or by set!.
fn redefine_builtin_program(c: &mut mwv_core::choice::Choices) -> Vec<Sx> {
    // (name, a call with quoted/literal arguments only, replacement lambda)
    let (name, call, repl) = *c.pick(
        &[
            ("abs", "(abs -5)", "(lambda (x) (if (< x 0) 'negative 'non-negative))"),
            ("max", "(max 1 7 3)", "(lambda args 'my-max)"),
            ("zero?", "(zero? 0)", "(lambda (x) 'asked-zero)"),
            ("even?", "(even? 3)", "(lambda (x) x)"),
            ("vector-ref", "(vector-ref '#(a b c) 1)", "(lambda (v i) i)"),
            ("string-length", "(string-length \"four\")", "(lambda (s) s)"),
            ("not", "(not #f)", "(lambda (x) 'negated)"),
            ("car", "(car '(1 2 3))", "(lambda (p) 'my-car)"),
            ("cdr", "(cdr '(1 2 3))", "(lambda (p) '(9 8 7))"),
            ("symbol->string", "(symbol->string 'abc)", "(lambda (s) 'no-string)"),
            ("number->string", "(number->string 42)", "(lambda (n) n)"),
            ("remainder", "(remainder 17 5)", "(lambda (a b) (- a b))"),
        ][..],
    );
    let how = *c.pick(&["(define {n} {r})", "(set! {n} {r})", "(begin (define {n} {r}))"][..]);
    let redefinition = how.replace("{n}", name).replace("{r}", repl);
    let holder = *c.pick(
        &[
            "(define (w) {call})",
            "(define w (lambda () (if #t {call} 'never)))",
            "(define w (let ((f {n})) (lambda () (cons (f-applied) {call}))))",
            "(define (w) (let loop ((i 0) (acc '())) (if (< i 2) (loop (+ i 1) (cons {call} acc)) acc)))",
        ][..],
    );
    // the third shape also keeps the old procedure object in a closure: that one must stay old
    let args = &call[name.len() + 1..call.len() - 1];
    let holder = holder.replace("(f-applied)", &format!("(f{})", args)).replace("{call}", call).replace("{n}", name);
    let src = format!("{holder} (w) {call} {redefinition} (w) {call} (w)", holder = holder, call = call, redefinition = redefinition);
    read_all(&src).expect("redefinition template parses")
}

fn redefine_builtin_case(ctx: &Ctx, bytes: &[u8]) -> Outcome {
    let mut c = mwv_core::choice::Choices::new(bytes);
    let forms = redefine_builtin_program(&mut c);
    let mut feats = std::collections::BTreeSet::new();
    feats.insert("builtin-global-redefined-after-code-using-it-was-compiled");
    check_session(ctx, "C01", &forms, &feats, &|_, _| true)
}

fn promise_case(ctx: &Ctx, bytes: &[u8]) -> Outcome {
    let mut c = mwv_core::choice::Choices::new(bytes);
    let forms = promise_program(&mut c);
    let mut feats = std::collections::BTreeSet::new();
    feats.insert("promise-forced-re-entrantly-or-repeatedly");
    check_session(ctx, "C01", &forms, &feats, &|_, _| true)
}

impl Prop for C01 {
    fn id(&self) -> &'static str {
        "C01"
    }
    fn fuzz_stage(&self) -> Option<(&'static str, u64, usize)> {
        Some(("program", 20_000, 1536))
    }
    fn rule(&self) -> &'static str {
        "sessions of 1-8 top-level forms from the typed program generator (definitions, type-preserving redefinitions, global set!, expressions over all core and derived forms, apply/eval/higher-order use), each run in the reference interpreter and in three VMs (fresh, second fresh, polluted with unrelated definitions); plus activation histories (a maker procedure with formals (), (a), (a . r) or r whose instances close over internal definitions / let / parameter state, created and operated on in a random interleaving, and a recursive procedure that reads its own internal definition after the recursive call returned), promises forced re-entrantly and repeatedly, globals that hold builtin procedures redefined (define / set!) after code using them was compiled, and nests of procedures that read enclosing variables through quasiquote templates, let initialisers, thunks and cond clauses. Non-trivial: the reference run calls at least one user-defined procedure and the session uses >= 2 different special/derived forms; distinct by program text."
    }
    fn assumptions(&self) -> Vec<&'static str> {
        vec![
            "reference interpreter mwv-core::ri (written from R7RS, hygienic desugaring, unit-tested) is the oracle",
            "only left-to-right operand order is assumed; failure messages are never compared; unspecified values are wildcards",
            "programs never rebind standard names or keywords; known deviations are generated at probe rate only and matched by syntactic signature",
        ]
    }
    fn run(&self, ctx: &Ctx) {
        ctx.journal_bytes.set(true);
        let cases = ctx.tier.pick(1_500u32, 25_000u32);
        ctx.run_bytes("session", cases, 1536, case);
        let acts = ctx.tier.pick(60u32, 1_500u32);
        ctx.run_bytes("activation", acts, 48, activation_case);
        let refs = ctx.tier.pick(40u32, 1_500u32);
        ctx.run_bytes("scoped-reference", refs, 48, scoped_reference_case);
        let redefs = ctx.tier.pick(12u32, 200u32);
        ctx.run_bytes("redefine-builtin", redefs, 8, redefine_builtin_case);
        let proms = ctx.tier.pick(20u32, 300u32);
        ctx.run_bytes("promise", proms, 12, promise_case);
    }
    fn replay(&self, ctx: &Ctx, kind: &str, payload: &Value) -> Outcome {
        match kind {
            "program" => {
                let forms = match read_all(payload["program"].as_str().unwrap_or("")) {
                    Ok(f) => f,
                    Err(_) => return Outcome::Discard,
                };
                check_forms(ctx, &forms, &Default::default())
            }
            "activation" => activation_case(ctx, &unhex(payload["bytes"].as_str().unwrap_or(""))),
            "scoped-reference" => scoped_reference_case(ctx, &unhex(payload["bytes"].as_str().unwrap_or(""))),
            "redefine-builtin" => redefine_builtin_case(ctx, &unhex(payload["bytes"].as_str().unwrap_or(""))),
            "promise" => promise_case(ctx, &unhex(payload["bytes"].as_str().unwrap_or(""))),
            _ => case(ctx, &unhex(payload["bytes"].as_str().unwrap_or(""))),
        }
    }
    fn shards(&self, _tier: Tier) -> usize {
        16
    }
}
