//! C02 — lexical scoping: innermost binding wins, closures share mutable locations.
//!
//! Domain: scope skeletons (mwv-core::skeleton), enumerated exhaustively up to
//! a bound with an odometer over the decoder's decision tree, sampled randomly
//! beyond it, plus fixed families (closures created in loops, getter/setter
//! pairs, counters shared by two closures). Oracle: the reference
//! interpreter's environment model (one location per binding per activation);
//! the observable is the log of (tag . value) probes.

use crate::ctx::{Ctx, Outcome, Tier};
use crate::props::Prop;
use crate::session::{compare, render_session, run_ri, FormResult, RunOpts, SutRun, SutSession};
use mwv_core::choice::{unhex, Choices};
use mwv_core::skeleton::{decode, decode_styled, family_programs, Bounds, Odometer, Skeleton, REF_STYLES};
use mwv_core::sx::{read_all, Sx};
use serde_json::{json, Value};
use std::cell::RefCell;

pub struct C02;

thread_local! {
    static SHARED: RefCell<Option<(SutSession, usize)>> = const { RefCell::new(None) };
}

fn run_in(sess: &mut SutSession, forms: &[Sx]) -> SutRun {
    let mut results = vec![];
    let mut outputs = vec![];
    for f in forms {
        let (r, o) = sess.eval_form(f);
        let stop = matches!(r, FormResult::Panic(_) | FormResult::OverBudget | FormResult::Unreadable(_));
        results.push(r);
        outputs.push(o);
        if stop {
            break;
        }
    }
    SutRun { results, outputs, instructions: 0, collections: 0 }
}

/// Compare one program; a VM is reused for up to 100 programs (every program
/// (re)defines all the globals it uses); a mismatch is confirmed in a fresh VM.
fn check_program(forms: &[Sx], fresh_only: bool) -> Option<(String, String)> {
    let ri = run_ri(forms, 400_000);
    if ri.comparable < forms.len() {
        return Some(("C02|reference-undetermined".into(), format!("harness problem: reference stopped: {:?}", ri.cut)));
    }
    let first = if fresh_only {
        let mut s = SutSession::new(RunOpts::default());
        compare(&ri, &run_in(&mut s, forms))
    } else {
        SHARED.with(|sh| {
            let mut sh = sh.borrow_mut();
            let renew = match &*sh {
                Some((_, n)) => *n >= 100,
                None => true,
            };
            if renew {
                *sh = Some((SutSession::new(RunOpts::default()), 0));
            }
            let (sess, n) = sh.as_mut().unwrap();
            *n += 1;
            let r = compare(&ri, &run_in(sess, forms));
            if r.is_err() {
                *sh = None;
            }
            r
        })
    };
    match first {
        Ok(_) => None,
        Err(_) => {
            // confirm in a fresh VM (up to 3 times: the compiler's layout is nondeterministic)
            for _ in 0..3 {
                let mut s = SutSession::new(RunOpts::default());
                if let Err(m) = compare(&ri, &run_in(&mut s, forms)) {
                    return Some((
                        format!("C02|{}", m.kind),
                        format!("form #{} `{}`: {}", m.form, forms[m.form], m.detail),
                    ));
                }
            }
            Some(("C02|only-after-other-programs".into(), "differs from the reference only in a VM that ran other skeletons before".into()))
        }
    }
}

fn record(ctx: &Ctx, sk: &Skeleton) {
    if sk.has_shadowing() || sk.captured_assigned_after_capture() {
        ctx.nontrivial_str(&sk.id());
    }
    if sk.has_shadowing() {
        ctx.class("shadowing");
    }
    if sk.captured_assigned_after_capture() {
        ctx.class("captured-variable-assigned-after-capture");
    }
    ctx.class(&format!("levels:{}", sk.levels.len()));
    if sk.ref_style != 0 {
        ctx.class(&format!("reads-spelled:{}", REF_STYLES[sk.ref_style % REF_STYLES.len()]));
    }
}

fn random_case(ctx: &Ctx, bytes: &[u8]) -> Outcome {
    let mut c = Choices::new(bytes);
    let b = Bounds { max_levels: 4, names: 3, modes: 5, actions: 4 };
    let mut sk = decode(&mut |n| c.below(n), &b);
    // the spelling of the reads is drawn last (recorded cases keep their meaning)
    sk.ref_style = c.below(REF_STYLES.len());
    let forms = sk.program();
    record(ctx, &sk);
    ctx.sample(|| json!({"skeleton": sk.id(), "program": render_session(&forms)}));
    match check_program(&forms, false) {
        Some((sig, detail)) => Outcome::fail(sig, detail, json!({"skeleton": sk.id(), "program": render_session(&forms)})),
        None => Outcome::Pass,
    }
}

impl Prop for C02 {
    fn id(&self) -> &'static str {
        "C02"
    }
    fn rule(&self) -> &'static str {
        "scope skeletons: nests of procedures over names a b c, each level binding each name as parameter / internal define / let variable / rest parameter or leaving it free, with probe reads and set! writes before and after the creation of the inner closure, the closure called inside its creator, after it returned, and in a second activation. Per name and level an action (untouched / read / assigned before capture / assigned after capture). Exhaustive up to the bound (quick: <=2 levels x 2 names x 4 modes x 4 actions = 65,792 skeletons; thorough adds 5 modes, and 3 levels or 3 names with 3 modes x 2 actions), the same enumeration at a smaller bound for six other spellings of a read (quasiquote element / dotted tail / vector, let initialiser, nested thunk, cond clause); random samples beyond (4 levels x 3 names x 5 modes x 7 spellings), plus 8 fixed families (closures in loops, getter/setter, shared counters). Non-trivial: a name is bound at two levels (shadowing) or a captured variable is assigned after capture; distinct by skeleton id."
    }
    fn assumptions(&self) -> Vec<&'static str> {
        vec![
            "the reference interpreter's environment model (one location per binding per activation) defines the property",
            "one VM is reused for up to 100 skeletons; a mismatch must reproduce in a fresh VM to be reported under its own kind",
        ]
    }
    fn can_be_exhaustive(&self, _tier: Tier) -> bool {
        true
    }
    fn run(&self, ctx: &Ctx) {
        ctx.journal_bytes.set(true);
        // exhaustive parts: (levels, names, modes, actions)
        let parts: Vec<Bounds> = if ctx.tier == Tier::Quick {
            vec![Bounds { max_levels: 2, names: 2, modes: 4, actions: 4 }]
        } else {
            vec![
                Bounds { max_levels: 2, names: 2, modes: 5, actions: 4 },
                Bounds { max_levels: 3, names: 2, modes: 3, actions: 2 },
                Bounds { max_levels: 2, names: 3, modes: 3, actions: 2 },
            ]
        };
        ctx.extra(
            "exhaustive_bounds",
            json!(parts.iter().map(|b| format!("levels<={} names={} modes={} actions={}", b.max_levels, b.names, b.modes, b.actions)).collect::<Vec<_>>()),
        );
        let mut idx = 0usize;
        for b in &parts {
            let mut od = Odometer::new();
            loop {
                od.start();
                let sk = decode(&mut |n| od.choose(n), b);
                if idx % ctx.nshards == ctx.shard {
                    ctx.beat();
                    ctx.count(1);
                    record(ctx, &sk);
                    let forms = sk.program();
                    if idx % 3000 == ctx.shard {
                        ctx.sample(|| json!({"skeleton": sk.id(), "program": render_session(&forms)}));
                    }
                    if let Some((sig, detail)) = check_program(&forms, false) {
                        ctx.report("program", json!({"skeleton": sk.id(), "program": render_session(&forms)}), &sig, &detail);
                    }
                }
                idx += 1;
                if !od.next() {
                    break;
                }
            }
        }
        // the same enumeration with every other spelling of a read (quasiquote element, dotted
        // tail and vector, let initialiser, nested thunk, cond clause)
        let styled = if ctx.tier == Tier::Quick {
            Bounds { max_levels: 2, names: 2, modes: 3, actions: 2 }
        } else {
            Bounds { max_levels: 2, names: 2, modes: 4, actions: 4 }
        };
        {
            let mut od = Odometer::new();
            loop {
                od.start();
                // styles 1.. : choose among len-1 and shift
                let mut first = true;
                let sk = {
                    let mut ch = |n: usize| od.choose(n);
                    let mut sk = decode_styled(&mut |n| {
                        if first {
                            first = false;
                            ch(REF_STYLES.len() - 1)
                        } else {
                            ch(n)
                        }
                    }, &styled, REF_STYLES.len());
                    sk.ref_style += 1;
                    sk
                };
                if idx % ctx.nshards == ctx.shard {
                    ctx.beat();
                    ctx.count(1);
                    record(ctx, &sk);
                    let forms = sk.program();
                    if idx % 3000 == ctx.shard {
                        ctx.sample(|| json!({"skeleton": sk.id(), "program": render_session(&forms)}));
                    }
                    if let Some((sig, detail)) = check_program(&forms, false) {
                        ctx.report("program", json!({"skeleton": sk.id(), "program": render_session(&forms)}), &sig, &detail);
                    }
                }
                idx += 1;
                if !od.next() {
                    break;
                }
            }
        }
        ctx.extra_max("max_skeletons_enumerated", idx as u64);
        ctx.set_exhaustive(true);
        if ctx.shard == 0 {
            for (name, forms) in family_programs() {
                ctx.count(1);
                ctx.nontrivial_str(&name);
                ctx.class("family");
                if let Some((sig, detail)) = check_program(&forms, true) {
                    ctx.report("program", json!({"family": name, "program": render_session(&forms)}), &sig, &detail);
                }
            }
        }
        let cases = ctx.tier.pick(600u32, 12_000u32);
        ctx.run_bytes("random", cases, 64, random_case);
    }
    fn replay(&self, ctx: &Ctx, kind: &str, payload: &Value) -> Outcome {
        match kind {
            "random" => random_case(ctx, &unhex(payload["bytes"].as_str().unwrap_or(""))),
            _ => {
                let forms = match read_all(payload["program"].as_str().unwrap_or("")) {
                    Ok(f) => f,
                    Err(_) => return Outcome::Discard,
                };
                match check_program(&forms, true) {
                    Some((sig, detail)) => Outcome::fail(sig, detail, payload.clone()),
                    None => Outcome::Pass,
                }
            }
        }
    }
}
