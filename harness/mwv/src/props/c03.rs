//! C03 — garbage collection is unobservable and never reclaims a live object.
//!
//! Domain: programs of the C01/C02/C05 generators plus allocation-heavy
//! templates x collection schedules (none; every k-th instruction, k in 1..16;
//! pseudo-random boundaries p = 1/3 and 1/50; after every top-level form).
//! Forced collections go through the real `run_gc` (hook). Oracles:
//! (1) differential: values, failures and output with schedule S equal the run
//! without forced collections (and the reference interpreter's);
//! (2) invariants at every observed collection, computed by the harness' own
//! reachability traversal over raw VM state (heapcheck.rs).

use crate::ctx::{Ctx, Outcome, Tier};
use crate::heapcheck::{check_after_sweep, reachable, unreachable_but_allocated, Reach};
use crate::props::c13::no_probe_cfg;
use crate::props::Prop;
use crate::session::{compare, compare_runs, render_session, run_ri, FormResult, RunOpts, SutRun, SutSession};
use marwood::vm::verif::{GcPhase, GcSchedule};
use mwv_core::choice::{unhex, Choices};
use mwv_core::pg::Gen;
use mwv_core::skeleton::{decode, Bounds};
use mwv_core::sx::{read_all, Sx};
use serde_json::{json, Value};
use std::cell::RefCell;
use std::rc::Rc;

pub struct C03;

#[derive(Default)]
pub struct ObsState {
    pub before: Option<Reach>,
    pub collections: u64,
    pub checked: u64,
    pub failures: Vec<(&'static str, String)>,
    pub with_continuation: u64,
    pub with_deep_stack: u64,
    pub max_unreachable_retained: usize,
    pub retained_example: Option<String>,
    /// check invariants on every n-th collection (always on the first 64)
    pub every: u64,
}

pub fn install_observer(s: &mut SutSession, every: u64) -> Rc<RefCell<ObsState>> {
    let st = Rc::new(RefCell::new(ObsState { every: every.max(1), ..Default::default() }));
    let st2 = st.clone();
    s.vm.verif_set_gc_observer(Some(Box::new(move |vm, phase| {
        let mut o = st2.borrow_mut();
        match phase {
            GcPhase::BeforeMark => {
                o.collections += 1;
                if o.collections <= 64 || o.collections % o.every == 0 {
                    o.before = Some(reachable(vm));
                } else {
                    o.before = None;
                }
            }
            GcPhase::AfterSweep => {
                if let Some(before) = o.before.take() {
                    o.checked += 1;
                    if before.has_continuation {
                        o.with_continuation += 1;
                    }
                    if before.sp > 8 {
                        o.with_deep_stack += 1;
                    }
                    if o.failures.len() < 4 {
                        let f = check_after_sweep(vm, &before);
                        o.failures.extend(f);
                    }
                    let retained = unreachable_but_allocated(vm, &before);
                    if retained.len() > o.max_unreachable_retained {
                        o.max_unreachable_retained = retained.len();
                        let cells = vm.verif_heap().verif_cells();
                        o.retained_example = Some(format!("cell {}: {:?}", retained[0], cells[retained[0]]).chars().take(200).collect());
                    }
                }
            }
        }
    })));
    st
}

pub fn run_with_observer(forms: &[Sx], opts: &RunOpts, every: u64) -> (SutRun, Rc<RefCell<ObsState>>) {
    let mut s = SutSession::new(opts.clone());
    let obs = install_observer(&mut s, every);
    let mut results = vec![];
    let mut outputs = vec![];
    for f in forms {
        let (r, o) = s.eval_form(f);
        let stop = matches!(r, FormResult::Panic(_) | FormResult::OverBudget | FormResult::Unreadable(_));
        results.push(r);
        outputs.push(o);
        if stop {
            break;
        }
    }
    let run = SutRun { results, outputs, instructions: s.vm.verif_instructions(), collections: s.vm.verif_collections() };
    s.vm.verif_set_gc_observer(None);
    (run, obs)
}

pub fn decode_schedule(c: &mut Choices) -> (GcSchedule, String, u64) {
    match c.weighted(&[3, 6, 2, 2]) {
        0 => (GcSchedule::EveryK(1), "every-1".into(), 4),
        1 => {
            let k = 2 + c.below(15) as u64;
            (GcSchedule::EveryK(k), format!("every-{}", k), 1)
        }
        2 => (GcSchedule::Random { state: 0x9E3779B97F4A7C15 ^ c.u64(), num: 1, den: 3 }, "random-1/3".into(), 2),
        _ => (GcSchedule::Random { state: 0xD1B54A32D192ED03 ^ c.u64(), num: 1, den: 50 }, "random-1/50".into(), 1),
    }
}

/// Allocation-heavy templates with random parameters; each has a closed form or
/// is compared with the run without forced collections.
pub fn heavy_template(c: &mut Choices) -> (String, Vec<Sx>) {
    let n = 5 + c.below(60);
    let m = 2 + c.below(6);
    let t = c.below(12);
    let src = match t {
        0 => format!("(define (build n) (let loop ((i 0) (acc '())) (if (< i n) (loop (+ i 1) (cons (* i i) acc)) acc))) (define keep (build {n})) (define (sum l) (if (null? l) 0 (+ (car l) (sum (cdr l))))) (let loop ((j 0)) (if (< j {m}) (begin (build {n}) (loop (+ j 1))) (sum keep)))"),
        1 => format!("(define v (make-vector {n} 0)) (let loop ((i 0)) (if (< i {n}) (begin (vector-set! v i (list i (vector i i) (number->string i))) (loop (+ i 1))) #t)) (list (vector-ref v 0) (vector-ref v (- {n} 1)) (vector-length v))"),
        2 => format!("(define (adders n) (let loop ((i 0) (acc '())) (if (< i n) (loop (+ i 1) (cons (lambda (x) (+ x i)) acc)) acc))) (define fs (adders {n})) (map (lambda (f) (f 1)) fs)"),
        3 => format!("(define ks '()) (define count 0) (define r (+ 1 (call/cc (lambda (k) (set! ks (cons k ks)) 1)))) (set! count (+ count 1)) (if (< count {m}) ((car ks) count) (list r count (length ks)))"),
        4 => format!("(define (ev n) (let loop ((i 0) (acc 0)) (if (< i n) (loop (+ i 1) (+ acc (eval (list '+ i 1)))) acc))) (ev {n})"),
        5 => format!("(define (syms n) (let loop ((i 0) (acc '())) (if (< i n) (loop (+ i 1) (cons (string->symbol (string-append \"sym\" (number->string i))) acc)) acc))) (define a (syms {n})) (define b (syms {n})) (list (eq? (car a) (car b)) (eq? (car a) (cadr b)) (length a) (eq? (car a) (string->symbol (string-append \"sym\" (number->string (- {n} 1))))))"),
        6 => format!("(define (strs n) (let loop ((i 0) (acc \"\")) (if (< i n) (loop (+ i 1) (string-append acc (number->string i))) acc))) (string-length (strs {n}))"),
        7 => format!("(define acc '()) (for-each (lambda (i) (set! acc (cons (delay (* i i)) acc))) '(1 2 3 4 5 6 7 8)) (let loop ((j 0)) (if (< j {m}) (begin (map (lambda (p) (force p)) acc) (loop (+ j 1))) (map force acc)))"),
        8 => format!("(define (nest n) (if (= n 0) '() (list (nest (- n 1)) n))) (define x (nest {m})) (define y (nest {m})) (list (equal? x y) (eq? x y) x)"),
        10 => format!("(define (churn n) (let loop ((i 0)) (if (< i n) (begin (list i i) (loop (+ i 1))) 'ok))) (define (tag x) `(,x . the-end)) (define (label x) `(item ,x . \"tail\")) (define (vtag x) `(,x . #(1 v))) (churn {n}) (list (tag 1) (label 2) (vtag 3)) (churn {n}) (list (eq? (cdr (tag 4)) 'the-end) (cdr (label 5)) (cdr (vtag 6)))"),
        11 => format!("(define (mk) (lambda (x) (case x ((lit-a lit-b) 'first) ((17 #\\z) \"second\") (else '(else-branch #(deep \"constant\")))))) (define f (mk)) (define (churn n) (let loop ((i 0)) (if (< i n) (begin (vector i) (loop (+ i 1))) 'ok))) (churn {n}) (list (f 'lit-b) (f 17) (f #\\z) (f 0)) (churn {n}) (list (f 'lit-a) (f 1))"),
        _ => format!("(define big (* 4294967296 4294967296 4294967296)) (define (bigs n) (let loop ((i 0) (acc '())) (if (< i n) (loop (+ i 1) (cons (* big i) acc)) acc))) (define bl (bigs {n})) (list (length bl) (car bl) `(q ,(car bl) #(1 ,(cadr bl))))"),
    };
    (format!("heavy-{}", t), read_all(&src).expect("template parses"))
}

fn check(ctx: &Ctx, label: &str, forms: &[Sx], sched: GcSchedule, sched_label: &str, every: u64, between: bool, use_ri: bool) -> Outcome {
    let render = json!({"program": render_session(forms), "schedule": sched_label, "gc_between_forms": between, "family": label});
    let (forms, ri) = if use_ri {
        let ri = run_ri(forms, 200_000);
        if ri.comparable == 0 {
            ctx.discard("reference: nothing comparable");
            return Outcome::Discard;
        }
        (&forms[..ri.comparable.min(forms.len())], Some(ri))
    } else {
        (forms, None)
    };
    // cap the cost of a collection per instruction
    let budget = if label.starts_with("grown-heap") {
        8_000_000
    } else if matches!(sched, GcSchedule::EveryK(1)) {
        20_000
    } else {
        200_000
    };
    let base = crate::session::run_sut(forms, &RunOpts { instr_budget: budget, ..RunOpts::default() });
    if base.results.iter().any(|r| matches!(r, FormResult::OverBudget | FormResult::Panic(_))) {
        ctx.discard("baseline over budget or panicked");
        return Outcome::Discard;
    }
    let opts = RunOpts { schedule: sched, gc_between_forms: between, instr_budget: budget + 1000, ..RunOpts::default() };
    let (run, obs) = run_with_observer(forms, &opts, every);
    let o = obs.borrow();
    let mut fail: Option<(String, String)> = None;
    if let Some((kind, detail)) = o.failures.first() {
        fail = Some((format!("C03|invariant|{}", kind), detail.clone()));
    }
    if fail.is_none() {
        if let Err(m) = compare_runs(&base, &run) {
            fail = Some((
                format!("C03|differs-from-run-without-collections|{}", m.kind),
                format!("form #{} `{}` under schedule {}: {}", m.form, forms[m.form], sched_label, m.detail),
            ));
        }
    }
    if fail.is_none() {
        if let Some(ri) = &ri {
            if let Err(m) = compare(ri, &run) {
                fail = Some((
                    format!("C03|differs-from-reference|{}", m.kind),
                    format!("form #{} `{}` under schedule {}: {}", m.form, forms[m.form], sched_label, m.detail),
                ));
            }
        }
    }
    if ctx.counting() {
        ctx.class(&format!("family:{}", label.split('-').next().unwrap_or(label)));
        ctx.class(&format!("schedule:{}", sched_label.split('-').next().unwrap_or("")));
        ctx.class_n("collections", o.collections);
        ctx.class_n("collections-with-invariants-checked", o.checked);
        ctx.class_n("collections-while-continuation-reachable", o.with_continuation);
        ctx.class_n("collections-with-stack-above-entry-frame", o.with_deep_stack);
        ctx.extra_max("max_unreachable_cells_retained_by_a_collection", o.max_unreachable_retained as u64);
        if o.checked > 0 && (o.with_continuation > 0 || o.with_deep_stack > 0) {
            ctx.nontrivial_str(&format!("{}|{}|{}", render_session(forms), sched_label, between));
        }
        ctx.sample(|| render.clone());
    }
    match fail {
        Some((sig, detail)) => Outcome::fail(sig, detail, render),
        None => Outcome::Pass,
    }
}

/// A live structure several times the size of the first heap chunk (the heap has to grow while it
/// is built and it spans the chunks), then garbage churn with collections every few thousand
/// instructions and after every form, then the structure is read again.
fn grown_heap_program(c: &mut Choices) -> (Vec<Sx>, GcSchedule, String) {
    let n = *c.pick(&[2500usize, 5000, 9000][..]);
    let (element, first) = *c.pick(
        &[
            ("(cons i (* i 2))", "(car (car l))"),
            ("(vector i (list i) \"record\")", "(vector-ref (car l) 0)"),
            ("(list i (string->symbol (string-append \"c03-big-\" (number->string (remainder i 97)))) (lambda () i))", "((car (cdr (cdr (car l)))))"),
        ][..],
    );
    let k = *c.pick(&[2003u64, 4099, 9973][..]);
    let churn = *c.pick(&[8000usize, 20000][..]);
    let src = format!(
        "(define (c03-mk n) (let loop ((i 0) (acc '())) (if (< i n) (loop (+ i 1) (cons {element} acc)) acc))) \
         (define c03-big (c03-mk {n})) \
         (define (c03-sum l acc) (if (null? l) acc (c03-sum (cdr l) (+ acc {first})))) \
         (define (c03-churn n) (let loop ((i 0)) (if (< i n) (begin (vector i (list i i)) (loop (+ i 1))) 'ok))) \
         (c03-sum c03-big 0) (c03-churn {churn}) (c03-sum c03-big 0) \
         (define c03-big2 (c03-mk {half})) (c03-churn {churn}) \
         (list (length c03-big) (c03-sum c03-big 0) (c03-sum c03-big2 0))",
        element = element,
        first = first,
        n = n,
        half = n / 2,
        churn = churn
    );
    (read_all(&src).expect("grown-heap template parses"), GcSchedule::EveryK(k), format!("every-{}", k))
}

fn grown_heap_case(ctx: &Ctx, bytes: &[u8]) -> Outcome {
    let mut c = Choices::new(bytes);
    let (forms, sched, label) = grown_heap_program(&mut c);
    check(ctx, "grown-heap", &forms, sched, &label, 1, true, false)
}

fn case(ctx: &Ctx, bytes: &[u8]) -> Outcome {
    let mut c = Choices::new(bytes);
    let (sched, label, every) = decode_schedule(&mut c);
    let between = c.chance(100);
    match c.weighted(&[6, 2, 3]) {
        0 => {
            let sess = {
                let mut g = Gen::new(&mut c, no_probe_cfg());
                g.session()
            };
            check(ctx, "generated-session", &sess.forms, sched, &label, every, between, true)
        }
        1 => {
            let sk = decode(&mut |n| c.below(n), &Bounds { max_levels: 3, names: 2, modes: 5, actions: 4 });
            check(ctx, "scope-skeleton", &sk.program(), sched, &label, every, between, true)
        }
        _ => {
            let (name, forms) = heavy_template(&mut c);
            check(ctx, &name, &forms, sched, &label, every, between, false)
        }
    }
}

impl Prop for C03 {
    fn id(&self) -> &'static str {
        "C03"
    }
    fn rule(&self) -> &'static str {
        "programs (generated sessions with call/cc, scope skeletons, 12 allocation-heavy templates with random sizes) x one collection schedule (every instruction; every k-th, k in 2..16; random p=1/3; random p=1/50; optionally also after every top-level form). Each is run without forced collections and with the schedule; results/output are compared with each other and with the reference interpreter, and at every observed collection the harness' own reachability set is checked against the heap after the sweep (nothing reachable freed or changed, symbol table = allocated symbols, free list consistent). Plus grown-heap scenarios: a live list of 2500-9000 records built while the heap grows past its first chunk, garbage churn with a collection every 2003/4099/9973 instructions and after every form, the structure read again. Non-trivial: at least one checked collection happened while a continuation was reachable or the stack was above the entry frame; distinct by (program, schedule)."
    }
    fn assumptions(&self) -> Vec<&'static str> {
        vec![
            "forced collections go through the real run_gc via the verif hook (pretend-full flag); the hook adds no collector logic",
            "reachability is the harness' own traversal over raw state; JMP/JNT operands are offsets, not references",
            "with a collection at every instruction, invariants are checked on the first 64 collections and every 4th afterwards; the differential oracle always applies",
        ]
    }
    fn run(&self, ctx: &Ctx) {
        ctx.journal_bytes.set(true);
        let cases = ctx.tier.pick(320u32, 8_000u32);
        ctx.run_bytes("program", cases, 1536, case);
        let grown = ctx.tier.pick(2u32, 12u32);
        ctx.run_bytes("grown-heap", grown, 8, grown_heap_case);
    }
    fn replay(&self, ctx: &Ctx, kind: &str, payload: &Value) -> Outcome {
        if kind == "grown-heap" {
            return grown_heap_case(ctx, &unhex(payload["bytes"].as_str().unwrap_or("")));
        }
        if let Some(p) = payload["program"].as_str() {
            // hand-written reproducer: program text + schedule label
            let forms = match read_all(p) {
                Ok(f) => f,
                Err(_) => return Outcome::Discard,
            };
            let label = payload["schedule"].as_str().unwrap_or("every-1").to_string();
            let sched = match label.as_str() {
                "random-1/3" => GcSchedule::Random { state: 0x9E3779B97F4A7C15, num: 1, den: 3 },
                "random-1/50" => GcSchedule::Random { state: 0xD1B54A32D192ED03, num: 1, den: 50 },
                l => GcSchedule::EveryK(l.trim_start_matches("every-").parse().unwrap_or(1)),
            };
            return check(ctx, "replay", &forms, sched, &label, 1, payload["gc_between_forms"].as_bool().unwrap_or(false), false);
        }
        case(ctx, &unhex(payload["bytes"].as_str().unwrap_or("")))
    }
    fn shards(&self, _tier: Tier) -> usize {
        16
    }
}
