//! C04 — calls in tail position run in constant stack space.
//!
//! Domain: loops of 1-3 (mutually) recursive procedures whose recursive call
//! sits in a composition (depth 1-3) of tail contexts; caller/callee arities
//! 0..4 with and without rest parameters; n in {10, 10^3, 10^5}.
//! Oracle: stack high-water mark (verif hook) hw(10^3) <= hw(10) + 16 and
//! hw(10^5) <= hw(10) + 16 slots; the value equals the closed form computed by
//! the harness and the value of the non-tail twin (call wrapped in
//! (car (list ...))) at n <= 10^3.

use crate::ctx::{Ctx, Outcome, Tier};
use crate::props::Prop;
use crate::session::{FormResult, RunOpts, SutSession};
use mwv_core::choice::{unhex, Choices};
use mwv_core::sx::{read, Sx};
use serde_json::{json, Value};
use std::cell::RefCell;

pub struct C04;

pub const CONTEXTS: [(&str, &str); 32] = [
    ("body-last", "@"),
    ("if-consequent", "(if #t @ 'no)"),
    ("if-alternate", "(if #f 'no @)"),
    ("cond-clause", "(cond (#f 'no) ((= 1 1) @))"),
    ("cond-else", "(cond (#f 'no) (else @))"),
    ("cond-arrow", "(cond ((+ 1 1) => (lambda (c04-t) @)) (else 'no))"),
    ("case-clause", "(case 2 ((1) 'no) ((2 3) @) (else 'no))"),
    ("case-else", "(case 9 ((1) 'no) (else @))"),
    ("case-arrow", "(case 2 ((2) => (lambda (c04-t) @)) (else 'no))"),
    ("and-last", "(and #t 1 @)"),
    ("or-last", "(or #f #f @)"),
    ("when", "(when #t 1 @)"),
    ("unless", "(unless #f 1 @)"),
    ("let", "(let ((c04-x 1) (c04-y 2)) @)"),
    ("let*", "(let* ((c04-x 1) (c04-y c04-x)) @)"),
    ("letrec", "(letrec ((c04-f (lambda () 1))) @)"),
    ("named-let", "(let c04-lp ((c04-x 1)) @)"),
    ("begin", "(begin 1 2 @)"),
    ("lambda-literal", "((lambda (c04-x) @) 1)"),
    ("lambda-literal-rest", "((lambda c04-x @) 1 2)"),
    ("call/cc-receiver", "(call/cc (lambda (c04-k) @))"),
    ("let-body-with-define", "(let () (define c04-d 1) @)"),
    ("nested-if-in-begin", "(begin (if #f #f) (if (= 1 1) @ 'no))"),
    ("apply", "APPLY"),
    ("eval", "EVAL"),
    ("apply-leading", "APPLY2"),
    // the tail call sits in a tail context *inside* the evaluated datum
    ("eval-of-begin", "EVAL-BEGIN"),
    ("eval-of-single-begin", "EVAL-BEGIN1"),
    ("eval-of-if", "EVAL-IF"),
    ("eval-of-let", "EVAL-LET"),
    ("eval-of-eval", "EVAL-EVAL"),
    ("cond-test-only-then-else", "(cond (#f) (else @))"),
];

#[derive(Clone, Debug)]
pub struct LoopSpec {
    /// per procedure: (arity, has_rest)
    pub procs: Vec<(usize, bool)>,
    /// context indices, outermost first, per procedure
    pub ctxs: Vec<Vec<usize>>,
}

impl LoopSpec {
    pub fn id(&self) -> String {
        format!(
            "{}|{}",
            self.procs.iter().map(|(a, r)| format!("{}{}", a, if *r { "+rest" } else { "" })).collect::<Vec<_>>().join(","),
            self.ctxs
                .iter()
                .map(|c| c.iter().map(|i| CONTEXTS[*i].0).collect::<Vec<_>>().join(">"))
                .collect::<Vec<_>>()
                .join(" / ")
        )
    }

    fn call_text(&self, callee: usize, form: &str) -> String {
        let (arity, rest) = self.procs[callee];
        let mut args: Vec<String> = (0..arity).map(|i| format!("{}", i + 1)).collect();
        if rest {
            args.push("7".into());
            args.push("8".into());
        }
        let name = format!("c04-p{}", callee);
        match form {
            "APPLY" => format!("(apply {} (list {}))", name, args.join(" ")),
            "APPLY2" => {
                if args.is_empty() {
                    format!("(apply {} '())", name)
                } else {
                    format!("(apply {} {} (list {}))", name, args[0], args[1..].join(" "))
                }
            }
            "EVAL" => format!("(eval '({} {}))", name, args.join(" ")),
            "EVAL-BEGIN" => format!("(eval '(begin 1 2 ({} {})))", name, args.join(" ")),
            "EVAL-BEGIN1" => format!("(eval '(begin ({} {})))", name, args.join(" ")),
            "EVAL-IF" => format!("(eval '(if (= 1 1) ({} {}) 'no))", name, args.join(" ")),
            "EVAL-LET" => format!("(eval '(let ((c04-x 1)) ({} {})))", name, args.join(" ")),
            "EVAL-EVAL" => format!("(eval '(eval '({} {})))", name, args.join(" ")),
            _ => format!("({} {})", name, args.join(" ")),
        }
    }

    /// definitions of the loop; `tail` = false builds the non-tail twin
    pub fn program(&self, tail: bool) -> Vec<Sx> {
        let m = self.procs.len();
        let mut forms = vec![read("(define c04-n 0)").unwrap(), read("(define c04-acc 0)").unwrap()];
        for i in 0..m {
            let (arity, rest) = self.procs[i];
            let next = (i + 1) % m;
            // innermost call form may itself be apply/eval
            let mut call_form = "";
            let mut wrappers: Vec<&str> = vec![];
            for ci in &self.ctxs[i] {
                let t = CONTEXTS[*ci].1;
                if t == "APPLY" || t == "APPLY2" || t.starts_with("EVAL") {
                    call_form = t;
                } else {
                    wrappers.push(t);
                }
            }
            let mut expr = self.call_text(next, call_form);
            if !tail {
                expr = format!("(car (list {}))", expr);
            }
            for w in wrappers.iter().rev() {
                expr = w.replace('@', &expr);
            }
            let params: Vec<String> = (0..arity).map(|k| format!("c04-a{}", k)).collect();
            let head = if rest {
                format!("(c04-p{} {} . c04-r)", i, params.join(" "))
            } else {
                format!("(c04-p{} {})", i, params.join(" "))
            };
            // every activation adds its own index and everything it was passed: a tail call that
            // hands over the wrong arguments (or disturbs its caller's) changes the value
            let mut terms: Vec<String> = params.clone();
            if rest {
                terms.push("(length c04-r)".into());
                terms.push("(apply + c04-r)".into());
            }
            let src = format!(
                "(define {} (set! c04-n (- c04-n 1)) (set! c04-acc (+ c04-acc {} {})) (if (<= c04-n 0) c04-acc {}))",
                head,
                i + 1,
                terms.join(" "),
                expr
            );
            forms.push(read(&src).unwrap_or_else(|e| panic!("c04 template does not parse: {} in {}", e, src)));
        }
        forms
    }

    pub fn expected(&self, n: u64) -> u64 {
        let m = self.procs.len() as u64;
        let mut acc = 0u64;
        // iteration j (0-based) runs procedure j mod m and adds (j mod m)+1; stops when n reaches 0
        // ... plus the arguments it was passed: 1..arity, and (7 8) as rest (length 2, sum 15)
        let weight = |i: u64| -> u64 {
            let (arity, rest) = self.procs[i as usize];
            let a = arity as u64;
            (i + 1) + a * (a + 1) / 2 + if rest { 17 } else { 0 }
        };
        let full = n / m;
        let rem = n % m;
        let per_cycle: u64 = (0..m).map(weight).sum();
        acc += full * per_cycle;
        acc += (0..rem).map(weight).sum::<u64>();
        acc
    }

    pub fn start(&self, n: u64) -> Vec<Sx> {
        vec![
            read(&format!("(set! c04-n {})", n)).unwrap(),
            read("(set! c04-acc 0)").unwrap(),
            read(&self.call_text(0, "")).unwrap(),
        ]
    }
}

thread_local! {
    static SHARED: RefCell<Option<(SutSession, usize)>> = const { RefCell::new(None) };
}

fn with_vm<T>(f: impl FnOnce(&mut SutSession) -> T) -> T {
    SHARED.with(|sh| {
        let mut sh = sh.borrow_mut();
        let renew = match &*sh {
            Some((_, n)) => *n >= 40,
            None => true,
        };
        if renew {
            *sh = Some((SutSession::new(RunOpts { instr_budget: 60_000_000, ..RunOpts::default() }), 0));
        }
        let (s, n) = sh.as_mut().unwrap();
        *n += 1;
        f(s)
    })
}

/// run the loop with n iterations; returns (value, stack high-water above the start sp)
fn run_loop(s: &mut SutSession, spec: &LoopSpec, tail: bool, n: u64) -> Result<(Sx, usize), String> {
    for f in spec.program(tail) {
        match s.eval_form(&f).0 {
            FormResult::Value(_) => {}
            other => return Err(format!("definition `{}` did not evaluate: {}", f, other.short())),
        }
    }
    let start = spec.start(n);
    for f in &start[..2] {
        s.eval_form(f);
    }
    s.vm.verif_reset_counters();
    let sp0 = s.vm.verif_stack().get_sp();
    match s.eval_form(&start[2]).0 {
        FormResult::Value(v) => Ok((v, s.vm.verif_sp_high_water().saturating_sub(sp0))),
        other => Err(format!("loop of {} iterations did not complete: {}", n, other.short())),
    }
}

fn check(ctx: &Ctx, spec: &LoopSpec, big: bool) -> Outcome {
    let render = json!({"loop": spec.id(), "program": spec.program(true).iter().map(|f| f.to_string()).collect::<Vec<_>>()});
    let ctxname = spec.ctxs[0].iter().map(|i| CONTEXTS[*i].0).collect::<Vec<_>>().join(">");
    let r = with_vm(|s| -> Result<(), (String, String)> {
        let (v10, hw10) = run_loop(s, spec, true, 10).map_err(|e| (format!("C04|did-not-complete|{}", ctxname), e))?;
        let (v1k, hw1k) = run_loop(s, spec, true, 1000).map_err(|e| (format!("C04|did-not-complete|{}", ctxname), e))?;
        for (n, v) in [(10u64, &v10), (1000u64, &v1k)] {
            let e = Sx::int(spec.expected(n) as i64);
            if !e.matches(v) {
                return Err((format!("C04|wrong-value|{}", ctxname), format!("n={}: expected {} got {}", n, e, v)));
            }
        }
        if hw1k > hw10 + 16 {
            return Err((
                format!("C04|stack-grows|{}", ctxname),
                format!("stack high-water {} slots at n=10 but {} at n=1000 (tail calls must not grow the stack)", hw10, hw1k),
            ));
        }
        // non-tail twin: same value
        let (t1k, thw) = run_loop(s, spec, false, 1000).map_err(|e| (format!("C04|twin-did-not-complete|{}", ctxname), e))?;
        if !t1k.matches(&v1k) {
            return Err((format!("C04|twin-differs|{}", ctxname), format!("tail loop {} vs non-tail twin {}", v1k, t1k)));
        }
        if ctx.counting() {
            ctx.class_n("twin-stack-high-water-sum", thw as u64);
            ctx.extra_max("max_tail_loop_high_water_n1000", hw1k as u64);
        }
        if big {
            let (v, hw) = run_loop(s, spec, true, 100_000).map_err(|e| (format!("C04|did-not-complete|{}", ctxname), e))?;
            let e = Sx::int(spec.expected(100_000) as i64);
            if !e.matches(&v) {
                return Err((format!("C04|wrong-value|{}", ctxname), format!("n=100000: expected {} got {}", e, v)));
            }
            if hw > hw10 + 16 {
                return Err((format!("C04|stack-grows|{}", ctxname), format!("stack high-water {} at n=10 but {} at n=100000", hw10, hw)));
            }
        }
        Ok(())
    });
    if ctx.counting() {
        for c in &spec.ctxs {
            for i in c {
                ctx.class(&format!("ctx:{}", CONTEXTS[*i].0));
            }
        }
        ctx.class(&format!("procedures:{}", spec.procs.len()));
        if big {
            ctx.class("n=100000");
        }
        if spec.ctxs.iter().any(|c| c.iter().any(|i| !matches!(CONTEXTS[*i].0, "body-last" | "if-consequent" | "if-alternate"))) {
            ctx.nontrivial_str(&format!("{}|{}", spec.id(), big));
        }
        ctx.sample(|| render.clone());
    }
    match r {
        Ok(()) => Outcome::Pass,
        Err((sig, detail)) => {
            SHARED.with(|sh| *sh.borrow_mut() = None);
            Outcome::fail(sig, format!("{}: {}", spec.id(), detail), render)
        }
    }
}

fn random_case(ctx: &Ctx, bytes: &[u8]) -> Outcome {
    let mut c = Choices::new(bytes);
    let m = 1 + c.below(3);
    let mut procs = vec![];
    let mut ctxs = vec![];
    for _ in 0..m {
        procs.push((c.below(5), c.chance(80)));
        let depth = 1 + c.below(3);
        ctxs.push((0..depth).map(|_| c.below(CONTEXTS.len())).collect());
    }
    let big = c.chance(10);
    check(ctx, &LoopSpec { procs, ctxs }, big)
}

impl Prop for C04 {
    fn id(&self) -> &'static str {
        "C04"
    }
    fn rule(&self) -> &'static str {
        "grid: every single tail context (32: body-last, if arms, cond clause/else/=>, case clause/else/=>, and/or last operand, when, unless, let, let*, letrec, named let, begin, lambda literal, call/cc receiver, apply, eval, eval of a begin / if / let / eval whose tail position holds the call, ...) x caller arity 0..4 x callee arity 0..4 x rest flags, self recursion and 2-procedure mutual recursion, at n=10 and n=10^3 (a sample also at 10^5); random compositions of depth 1-3 over 1-3 procedures. Stack high-water (hook) at 10^3/10^5 must be within 16 slots of n=10; value (each activation adds its index and all the arguments it received) = closed form = non-tail twin. Non-trivial: a context other than plain if/body-last; distinct by loop id."
    }
    fn assumptions(&self) -> Vec<&'static str> {
        vec![
            "stack high-water is the hook's maximum of sp over pushes and instruction boundaries; a missing tail call costs >= 4 slots per iteration (>= 4000 at n=10^3), the margin is 16",
            "only the tail contexts R7RS 3.5 lists and the statement names are claimed",
        ]
    }
    fn run(&self, ctx: &Ctx) {
        ctx.journal_bytes.set(true);
        // grid
        let mut idx = 0usize;
        let nctx = CONTEXTS.len();
        let arities: Vec<usize> = (0..5).collect();
        let quick = ctx.tier == Tier::Quick;
        for ci in 0..nctx {
            for &ca in &arities {
                for &cb in &arities {
                    for flags in 0..4u8 {
                        for mutual in [false, true] {
                            // quick: thin the grid deterministically (every 3rd cell)
                            idx += 1;
                            if idx % ctx.nshards != ctx.shard {
                                continue;
                            }
                            ctx.beat();
                            let spec = if mutual {
                                LoopSpec { procs: vec![(ca, flags & 1 != 0), (cb, flags & 2 != 0)], ctxs: vec![vec![ci], vec![0]] }
                            } else {
                                if ca != cb || (flags & 1 != 0) != (flags & 2 != 0) {
                                    continue; // self recursion has one arity
                                }
                                LoopSpec { procs: vec![(ca, flags & 1 != 0)], ctxs: vec![vec![ci]] }
                            };
                            ctx.count(1);
                            let big = idx % (if quick { 61 } else { 7 }) == 0;
                            if let Outcome::Fail { sig, detail, render } = check(ctx, &spec, big) {
                                ctx.report("loop", json!({"spec": {"procs": spec.procs, "ctxs": spec.ctxs}, "big": big, "render": render}), &sig, &detail);
                            }
                        }
                    }
                }
            }
        }
        let cases = ctx.tier.pick(40u32, 1_500u32);
        ctx.run_bytes("random", cases, 48, random_case);
    }
    fn replay(&self, ctx: &Ctx, kind: &str, payload: &Value) -> Outcome {
        match kind {
            "loop" => {
                let procs: Vec<(usize, bool)> = payload["spec"]["procs"]
                    .as_array()
                    .map(|a| a.iter().map(|p| (p[0].as_u64().unwrap_or(0) as usize, p[1].as_bool().unwrap_or(false))).collect())
                    .unwrap_or_default();
                let ctxs: Vec<Vec<usize>> = payload["spec"]["ctxs"]
                    .as_array()
                    .map(|a| a.iter().map(|c| c.as_array().map(|x| x.iter().map(|i| i.as_u64().unwrap_or(0) as usize).collect()).unwrap_or_default()).collect())
                    .unwrap_or_default();
                if procs.is_empty() || procs.len() != ctxs.len() {
                    return Outcome::Discard;
                }
                check(ctx, &LoopSpec { procs, ctxs }, payload["big"].as_bool().unwrap_or(false))
            }
            _ => random_case(ctx, &unhex(payload["bytes"].as_str().unwrap_or(""))),
        }
    }
    fn case_timeout_s(&self) -> u64 {
        300
    }
}
