//! C05 — first-class continuations: escape, re-entry and cross-evaluation invocation.
//!
//! Generator: the C01 program generator with call/cc productions switched on:
//! call/cc at operand, tail and nested positions (it is an ordinary typed
//! expression production); the receiver may escape through k, return normally,
//! or store k in a global holder; stored continuations are re-entered 0-3
//! times (counter-guarded) from the same form, from inside procedures, loops
//! and for-each callbacks, and from later top-level forms.
//! Oracle: reference interpreter with persistent multi-shot continuations
//! whose bottom frame is "finish the top-level form" (REPL semantics).

use crate::ctx::{Ctx, Outcome, Tier};
use crate::props::c01::check_session;
use crate::props::Prop;
use mwv_core::choice::unhex;
use mwv_core::pg::{gen_session, Cfg};
use mwv_core::sx::read_all;
use serde_json::Value;

pub struct C05;

pub fn cfg() -> Cfg {
    // known deviations of C01 (d-f) are probed by C01 only
    Cfg {
        callcc: true,
        probe_temp_capture: 0,
        ..Cfg::default()
    }
}

fn check(ctx: &Ctx, forms: &[mwv_core::sx::Sx], features: &std::collections::BTreeSet<&'static str>) -> Outcome {
    check_session(ctx, "C05", forms, features, &|st, _| {
        st.cont_reentries_pending_operands > 0 || st.cont_cross_form > 0
    })
}

pub fn case(ctx: &Ctx, bytes: &[u8]) -> Outcome {
    let s = gen_session(bytes, &cfg());
    check(ctx, &s.forms, &s.features)
}

/// Deep captures: a continuation captured under `depth` pending non-tail calls (the
/// stack is hundreds of slots deep), stored, and re-entered from the same form, from a
/// shallow later form, from a deeper later form, and after a failed evaluation.
pub fn deep_program(c: &mut mwv_core::choice::Choices) -> Vec<mwv_core::sx::Sx> {
    let depth = *c.pick(&[3usize, 10, 41, 42, 43, 60, 100, 150, 300, 600][..]);
    let depth2 = *c.pick(&[0usize, 5, 50, 200, 400][..]);
    let reenter = 1 + c.below(3);
    let fail_between = c.chance(90);
    let shape = c.below(3);
    let mut src = String::new();
    src.push_str("(define kd #f) (define cd 0) (define log '())");
    match shape {
        0 => src.push_str("(define (deep n) (if (= n 0) (call/cc (lambda (k) (set! kd k) 0)) (+ 1 (deep (- n 1)))))"),
        1 => src.push_str("(define (deep n) (if (= n 0) (call/cc (lambda (k) (set! kd k) 0)) (car (list (+ 1 (deep (- n 1))) n))))"),
        _ => src.push_str("(define (deep n . r) (cond ((= n 0) (call/cc (lambda (k) (set! kd k) 0))) (else (let ((v (apply deep (- n 1) n r))) (+ v 1)))))"),
    }
    src.push_str("(define (wrap n thunk) (if (= n 0) (thunk) (+ 1000 (wrap (- n 1) thunk))))");
    src.push_str(&format!("(deep {})", depth));
    if fail_between {
        src.push_str("(car '())");
    }
    // re-entry from a later form at depth2, counter-guarded
    src.push_str(&format!(
        "(wrap {} (lambda () (if (< cd {}) (begin (set! cd (+ cd 1)) (set! log (cons cd log)) (kd (* cd 100))) 'done)))",
        depth2, reenter
    ));
    src.push_str("(list cd log)");
    src.push_str(&format!("(if (< cd {}) (begin (set! cd (+ cd 1)) (kd -1)) cd)", reenter + 1));
    src.push_str("(list cd log)");
    mwv_core::sx::read_all(&src).expect("deep capture template parses")
}

/// The value handed to a continuation is the very object that was passed: a mutable object goes
/// through k (invoked from tail and non-tail positions, from a for-each callback, through apply,
/// from inside a procedure) and is then mutated through one name and read through the other.
fn identity_program(c: &mut mwv_core::choice::Choices) -> Vec<mwv_core::sx::Sx> {
    let (make, mutate_r, read_p, mutate_p, read_r) = *c.pick(
        &[
            ("(list 1 2 3)", "(set-car! ir 30)", "ip", "(set-cdr! ip '(9))", "ir"),
            ("(vector 1 2 3)", "(vector-set! ir 0 30)", "ip", "(vector-set! ip 2 'z)", "ir"),
            ("(make-vector 3 0)", "(vector-fill! ir 7)", "ip", "(vector-set! ip 1 (list 'x))", "ir"),
            ("(list (vector 1) (list 2))", "(vector-set! (car ir) 0 'in)", "ip", "(set-car! (car (cdr ip)) 'deep)", "ir"),
            ("(let ((n 0)) (lambda () (set! n (+ n 1)) n))", "(ir)", "(ip)", "(ip)", "(ir)"),
        ][..],
    );
    let invoke = *c.pick(
        &[
            "(ik ip)",
            "(+ 1 (ik ip))",
            "(begin (ik ip) 'not-reached)",
            "(for-each (lambda (x) (ik x)) (list ip))",
            "(apply ik (list ip))",
            "(let ((go (lambda (v) (ik v) 'after))) (list (go ip)))",
            "(vector (ik ip) 2)",
        ][..],
    );
    let capture = *c.pick(
        &[
            "(define ir (call/cc (lambda (k) (set! ik k) 'first)))",
            "(define ir (car (list (call/cc (lambda (k) (set! ik k) 'first)) 2)))",
            "(define ir (let ((v (call/cc (lambda (k) (set! ik k) 'first)))) v))",
        ][..],
    );
    let src = format!(
        "(define ik #f) (define icount 0) (define ip {make}) {capture} \
         (if (< icount 1) (begin (set! icount (+ icount 1)) {invoke}) 'done) \
         {mutate_r} {read_p} {mutate_p} {read_r} (list (eq? ir ip) (equal? ir ip) icount)",
        make = make,
        capture = capture,
        invoke = invoke,
        mutate_r = mutate_r,
        read_p = read_p,
        mutate_p = mutate_p,
        read_r = read_r
    );
    mwv_core::sx::read_all(&src).expect("identity template parses")
}

/// call/cc whose receiver is itself a continuation (the coroutine-switch idiom) or call/cc.
fn receiver_program(c: &mut mwv_core::choice::Choices) -> Vec<mwv_core::sx::Sx> {
    let switch = *c.pick(&["(call/cc rk)", "(rswap rk)", "(apply call/cc (list rk))", "((lambda (f) (f rk)) call/cc)"][..]);
    let wrap = *c.pick(&["(list 'back @)", "(car (list @))", "(begin @)", "(let ((v @)) (if (procedure? v) 'a-procedure v))"][..]);
    let src = format!(
        "(define rk #f) (define rn 0) (define (rswap k) (call/cc k)) \
         (define rr (call/cc (lambda (k) (set! rk k) 'first))) \
         (procedure? (call/cc call/cc)) \
         (if (< rn 1) (begin (set! rn (+ rn 1)) {wrapped}) 'done) \
         (list (procedure? rr) rn) \
         (if (< rn 2) (begin (set! rn (+ rn 1)) (if (procedure? rr) (rr 'again) 'not-a-procedure)) 'done) \
         (list (procedure? rr) rn)",
        wrapped = wrap.replace('@', switch)
    );
    mwv_core::sx::read_all(&src).expect("receiver template parses")
}

fn identity_case(ctx: &Ctx, bytes: &[u8]) -> Outcome {
    let mut c = mwv_core::choice::Choices::new(bytes);
    let forms = if c.chance(64) { receiver_program(&mut c) } else { identity_program(&mut c) };
    let mut feats = std::collections::BTreeSet::new();
    feats.insert("object-identity-through-continuation");
    check(ctx, &forms, &feats)
}

fn deep_case(ctx: &Ctx, bytes: &[u8]) -> Outcome {
    let mut c = mwv_core::choice::Choices::new(bytes);
    let forms = deep_program(&mut c);
    let mut feats = std::collections::BTreeSet::new();
    feats.insert("deep-capture");
    check(ctx, &forms, &feats)
}

impl Prop for C05 {
    fn id(&self) -> &'static str {
        "C05"
    }
    fn fuzz_stage(&self) -> Option<(&'static str, u64, usize)> {
        Some(("program_cc", 20_000, 1536))
    }
    fn rule(&self) -> &'static str {
        "sessions from the typed program generator with call/cc productions (escape, normal return, storing k in a global, counter-guarded re-entry 0-3 times from the same form, procedures, loops, for-each callbacks and later top-level forms), plus deep captures (up to 600 pending calls) re-entered from later forms and after a failed evaluation, and mutable objects passed through a continuation from tail and non-tail positions and then mutated through one name and read through the other, and call/cc applied to a stored continuation or to call/cc itself; each run in the reference interpreter and four VMs (fresh, second fresh, polluted, and one with collections forced at pseudo-random instructions and after every form). Non-trivial: in the reference run a continuation is re-entered after its call/cc returned with at least one already-evaluated operand pending at capture, or is invoked from a later top-level form; distinct by program text."
    }
    fn assumptions(&self) -> Vec<&'static str> {
        vec![
            "reference interpreter with persistent continuation frames is the oracle; continuations receive exactly one value",
            "map callbacks neither capture nor invoke continuations (R7RS leaves the order of application open); for-each callbacks may",
            "no dynamic-wind (absent from the SUT)",
        ]
    }
    fn run(&self, ctx: &Ctx) {
        ctx.journal_bytes.set(true);
        ctx.shrink_iters.set(400);
        let cases = ctx.tier.pick(1_200u32, 20_000u32);
        ctx.run_bytes("session", cases, 1536, case);
        let deep = ctx.tier.pick(60u32, 1_500u32);
        ctx.run_bytes("deep", deep, 16, deep_case);
        let ident = ctx.tier.pick(30u32, 400u32);
        ctx.run_bytes("identity", ident, 8, identity_case);
    }
    fn replay(&self, ctx: &Ctx, kind: &str, payload: &Value) -> Outcome {
        match kind {
            "program" => match read_all(payload["program"].as_str().unwrap_or("")) {
                Ok(forms) => check(ctx, &forms, &Default::default()),
                Err(_) => Outcome::Discard,
            },
            "identity" => identity_case(ctx, &unhex(payload["bytes"].as_str().unwrap_or(""))),
            "deep" => deep_case(ctx, &unhex(payload["bytes"].as_str().unwrap_or(""))),
            _ => case(ctx, &unhex(payload["bytes"].as_str().unwrap_or(""))),
        }
    }
    fn shards(&self, _tier: Tier) -> usize {
        16
    }
}
