//! C06 — total API: every input yields Ok or Err, never a panic, abort or hang.
//!
//! Domain A (structured): every global procedure (`Vm::global_symbols()` filtered by
//! `(procedure? name)`: builtins and prelude procedures) x arity 0..5 x arguments from
//! `mwv_core::c06gen::PALETTE` (Scheme expressions: every call builds fresh arguments).
//! A case is the text of one call `(proc arg ...)`, evaluated through `parse_text` +
//! `prepare_eval` + `run_count(BUDGET)` in a Vm that is reused for many cases.
//! Oracle: no panic; an instruction budget that is never reached by a call on bounded data
//! (a program-level loop in prelude code = kind `budget`); a returned `Err` renders
//! (`to_string()` under `catch_unwind`); a returned value renders in display and write
//! mode; afterwards the same Vm evaluates three canary forms correctly. A call that does
//! not come back at all (loop inside a builtin, native stack overflow, runaway allocation)
//! is seen by the driver's watchdog: the case being executed is always in the journal file
//! `replays/.cur-C06-<shard>.tmp`. Cells whose no-return signature is a listed finding are
//! not executed in the sweep (they would cost a worker each); their reproducers run in the
//! regression tier in a forked child under an alarm and an address-space limit.
//!
//! Domain B (text): random Unicode, reader token soup, mutated corpus programs
//! (`mwv_core::readergen`) and an evaluation-oriented soup -> `lex::scan`, `parse_text`
//! datum by datum, `prepare_eval` + `run_count` (one budget, and random small slices),
//! `ReplHighlighter::{highlight, highlight_check}` with random cursors. Oracle: no panic,
//! errors render, canary afterwards. Budget exhaustion is never a failure there.

use crate::ctx::{Ctx, Outcome, Tier};
use crate::props::Prop;
use crate::sut::guard;
use marwood::cell::Cell;
use marwood::error::Error;
use marwood::lex;
use marwood::number::Number;
use marwood::parse;
use marwood::syntax::ReplHighlighter;
use marwood::vm::Vm;
use mwv_core::c06gen::{self as g, Group, PALETTE};
use mwv_core::choice::{fnv, unhex, Choices};
use mwv_core::readergen as rg;
use serde_json::{json, Value};
use std::cell::RefCell;

pub struct C06;

/// Instruction budget of one structured call. The most expensive legitimate call of the domain
/// (prelude `map`/`for-each`/`member`/`length` over <= 60 elements) needs a few thousand.
const BUDGET: usize = 200_000;
const CANARY_BUDGET: usize = 20_000;
/// A Vm serves this many structured cases, then it is replaced (bounds state drift).
const VM_REUSE: u32 = 500;
const AS_LIMIT_BYTES: u64 = 4 << 30;
const CHILD_HEADROOM_BYTES: u64 = 384 << 20;
/// CPU seconds a forked probe may burn before it counts as not returning (CPU time, not wall
/// time: a starved child on a busy machine is not a hang); the wall-clock alarm is a backstop.
const CHILD_CPU_S: u64 = 2;
const CHILD_ALARM_S: u32 = 60;
const JOURNAL_RECORD_BYTES: usize = 4096;

// ---------------------------------------------------------------------------------------------
// Vm management

struct Slot {
    vm: Vm,
    used: u32,
    canary: Vec<Cell>,
}

thread_local! {
    static SLOT: RefCell<Option<Slot>> = const { RefCell::new(None) };
}

fn parse_one(text: &str) -> Cell {
    parse::parse_text(text).unwrap_or_else(|e| panic!("harness text does not parse: {} ({:?})", text, e)).0
}

fn fresh_slot() -> Result<Slot, String> {
    let mut vm = guard(Vm::new).map_err(|p| format!("Vm::new panicked: {}", p))?;
    for form in g::SETUP {
        let cell = parse_one(form);
        match guard(|| {
            vm.prepare_eval(&cell)?;
            vm.run_count(CANARY_BUDGET)
        }) {
            Ok(Ok(Some(_))) => {}
            other => return Err(format!("setup form {} failed: {:?}", form, other.map(|r| r.map(|_| ())))),
        }
    }
    let canary = vec![parse_one("c06-canary")];
    Ok(Slot { vm, used: 0, canary })
}

fn take_slot(fresh: bool) -> Result<Slot, String> {
    match SLOT.with(|s| s.borrow_mut().take()) {
        Some(s) if !fresh && s.used < VM_REUSE => Ok(s),
        _ => fresh_slot(),
    }
}

fn put_slot(s: Slot) {
    SLOT.with(|x| *x.borrow_mut() = Some(s));
}

fn limit_address_space(bytes: u64) {
    std::env::set_var("RUST_BACKTRACE", "0");
    unsafe {
        let lim = libc::rlimit { rlim_cur: bytes, rlim_max: bytes };
        libc::setrlimit(libc::RLIMIT_AS, &lim);
    }
}

// ---------------------------------------------------------------------------------------------
// the oracle for one text evaluated as one program form

#[derive(Debug, Clone, PartialEq)]
enum Res {
    /// returned a value (rendered in display mode, truncated)
    Value(String),
    /// returned an error (rendered)
    Failed { arity: bool, text: String },
}

#[derive(Debug, Clone)]
struct Bad {
    kind: &'static str,
    detail: String,
}

fn is_fix(c: &Cell, v: i64) -> bool {
    matches!(c, Cell::Number(Number::Fixnum(x)) if *x == v)
}

fn short(s: &str) -> String {
    if s.chars().count() > 160 {
        let t: String = s.chars().take(160).collect();
        format!("{}…", t)
    } else {
        s.to_string()
    }
}

/// The same Vm must accept further input: three canary evaluations.
fn canary(slot: &mut Slot, strong: bool) -> Result<(), Bad> {
    if !strong {
        // the program may have redefined anything: only a constant is certain to mean what it meant
        let form = Cell::Number(Number::Fixnum(42));
        let vm = &mut slot.vm;
        return match guard(|| {
            vm.prepare_eval(&form)?;
            vm.run_count(CANARY_BUDGET)
        }) {
            Ok(Ok(Some(c))) if is_fix(&c, 42) => Ok(()),
            other => Err(Bad { kind: "canary", detail: format!("afterwards the constant 42 does not evaluate to 42: {:?}", other.map(|r| r.map(|c| c.map(|c| format!("{:#}", c))))) }),
        };
    }
    // (car (cdr '(1 2))) => 2, a closure call, a define and a reference, in two evaluations; the
    // defined value changes from case to case, so a stale binding cannot pass
    let n = (slot.used % 1000) as i64;
    let def = Cell::new_list(vec![
        Cell::new_symbol("define"),
        Cell::new_symbol("c06-canary"),
        Cell::new_list(vec![
            parse_cached("(lambda (x) (+ x (car (cdr '(1 2)))))"),
            Cell::Number(Number::Fixnum(n)),
        ]),
    ]);
    let forms = [def, slot.canary[0].clone()];
    for (i, form) in forms.iter().enumerate() {
        let vm = &mut slot.vm;
        let r = guard(|| {
            vm.prepare_eval(form)?;
            vm.run_count(CANARY_BUDGET)
        });
        let what = if i == 0 {
            format!("(define c06-canary ((lambda (x) (+ x (car (cdr '(1 2))))) {}))", n)
        } else {
            "c06-canary".to_string()
        };
        match r {
            Err(p) => return Err(Bad { kind: "canary", detail: format!("afterwards {} panics: {}", what, p) }),
            Ok(Err(e)) => {
                let t = guard(|| e.to_string()).unwrap_or_else(|p| format!("<unrenderable: {}>", p));
                return Err(Bad { kind: "canary", detail: format!("afterwards {} fails: {}", what, t) });
            }
            Ok(Ok(None)) => {
                return Err(Bad { kind: "canary", detail: format!("afterwards {} does not finish in {} instructions", what, CANARY_BUDGET) })
            }
            Ok(Ok(Some(c))) => {
                let ok = if i == 0 { matches!(c, Cell::Void) } else { is_fix(&c, n + 2) };
                if !ok {
                    let t = guard(|| format!("{:#}", c)).unwrap_or_else(|p| format!("<unrenderable: {}>", p));
                    return Err(Bad { kind: "canary", detail: format!("afterwards {} => {} (expected {})", what, short(&t), if i == 0 { "#<void>".to_string() } else { (n + 2).to_string() }) });
                }
            }
        }
    }
    Ok(())
}

thread_local! {
    static CANARY_LAMBDA: RefCell<Option<Cell>> = const { RefCell::new(None) };
}

fn parse_cached(text: &str) -> Cell {
    CANARY_LAMBDA.with(|c| {
        let mut c = c.borrow_mut();
        if c.is_none() {
            *c = Some(parse_one(text));
        }
        c.clone().unwrap()
    })
}

/// Evaluate one form under the instruction budget and apply the oracle. `Ok(None)` = budget
/// exhausted (the Vm is dropped by the caller: it is in the middle of an evaluation).
/// After a panic the Vm is dropped as well (it may be inconsistent).
fn eval_checked(slot: &mut Slot, cell: &Cell, budget: usize, keep: &mut bool, strong: bool) -> Result<Option<Res>, Bad> {
    slot.used += 1;
    let vm = &mut slot.vm;
    let r = guard(|| {
        vm.prepare_eval(cell)?;
        vm.run_count(budget)
    });
    let res = match r {
        Err(p) => {
            *keep = false;
            return Err(Bad { kind: "panic", detail: format!("panicked: {}", p) });
        }
        Ok(Ok(None)) => {
            *keep = false;
            return Ok(None);
        }
        Ok(Err(e)) => {
            let arity = matches!(e, Error::InvalidNumArgs(_));
            match guard(|| e.to_string()) {
                Ok(t) => Res::Failed { arity, text: short(&t) },
                Err(p) => {
                    // the Vm itself is fine: the canary below still runs
                    if let Err(b) = canary(slot, strong) {
                        *keep = false;
                        return Err(Bad { kind: "render", detail: format!("the returned error {:?} cannot be rendered: {}; and {}", variant_name(&e), p, b.detail) });
                    }
                    return Err(Bad { kind: "render", detail: format!("the returned error {} cannot be rendered: Display panicked: {}", variant_name(&e), p) });
                }
            }
        }
        Ok(Ok(Some(c))) => {
            let d = guard(|| format!("{}", c));
            let w = guard(|| format!("{:#}", c));
            match (d, w) {
                (Ok(d), Ok(_)) => Res::Value(short(&d)),
                (Err(p), _) | (_, Err(p)) => {
                    return Err(Bad { kind: "render", detail: format!("the returned value cannot be rendered: {}", p) });
                }
            }
        }
    };
    if let Err(b) = canary(slot, strong) {
        *keep = false;
        return Err(Bad { kind: b.kind, detail: format!("{} (after {:?})", b.detail, res) });
    }
    Ok(Some(res))
}

fn variant_name(e: &Error) -> String {
    let d = format!("{:?}", e);
    d.split(['(', ' ', '{']).next().unwrap_or("Error").to_string()
}

// ---------------------------------------------------------------------------------------------
// structured cases

#[derive(Clone, Debug)]
struct Call {
    proc: String,
    /// palette indices; `exprs` is authoritative for execution (replays may hold expressions
    /// that are no longer in the palette)
    args: Vec<usize>,
    text: String,
    /// positions that hold the same palette expression receive one and the same object
    aliased: bool,
}

impl Call {
    fn new(proc: &str, args: &[usize]) -> Call {
        let text = if proc == VALUE_PROC {
            PALETTE[args[0]].expr.to_string()
        } else {
            g::call_text(proc, args)
        };
        Call { proc: proc.to_string(), args: args.to_vec(), text, aliased: false }
    }
    /// The palette index that occurs at two or more positions and denotes a mutable container
    /// (vector, list, string), if any: the candidate for an aliased variant of the call.
    fn alias_candidate(args: &[usize]) -> Option<usize> {
        args.iter().copied().find(|a| {
            matches!(PALETTE[*a].group, Group::Vector | Group::List | Group::Str) && args.iter().filter(|b| *b == a).count() >= 2
        })
    }
    /// `(let ((c06-shared E)) (proc ... c06-shared ... c06-shared ...))`
    fn new_aliased(proc: &str, args: &[usize], shared: usize) -> Call {
        let mut text = format!("(let ((c06-shared {})) ({}", PALETTE[shared].expr, proc);
        for a in args {
            text.push(' ');
            text.push_str(if *a == shared { "c06-shared" } else { PALETTE[*a].expr });
        }
        text.push_str("))");
        Call { proc: proc.to_string(), args: args.to_vec(), text, aliased: true }
    }
    fn classes(&self) -> String {
        let c = self.args.iter().map(|a| PALETTE[*a].class).collect::<Vec<_>>().join(" ");
        if self.aliased {
            format!("{} (same object)", c)
        } else {
            c
        }
    }
    fn feature(&self) -> String {
        g::feature(&self.proc, &self.args).unwrap_or_else(|| "-".into())
    }
    /// `C06|<proc>|<kind>|<feature>|<classes>`
    fn sig(&self, kind: &str) -> String {
        format!("C06|{}|{}|{}|{}", g::canonical(&self.proc), kind, self.feature(), self.classes())
    }
    /// signature base of a call that does not come back; the driver appends `|hang` or `|abort`
    fn noreturn_base(&self) -> String {
        self.sig("no-return")
    }
    fn payload(&self) -> Value {
        json!({
            "call": self.text,
            "proc": self.proc,
            "args": self.args.iter().map(|a| PALETTE[*a].expr).collect::<Vec<_>>(),
            "aliased": self.aliased,
            "hang_sig": self.noreturn_base(),
        })
    }
}

const VALUE_PROC: &str = g::VALUE_PROC;

struct CaseResult {
    fail: Option<(String, String)>,
    /// None = budget exhausted
    res: Option<Res>,
}

fn run_call(call: &Call, fresh: bool) -> CaseResult {
    let mut slot = match take_slot(fresh) {
        Ok(s) => s,
        Err(e) => return CaseResult { fail: Some(("C06|Vm::new|panic".into(), e)), res: None },
    };
    let cell = match guard(|| parse::parse_text(&call.text)) {
        Ok(Ok((c, None))) => c,
        Ok(Ok((_, Some(rest)))) => panic!("harness call text reads as more than one datum: {} | {}", call.text, rest),
        Ok(Err(e)) => panic!("harness call text does not parse: {} ({:?})", call.text, e),
        Err(p) => {
            put_slot(slot);
            return CaseResult { fail: Some((call.sig("panic"), format!("parse_text({:?}) panicked: {}", call.text, p))), res: None };
        }
    };
    let mut keep = true;
    let out = eval_checked(&mut slot, &cell, BUDGET, &mut keep, true);
    if keep {
        put_slot(slot);
    }
    match out {
        Ok(Some(res)) => CaseResult { fail: None, res: Some(res) },
        Ok(None) => CaseResult {
            fail: Some((
                call.sig("budget"),
                format!("{} does not finish within {} instructions although all its arguments are small and finite (loop in prelude code)", call.text, BUDGET),
            )),
            res: None,
        },
        Err(b) => CaseResult { fail: Some((call.sig(b.kind), format!("{} {}", call.text, b.detail))), res: None },
    }
}

// ---- journal file: the case being executed, for the driver's watchdog -------------------------

struct Journal {
    /// the journal file mapped into memory: recording a case is a memcpy, not a system call (fifty
    /// million `pwrite`s from sixteen processes cost more kernel time than the cases themselves);
    /// the driver reads the file after the worker is gone, and sees the page cache
    map: *mut u8,
    file: Option<std::fs::File>,
    path: String,
    last_len: usize,
}

impl Journal {
    fn open(ctx: &Ctx) -> Journal {
        let root = std::env::var("VERIF_ROOT").unwrap_or_else(|_| "/verif".into());
        let _ = std::fs::create_dir_all(format!("{}/replays", root));
        let path = format!("{}/replays/.cur-{}-{}.tmp", root, ctx.prop, ctx.shard);
        let mut j = Journal { map: std::ptr::null_mut(), file: None, path, last_len: JOURNAL_RECORD_BYTES };
        if ctx.strict {
            return j;
        }
        let file = match std::fs::OpenOptions::new().read(true).write(true).create(true).truncate(true).open(&j.path) {
            Ok(f) => f,
            Err(_) => return j,
        };
        if file.set_len(JOURNAL_RECORD_BYTES as u64).is_err() {
            return j;
        }
        use std::os::unix::io::AsRawFd;
        let p = unsafe {
            libc::mmap(std::ptr::null_mut(), JOURNAL_RECORD_BYTES, libc::PROT_READ | libc::PROT_WRITE, libc::MAP_SHARED, file.as_raw_fd(), 0)
        };
        if p == libc::MAP_FAILED {
            return j;
        }
        j.map = p as *mut u8;
        j.file = Some(file);
        j
    }
    /// Record the case; false = the driver asked to skip it (it hung or aborted before).
    fn record(&mut self, ctx: &Ctx, call: &Call) -> bool {
        if self.map.is_null() {
            return true;
        }
        let rec = json!({"kind": "call", "payload": call.payload()}).to_string();
        assert!(rec.len() <= JOURNAL_RECORD_BYTES, "journal record too long: {}", rec);
        if !ctx.skip.is_empty() {
            // the driver hashes the whole file text
            let mut padded = rec.clone();
            while padded.len() < JOURNAL_RECORD_BYTES {
                padded.push(' ');
            }
            if ctx.skip.contains(&fnv(padded.as_bytes())) {
                return false;
            }
        }
        unsafe {
            std::ptr::copy_nonoverlapping(rec.as_ptr(), self.map, rec.len());
            if self.last_len > rec.len() {
                std::ptr::write_bytes(self.map.add(rec.len()), b' ', self.last_len - rec.len());
            }
        }
        self.last_len = rec.len();
        true
    }
    fn close(self) {
        if !self.map.is_null() {
            unsafe {
                libc::munmap(self.map as *mut libc::c_void, JOURNAL_RECORD_BYTES);
            }
        }
        drop(self.file);
        let _ = std::fs::remove_file(&self.path);
    }
}

// ---- listed no-return cells ----------------------------------------------------------------------

struct NoReturn {
    exact: Vec<String>,
    prefix: Vec<String>,
}

impl NoReturn {
    fn load(ctx: &Ctx) -> NoReturn {
        let mut exact = vec![];
        let mut prefix = vec![];
        for f in ctx.known.for_property("C06") {
            if !f.sig.contains("|no-return|") {
                continue;
            }
            match f.sig.strip_suffix('*') {
                Some(p) => prefix.push(p.to_string()),
                None => exact.push(f.sig.clone()),
            }
        }
        NoReturn { exact, prefix }
    }
    fn listed(&self, call: &Call) -> bool {
        if self.exact.is_empty() && self.prefix.is_empty() {
            return false;
        }
        let base = call.noreturn_base();
        for kind in ["hang", "abort"] {
            let s = format!("{}|{}", base, kind);
            if self.exact.iter().any(|e| *e == s) || self.prefix.iter().any(|p| s.starts_with(p.as_str())) {
                return true;
            }
        }
        false
    }
}

fn proc_group(name: &str) -> &'static str {
    const NUM: &[&str] = &[
        "*", "/", "+", "-", "<", "<=", "=", ">", ">=", "%", "abs", "acos", "asin", "atan", "ceiling", "cos", "denominator", "even?",
        "exact->inexact", "exp", "expt", "floor", "inexact->exact", "log", "min", "max", "modulo", "numerator", "number->string",
        "negative?", "odd?", "pow", "positive?", "quotient", "remainder", "round", "sin", "sqrt", "string->number", "tan", "truncate",
        "zero?", "add1", "sub1", "random-integer", "random-real", "random-signed", "number?", "complex?", "real?", "rational?", "integer?",
    ];
    const CONTROL: &[&str] = &[
        "apply", "call/cc", "call-with-current-continuation", "error", "eval", "map", "map1", "for-each", "any?", "force", "make-promise",
        "promise-done?", "promise-value", "promise-update!", "procedure?",
    ];
    const IO: &[&str] = &["display", "write", "newline", "term-rows", "term-cols", "time-utc", "port?"];
    if NUM.contains(&name) {
        "number"
    } else if CONTROL.contains(&name) {
        "control"
    } else if IO.contains(&name) {
        "io"
    } else if name.contains("vector") {
        "vector"
    } else if name.contains("string") || name == "substring" {
        "string"
    } else if name.contains("char") || name == "digit-value" {
        "char"
    } else if name.contains("symbol") {
        "symbol"
    } else if name.ends_with('?') && !name.starts_with("mem") && !name.starts_with("ass") {
        "predicate"
    } else {
        "list"
    }
}

/// The global procedures of the running library, sorted by name.
fn procedures() -> Result<Vec<String>, String> {
    let mut slot = take_slot(true)?;
    let mut names: Vec<String> = slot.vm.global_symbols().iter().map(|s| s.to_string()).collect();
    names.sort();
    names.dedup();
    let mut out = vec![];
    for n in names {
        if n.starts_with("c06-") {
            continue;
        }
        let text = format!("(procedure? {})", n);
        let cell = match guard(|| parse::parse_text(&text)) {
            Ok(Ok((c, None))) => c,
            // a global whose name does not read back as one symbol cannot be called from text
            _ => continue,
        };
        let vm = &mut slot.vm;
        match guard(|| {
            vm.prepare_eval(&cell)?;
            vm.run_count(CANARY_BUDGET)
        }) {
            Ok(Ok(Some(Cell::Bool(true)))) => out.push(n),
            Ok(_) => {}
            Err(_) => {
                slot = fresh_slot()?;
            }
        }
    }
    put_slot(slot);
    Ok(out)
}

struct Sweep<'a> {
    ctx: &'a Ctx,
    journal: Journal,
    noreturn: NoReturn,
    counter: u64,
    executed: u64,
    /// C06_PROFILE=1: per (procedure, arity) total microseconds, cases, slowest case
    profile: Option<std::collections::BTreeMap<String, (u64, u64, u64, String)>>,
}

impl<'a> Sweep<'a> {
    /// Execute one structured case if it belongs to this shard and to the statement's domain.
    fn case(&mut self, proc: &str, args: &[usize], sharded: bool) {
        let ctx = self.ctx;
        if sharded {
            let mine = (self.counter as usize) % ctx.nshards == ctx.shard;
            self.counter += 1;
            if !mine {
                return;
            }
        }
        if let Some(why) = g::out_of_bounds(proc, args) {
            ctx.class(&format!("A:not-generated:{}", why));
            return;
        }
        let call = Call::new(proc, args);
        self.case_call(proc, args, call);
        if proc != VALUE_PROC {
            if let Some(shared) = Call::alias_candidate(args) {
                let aliased = Call::new_aliased(proc, args, shared);
                self.ctx.class("A:aliased-arguments");
                self.case_call(proc, args, aliased);
            }
        }
    }

    fn case_call(&mut self, proc: &str, args: &[usize], call: Call) {
        let ctx = self.ctx;
        if self.noreturn.listed(&call) {
            ctx.class("A:excluded:listed-no-return-cell");
            ctx.extra_add("excluded_listed_no_return_cells", 1);
            return;
        }
        ctx.beat();
        if !self.journal.record(ctx, &call) {
            ctx.discard("skipped: hung or aborted in an earlier incarnation of this shard");
            return;
        }
        ctx.count(1);
        let t0 = self.profile.as_ref().map(|_| std::time::Instant::now());
        let r = run_call(&call, false);
        if let (Some(t0), Some(prof)) = (t0, self.profile.as_mut()) {
            let e = prof.entry(format!("{}/{}", proc, args.len())).or_insert((0u64, 0u64, 0u64, String::new()));
            let us = t0.elapsed().as_micros() as u64;
            e.0 += us;
            e.1 += 1;
            if us > e.2 {
                e.2 = us;
                e.3 = call.text.clone();
            }
        }
        let grp = if proc == VALUE_PROC { "value" } else { proc_group(proc) };
        let n = args.len();
        let outcome = match (&r.fail, &r.res) {
            (Some((sig, _)), _) => {
                // C06|proc|<kind>|...
                match sig.split('|').nth(2) {
                    Some("panic") => "FAIL-panic",
                    Some("render") => "FAIL-render",
                    Some("canary") => "FAIL-canary",
                    Some("budget") => "FAIL-budget",
                    _ => "FAIL",
                }
            }
            (None, Some(Res::Value(_))) => "value",
            (None, Some(Res::Failed { arity: true, .. })) => "arity-error",
            (None, Some(Res::Failed { .. })) => "other-error",
            (None, None) => "?",
        };
        ctx.class(&format!("A:arity{}:{}", n, outcome));
        ctx.class(&format!("A:group:{}:{}", grp, if outcome == "arity-error" { "trivial" } else { "nontrivial" }));
        if outcome != "arity-error" {
            ctx.nontrivial_str(&format!("{}|{}", call.proc, call.classes()));
        }
        self.executed += 1;
        if self.executed % 1500 == 1 {
            ctx.sample(|| json!({"call": call.text, "outcome": format!("{:?}", r.res)}));
        }
        if let Some((sig, detail)) = r.fail {
            ctx.report("call", call.payload(), &sig, &detail);
        }
    }
}

fn sub_palette() -> Vec<usize> {
    (0..PALETTE.len()).filter(|i| PALETTE[*i].sub).collect()
}

fn odometer(n: usize, base: usize, mut f: impl FnMut(&[usize])) {
    let mut idx = vec![0usize; n];
    loop {
        f(&idx);
        let mut i = n;
        loop {
            if i == 0 {
                return;
            }
            i -= 1;
            idx[i] += 1;
            if idx[i] < base {
                break;
            }
            idx[i] = 0;
        }
    }
}

fn domain_a(ctx: &Ctx) {
    let procs = match procedures() {
        Ok(p) => p,
        Err(e) => {
            ctx.report("setup", json!({}), "C06|Vm::new|panic", &e);
            return;
        }
    };
    if ctx.shard == 0 {
        ctx.extra("procedures_swept", json!(procs.len()));
        ctx.extra("palette_size", json!(PALETTE.len()));
        ctx.extra("procedures", json!(procs.join(" ")));
    }
    let sub = sub_palette();
    if ctx.shard == 0 {
        ctx.extra("sub_palette_size", json!(sub.len()));
    }
    let all: Vec<usize> = (0..PALETTE.len()).collect();
    let mut sw = Sweep { ctx, journal: Journal::open(ctx), noreturn: NoReturn::load(ctx), counter: 0, executed: 0, profile: std::env::var_os("C06_PROFILE").map(|_| Default::default()) };

    // every palette expression as a program of its own (also: the value of an evaluation may be circular)
    for a in &all {
        sw.case(VALUE_PROC, &[*a], true);
    }
    // arity 0 and 1: exhaustive
    for p in &procs {
        sw.case(p, &[], true);
        for a in &all {
            sw.case(p, &[*a], true);
        }
    }
    // arity 2: exhaustive over the whole palette
    let pal2: &[usize] = &all;
    for p in &procs {
        for a in pal2 {
            for b in pal2 {
                sw.case(p, &[*a, *b], true);
            }
        }
    }
    // arity 3..5: which procedures take that many arguments at all? (the arity check comes first)
    let mut accepting: Vec<(String, usize)> = vec![];
    for p in &procs {
        for n in 3..=5usize {
            let zero = g::palette_index("0").unwrap();
            let probe = Call::new(p, &vec![zero; n]);
            if sw.noreturn.listed(&probe) || !sw.journal.record(ctx, &probe) {
                continue;
            }
            let r = run_call(&probe, false);
            let arity_error = matches!(r.res, Some(Res::Failed { arity: true, .. }));
            if arity_error {
                // the arity error path itself, with a few argument tuples
                for k in 0..3usize {
                    let args: Vec<usize> = (0..n).map(|i| sub[(k * 7 + i * 3 + p.len()) % sub.len()]).collect();
                    sw.case(p, &args, true);
                }
            } else {
                accepting.push((p.clone(), n));
            }
        }
    }
    if ctx.shard == 0 {
        ctx.extra("procedure_arity_pairs_accepting_3_to_5_arguments", json!(accepting.len()));
    }
    // thorough: arity 3 over the whole palette, exhaustively, for the procedures that take 3 arguments
    if ctx.tier == Tier::Thorough {
        for (p, n) in &accepting {
            if *n == 3 {
                odometer(3, all.len(), |ix| {
                    sw.case(p, ix, true);
                });
            }
        }
    }
    // sampled: arguments aimed at the kinds the positions want (70 %) or anything (30 %)
    let per = ctx.tier.pick(1_600usize, 100_000usize) / ctx.nshards.max(1) + 1;
    let pools = g::role_pools();
    let mut rng = g::SplitMix(ctx.sub_seed("arity3to5"));
    for (p, n) in &accepting {
        if ctx.tier == Tier::Thorough && *n == 3 {
            continue;
        }
        for _ in 0..per {
            let args: Vec<usize> = (0..*n)
                .map(|i| {
                    let a = g::sample_arg(&mut rng, p, i, &pools);
                    // circular data only where the statement sends it
                    if PALETTE[a].group == Group::Circ && !g::CIRCULAR_OK.contains(&p.as_str()) {
                        0
                    } else {
                        a
                    }
                })
                .collect();
            sw.case(p, &args, false);
        }
    }
    if let Some(prof) = &sw.profile {
        let mut v: Vec<_> = prof.iter().collect();
        v.sort_by_key(|(_, e)| std::cmp::Reverse(e.0));
        for (k, e) in v.iter().take(25) {
            eprintln!("profile {:>28} total {:>9} ms  cases {:>8}  slowest {:>8} us  {}", k, e.0 / 1000, e.1, e.2, short(&e.3));
        }
    }
    sw.journal.close();
    ctx.set_exhaustive(true);
}

// ---------------------------------------------------------------------------------------------
// running something in a forked child (reproducers of calls that do not come back)

enum Forked {
    Done(String),
    Hang,
    Abort { signal: i32, stderr: String },
}

fn virtual_size_bytes() -> u64 {
    std::fs::read_to_string("/proc/self/statm")
        .ok()
        .and_then(|s| s.split_whitespace().next().and_then(|p| p.parse::<u64>().ok()))
        .map(|pages| pages * 4096)
        .unwrap_or(512 << 20)
}

fn read_all(fd: i32) -> Vec<u8> {
    let mut buf = Vec::new();
    let mut chunk = [0u8; 4096];
    loop {
        let n = unsafe { libc::read(fd, chunk.as_mut_ptr() as *mut libc::c_void, chunk.len()) };
        if n <= 0 {
            break;
        }
        buf.extend_from_slice(&chunk[..n as usize]);
        if buf.len() > (1 << 20) {
            break;
        }
    }
    buf
}

/// The worker / replay process is single-threaded, so fork is safe.
fn run_forked<F: FnOnce() -> String>(f: F) -> Forked {
    let limit = (virtual_size_bytes() + CHILD_HEADROOM_BYTES).min(AS_LIMIT_BYTES);
    let mut out_fds = [0i32; 2];
    let mut err_fds = [0i32; 2];
    unsafe {
        if libc::pipe(out_fds.as_mut_ptr()) != 0 || libc::pipe(err_fds.as_mut_ptr()) != 0 {
            return Forked::Done(f());
        }
        let pid = libc::fork();
        if pid < 0 {
            return Forked::Done(f());
        }
        if pid == 0 {
            libc::close(out_fds[0]);
            libc::close(err_fds[0]);
            libc::dup2(err_fds[1], 2);
            let lim = libc::rlimit { rlim_cur: limit, rlim_max: limit };
            libc::setrlimit(libc::RLIMIT_AS, &lim);
            let cpu = libc::rlimit { rlim_cur: CHILD_CPU_S, rlim_max: CHILD_CPU_S + 1 };
            libc::setrlimit(libc::RLIMIT_CPU, &cpu);
            libc::alarm(CHILD_ALARM_S);
            let out = f();
            let b = out.as_bytes();
            let mut off = 0;
            while off < b.len() {
                let n = libc::write(out_fds[1], b[off..].as_ptr() as *const libc::c_void, b.len() - off);
                if n <= 0 {
                    break;
                }
                off += n as usize;
            }
            libc::_exit(0);
        }
        libc::close(out_fds[1]);
        libc::close(err_fds[1]);
        let out = read_all(out_fds[0]);
        let err = read_all(err_fds[0]);
        libc::close(out_fds[0]);
        libc::close(err_fds[0]);
        let mut status = 0i32;
        libc::waitpid(pid, &mut status, 0);
        if libc::WIFSIGNALED(status) {
            let sig = libc::WTERMSIG(status);
            if sig == libc::SIGALRM || sig == libc::SIGXCPU || sig == libc::SIGKILL {
                return Forked::Hang;
            }
            return Forked::Abort { signal: sig, stderr: short(&String::from_utf8_lossy(&err)) };
        }
        Forked::Done(String::from_utf8_lossy(&out).to_string())
    }
}

fn call_from_payload(payload: &Value) -> Option<Call> {
    let proc = payload["proc"].as_str()?.to_string();
    let exprs: Vec<&str> = payload["args"].as_array()?.iter().filter_map(|a| a.as_str()).collect();
    let args: Option<Vec<usize>> = exprs.iter().map(|e| g::palette_index(e)).collect();
    let args = args?;
    if payload["aliased"].as_bool().unwrap_or(false) {
        if let Some(shared) = Call::alias_candidate(&args) {
            return Some(Call::new_aliased(&proc, &args, shared));
        }
    }
    Some(Call::new(&proc, &args))
}

fn replay_call(payload: &Value) -> Outcome {
    let call = match call_from_payload(payload) {
        Some(c) => c,
        None => {
            return Outcome::fail(
                "C06|replay-file|argument-not-in-palette",
                "the recorded call uses an argument expression that is not in the palette any more",
                payload.clone(),
            )
        }
    };
    if g::out_of_bounds(&call.proc, &call.args).is_some() {
        return Outcome::Discard;
    }
    let forked = payload["fork"].as_bool().unwrap_or(false);
    if !forked {
        // in-process: a call that does not come back really hangs / aborts this process, which is
        // what the driver's confirmation run wants to see
        limit_address_space(AS_LIMIT_BYTES);
        let r = run_call(&call, true);
        return match r.fail {
            Some((sig, detail)) => Outcome::fail(sig, detail, payload.clone()),
            None => Outcome::Pass,
        };
    }
    // make sure the parent owns a ready Vm, so that the child starts from a copy
    match take_slot(true) {
        Ok(s) => put_slot(s),
        Err(e) => return Outcome::fail("C06|Vm::new|panic", e, payload.clone()),
    }
    let c2 = call.clone();
    match run_forked(move || {
        let r = run_call(&c2, false);
        match r.fail {
            Some((sig, detail)) => json!({"sig": sig, "detail": detail}).to_string(),
            None => json!({"pass": true}).to_string(),
        }
    }) {
        Forked::Hang => Outcome::fail(
            format!("{}|hang", call.noreturn_base()),
            format!("{} did not come back within {} s of CPU time (forked child)", call.text, CHILD_CPU_S),
            payload.clone(),
        ),
        Forked::Abort { signal, stderr } => Outcome::fail(
            format!("{}|abort", call.noreturn_base()),
            format!("{} killed the process (signal {}): {}", call.text, signal, stderr),
            payload.clone(),
        ),
        Forked::Done(t) => {
            let v: Value = serde_json::from_str(&t).unwrap_or(Value::Null);
            match v["sig"].as_str() {
                Some(sig) => Outcome::fail(sig, v["detail"].as_str().unwrap_or(""), payload.clone()),
                None => Outcome::Pass,
            }
        }
    }
}

// ---------------------------------------------------------------------------------------------
// domain B: text

fn gen_text(kind: &str, c: &mut Choices) -> (String, &'static str) {
    match kind {
        "text-uni" => (rg::gen_unicode_text(c), "uni"),
        "text-soup" => (rg::gen_soup(c), "soup"),
        "text-mut" => {
            let (t, k) = rg::gen_mutation(c, None);
            (t, k)
        }
        "text-session" => (gen_session_text(c), "session"),
        _ => (g::gen_eval_soup(c), "evalsoup"),
    }
}

/// A session on one Vm in which continuations are data that outlive evaluations: a continuation
/// is captured under d pending calls and stored; evaluations fail in various ways (run time,
/// compile time, inside the extent of a captured continuation); the stored continuation is
/// invoked again from later forms, shallow and deep. Every step must yield a value or an error.
fn gen_session_text(c: &mut Choices) -> String {
    let mut t = String::from(
        "(define c06s-k #f) (define (c06s-deep n) (if (= n 0) (call/cc (lambda (c) (set! c06s-k c) 0)) (+ 1 (c06s-deep (- n 1)))))",
    );
    const FAILS: [&str; 10] = [
        "(car '())",
        "(vector-ref (vector) 1)",
        "(error \"boom\" 1)",
        "c06s-undefined",
        "(if)",
        "((lambda (x) x))",
        "(c06s-deep 'a)",
        "(+ 1 (c06s-deep 50) (car '()))",
        "(string-ref \"\" 0)",
        "(apply c06s-deep '(1 2))",
    ];
    let steps = 3 + c.below(7);
    let mut captured = false;
    for _ in 0..steps {
        match c.weighted(&[3, 3, 4, 1]) {
            0 => {
                let d = *c.pick(&[0usize, 5, 41, 42, 43, 60, 100, 300][..]);
                t.push_str(&format!(" (c06s-deep {})", d));
                captured = true;
            }
            1 => {
                t.push(' ');
                t.push_str(FAILS[c.below(FAILS.len())]);
            }
            2 if captured => {
                match c.below(3) {
                    0 => t.push_str(" (c06s-k 1)"),
                    1 => t.push_str(" (+ 1 (c06s-k 2))"),
                    _ => t.push_str(" (if (procedure? c06s-k) (begin (define c06s-j c06s-k) (set! c06s-k #f) (c06s-j 3)) 'spent)"),
                }
            }
            2 => t.push_str(" (c06s-deep 2)"),
            _ => t.push_str(" (list 1 \"a\" (vector))"),
        }
    }
    t
}

fn scan_panics(t: &str) -> bool {
    guard(|| {
        let _ = lex::scan(t);
    })
    .is_err()
}

fn parse_panics(t: &str) -> bool {
    guard(|| {
        let _ = parse::parse_text(t);
    })
    .is_err()
}

fn highlight_panics(t: &str) -> bool {
    let hl = ReplHighlighter::new();
    (0..=t.len() + 2).any(|i| guard(|| (hl.highlight(t, i).len(), hl.highlight_check(t, i))).is_err())
}

struct EvalReport {
    /// (stage, detail, the text of the datum at which it happened) of the first failure
    fail: Option<(String, String, String)>,
    forms: usize,
    values: usize,
    errors: usize,
    over_budget: bool,
    compile_reached: bool,
    /// the evaluation ran in a forked child that was killed for a reason that is not a finding
    discard: Option<String>,
}

impl EvalReport {
    fn new() -> EvalReport {
        EvalReport { fail: None, forms: 0, values: 0, errors: 0, over_budget: false, compile_reached: false, discard: None }
    }
    fn to_json(&self) -> String {
        json!({"fail": self.fail.as_ref().map(|(a, b, c)| json!([a, b, c])), "forms": self.forms, "values": self.values,
               "errors": self.errors, "over_budget": self.over_budget, "compile_reached": self.compile_reached})
        .to_string()
    }
    fn from_json(t: &str) -> Option<EvalReport> {
        let v: Value = serde_json::from_str(t).ok()?;
        let s = |x: &Value| x.as_str().unwrap_or("").to_string();
        Some(EvalReport {
            fail: v["fail"].as_array().map(|a| (s(&a[0]), s(&a[1]), s(&a[2]))),
            forms: v["forms"].as_u64()? as usize,
            values: v["values"].as_u64()? as usize,
            errors: v["errors"].as_u64()? as usize,
            over_budget: v["over_budget"].as_bool()?,
            compile_reached: v["compile_reached"].as_bool()?,
            discard: None,
        })
    }
}

/// Loop over the data of `text`: parse one, evaluate it under the budget (optionally in slices),
/// continue with the remaining text. Stops at the first reader error or exhausted budget.
fn eval_text_checked(text: &str, budget: usize, slices: Option<&[usize]>) -> EvalReport {
    let mut rep = EvalReport::new();
    let mut slot = match fresh_or_reused() {
        Ok(s) => s,
        Err(e) => {
            rep.fail = Some(("Vm::new".into(), e, String::new()));
            return rep;
        }
    };
    // a text that defines or assigns may legitimately change what the canary forms mean: the weak
    // canary is used, and the Vm is not handed to the next case
    let strong = !(text.contains("define") || text.contains("set!"));
    let mut keep = strong;
    let mut rest: Option<&str> = Some(text);
    while let Some(t) = rest {
        if t.trim().is_empty() || rep.forms >= 12 {
            break;
        }
        let (cell, r) = match guard(|| parse::parse_text(t)) {
            Err(p) => {
                rep.fail = Some(("parse_text".into(), format!("parse_text({:?}) panicked: {}", t, p), t.to_string()));
                break;
            }
            Ok(Err(e)) => {
                if let Err(p) = guard(|| format!("{} {:?}", e, e)) {
                    rep.fail = Some(("parse-error-render".into(), format!("the error of parse_text({:?}) cannot be rendered: {}", t, p), t.to_string()));
                }
                break;
            }
            Ok(Ok(x)) => x,
        };
        let form_text = &t[..t.len() - r.map(|r| r.len()).unwrap_or(0)];
        rest = r;
        rep.forms += 1;
        let out = match slices {
            None => eval_checked(&mut slot, &cell, budget, &mut keep, strong),
            Some(sl) => eval_sliced(&mut slot, &cell, budget, sl, &mut keep, strong),
        };
        match out {
            Ok(Some(Res::Value(_))) => {
                rep.values += 1;
                rep.compile_reached = true;
            }
            Ok(Some(Res::Failed { text: m, .. })) => {
                rep.errors += 1;
                if !m.contains("is not bound") {
                    rep.compile_reached = true;
                }
            }
            Ok(None) => {
                rep.over_budget = true;
                break;
            }
            Err(b) => {
                let stage = match b.kind {
                    "panic" => "eval",
                    "render" => "eval-render",
                    _ => "eval-canary",
                };
                rep.fail = Some((stage.into(), format!("evaluating {:?}: {}", form_text, b.detail), form_text.to_string()));
                break;
            }
        }
    }
    if keep {
        put_slot(slot);
    }
    rep
}

/// A text that defines macros can make the *expander* recurse without end (a diverging program:
/// the mutated prelude macro `(or a b ...) => (or b a)`), which ends in a native stack overflow or
/// in memory exhaustion instead of an exhausted instruction budget. Such texts are evaluated in a
/// forked child; a child that stalls, overflows its stack or runs out of memory is a discarded
/// case (termination of macro expansion is C17's subject), any other death is an abort.
fn eval_text_guarded(text: &str, budget: usize, slices: Option<&[usize]>) -> EvalReport {
    if !text.contains("syntax-rules") {
        return eval_text_checked(text, budget, slices);
    }
    match run_forked(|| eval_text_checked(text, budget, slices).to_json()) {
        Forked::Done(t) => EvalReport::from_json(&t).unwrap_or_else(|| {
            let mut r = EvalReport::new();
            r.discard = Some("macro-defining text: forked child gave no result".into());
            r
        }),
        Forked::Hang => {
            let mut r = EvalReport::new();
            r.discard = Some("macro-defining text: forked child stalled (diverging expansion?)".into());
            r
        }
        Forked::Abort { signal, stderr } => {
            let mut r = EvalReport::new();
            if stderr.contains("overflowed its stack") || stderr.contains("memory allocation of") || stderr.contains("out of memory") {
                r.discard = Some("macro-defining text: forked child exhausted stack or memory (diverging expansion?)".into());
            } else {
                r.fail = Some(("eval-abort".into(), format!("evaluating the text killed the process (signal {}): {}", signal, stderr), text.to_string()));
            }
            r
        }
    }
}

fn fresh_or_reused() -> Result<Slot, String> {
    // text cases define globals and macros at will: a Vm serves few of them
    match SLOT.with(|s| s.borrow_mut().take()) {
        Some(s) if s.used < 40 => Ok(s),
        _ => fresh_slot(),
    }
}

/// `prepare_eval` + repeated `run_count(slice)`; same oracle as `eval_checked`.
fn eval_sliced(slot: &mut Slot, cell: &Cell, budget: usize, slices: &[usize], keep: &mut bool, strong: bool) -> Result<Option<Res>, Bad> {
    slot.used += 1;
    let vm = &mut slot.vm;
    let r = guard(|| -> Result<Option<Cell>, Error> {
        vm.prepare_eval(cell)?;
        let mut used = 0usize;
        let mut i = 0usize;
        loop {
            let b = slices[i % slices.len()].max(1);
            i += 1;
            if let Some(c) = vm.run_count(b)? {
                return Ok(Some(c));
            }
            used += b;
            if used >= budget {
                return Ok(None);
            }
        }
    });
    match r {
        Err(p) => {
            *keep = false;
            Err(Bad { kind: "panic", detail: format!("panicked (sliced {:?}): {}", slices, p) })
        }
        Ok(Ok(None)) => {
            *keep = false;
            Ok(None)
        }
        Ok(Err(e)) => {
            let arity = matches!(e, Error::InvalidNumArgs(_));
            let t = guard(|| e.to_string()).map_err(|p| Bad { kind: "render", detail: format!("the returned error {} cannot be rendered: {}", variant_name(&e), p) })?;
            if let Err(b) = canary(slot, strong) {
                *keep = false;
                return Err(b);
            }
            Ok(Some(Res::Failed { arity, text: short(&t) }))
        }
        Ok(Ok(Some(c))) => {
            let d = guard(|| format!("{} {:#}", c, c)).map_err(|p| Bad { kind: "render", detail: format!("the returned value cannot be rendered: {}", p) })?;
            if let Err(b) = canary(slot, strong) {
                *keep = false;
                return Err(b);
            }
            Ok(Some(Res::Value(short(&d))))
        }
    }
}

thread_local! {
    /// culprit of an evaluation-stage failure, by failing datum (shrinking revisits the same data)
    static CULPRITS: RefCell<std::collections::HashMap<(String, String), String>> = RefCell::new(Default::default());
}

fn eval_fails_like(stage: String) -> impl Fn(&str) -> bool {
    // the Vm is shared between the probes (and replaced after a panic or a defining piece, see
    // `eval_text_checked`): they are windows of one text, state carried over does not matter here
    move |piece: &str| {
        let r = eval_text_guarded(piece, 20_000, None);
        matches!(&r.fail, Some((st, _, _)) if *st == stage)
    }
}

fn eval_culprit(stage: &str, at: &str) -> String {
    let key = (stage.to_string(), at.to_string());
    if let Some(c) = CULPRITS.with(|m| m.borrow().get(&key).cloned()) {
        return c;
    }
    let c = rg::culprit_window(at, &eval_fails_like(stage.to_string()));
    CULPRITS.with(|m| {
        let mut m = m.borrow_mut();
        if m.len() > 10_000 {
            m.clear();
        }
        m.insert(key, c.clone());
    });
    c
}

const TEXT_BUDGET: usize = 20_000;

fn text_outcome(ctx: &Ctx, kind: &str, bytes: &[u8]) -> Outcome {
    let mut c = Choices::new(bytes);
    let (text, gen_class) = gen_text(kind, &mut c);
    let cursor = c.below(text.len() + 4);
    let sliced = c.chance(64);
    let slices: Vec<usize> = if sliced { (0..1 + c.below(3)).map(|_| 1 + c.below(40)).collect() } else { vec![] };
    text_check(ctx, kind, gen_class, &text, cursor, &slices)
}

/// The oracle of the text domain on one literal text (also the replay of kind `text-literal`).
fn text_check(ctx: &Ctx, kind: &str, gen_class: &str, text: &str, cursor: usize, slices: &[usize]) -> Outcome {
    let sliced = !slices.is_empty();
    let render = json!({"text": text, "cursor": cursor, "slices": slices});
    let depth = g::nesting_depth(text);
    if depth > 64 {
        ctx.discard("text nests deeper than 64 (outside the statement)");
        return Outcome::Discard;
    }
    ctx.class(&format!("B:{}:{}", kind, gen_class));
    let fail = |stage: &str, culprit: String, detail: String| {
        Outcome::fail(format!("C06|text|{}|panic|{}", stage, culprit), detail, render.clone())
    };
    // scanner
    let toks = match guard(|| lex::scan(text)) {
        Err(p) => return fail("scan", rg::culprit_window(text, &scan_panics), format!("lex::scan({:?}) panicked: {}", text, p)),
        Ok(Ok(t)) => Some(t.len()),
        Ok(Err(e)) => {
            if let Err(p) = guard(|| format!("{} {:?}", e, e)) {
                return fail("scan-error-render", rg::culprit_window(text, &|t| matches!(lex::scan(t), Err(e) if guard(|| e.to_string()).is_err())), format!("the error of lex::scan({:?}) cannot be rendered: {}", text, p));
            }
            None
        }
    };
    // highlighter
    let hl = ReplHighlighter::new();
    if let Err(p) = guard(|| (hl.highlight(text, cursor).len(), hl.highlight_check(text, cursor))) {
        return fail("highlight", rg::culprit_window(text, &highlight_panics), format!("highlight / highlight_check({:?}, {}) panicked: {}", text, cursor, p));
    }
    // parser + evaluator, datum by datum
    let rep = eval_text_guarded(text, TEXT_BUDGET, if sliced { Some(slices) } else { None });
    if let Some(why) = &rep.discard {
        ctx.discard(why);
        return Outcome::Discard;
    }
    if let Some((stage, detail, at)) = rep.fail {
        // the culprit is looked for in the datum at which it happened, not in what precedes it
        let at = if at.is_empty() { text.to_string() } else { at };
        let culprit = match stage.as_str() {
            "parse_text" | "parse-error-render" => rg::culprit_window(&at, &parse_panics),
            "Vm::new" => "-".to_string(),
            _ => eval_culprit(&stage, &at),
        };
        let kind = if stage.ends_with("canary") {
            "canary"
        } else if stage.ends_with("render") {
            "render"
        } else if stage.ends_with("abort") {
            "abort"
        } else {
            "panic"
        };
        return Outcome::fail(format!("C06|text|{}|{}|{}", stage, kind, culprit), detail, render);
    }
    if rep.over_budget {
        ctx.class("B:eval:budget-exhausted (never a failure)");
    }
    if sliced {
        ctx.class("B:eval:sliced");
    }
    if toks.is_none() {
        ctx.class("B:scan:error");
    }
    if rep.forms > 0 {
        ctx.class("B:eval:some-datum-evaluated");
    }
    if rep.values > 0 {
        ctx.class("B:eval:some-value");
    }
    // non-trivial: the text got past the reader into the compiler (a form was evaluated and the
    // outcome is not just an unbound variable), or it does not scan (the error path)
    if rep.compile_reached || toks.is_none() {
        ctx.nontrivial_str(&format!("{}:{}", kind, text));
        ctx.class("B:nontrivial");
    }
    ctx.sample(|| render.clone());
    Outcome::Pass
}

/// Replay of a text case: in a forked child, so that a stall or an allocation failure (the text
/// may be a diverging or memory-hungry program: never a failure of this domain) is told apart
/// from a crash.
fn replay_text(ctx: &Ctx, kind: &str, payload: &Value) -> Outcome {
    let bytes = unhex(payload["bytes"].as_str().unwrap_or(""));
    if std::env::var_os("VERIF_SHOW").is_some() {
        // `VERIF_SHOW=1 ./check --replay <file>` prints the text before running it (abort triage)
        let mut c = Choices::new(&bytes);
        eprintln!("text: {:?}", gen_text(kind, &mut c).0);
    }
    let kind2 = kind.to_string();
    let out = run_forked(|| match text_outcome(ctx, &kind2, &bytes) {
        Outcome::Fail { sig, detail, .. } => json!({"sig": sig, "detail": detail}).to_string(),
        _ => json!({"pass": true}).to_string(),
    });
    match out {
        Forked::Hang => Outcome::Discard,
        Forked::Abort { signal, stderr } => {
            if stderr.contains("memory allocation of") || stderr.contains("out of memory") {
                Outcome::Discard
            } else {
                Outcome::fail(format!("C06|text|{}|abort", kind), format!("killed the process (signal {}): {}", signal, stderr), payload.clone())
            }
        }
        Forked::Done(t) => {
            let v: Value = serde_json::from_str(&t).unwrap_or(Value::Null);
            match v["sig"].as_str() {
                Some(sig) => Outcome::fail(sig, v["detail"].as_str().unwrap_or(""), payload.clone()),
                None => Outcome::Pass,
            }
        }
    }
}

fn domain_b(ctx: &Ctx) {
    SLOT.with(|s| *s.borrow_mut() = None);
    ctx.journal_bytes.set(true);
    let n = |q: u32, t: u32| ctx.tier.pick(q, t) / ctx.nshards.max(1) as u32 + 1;
    ctx.run_bytes("text-uni", n(4_000, 400_000), 200, |c, b| text_outcome(c, "text-uni", b));
    ctx.run_bytes("text-soup", n(5_000, 500_000), 96, |c, b| text_outcome(c, "text-soup", b));
    ctx.run_bytes("text-mut", n(5_000, 500_000), 160, |c, b| text_outcome(c, "text-mut", b));
    ctx.run_bytes("text-evalsoup", n(8_000, 800_000), 128, |c, b| text_outcome(c, "text-evalsoup", b));
    ctx.run_bytes("text-session", n(3_000, 200_000), 24, |c, b| text_outcome(c, "text-session", b));
    ctx.journal_bytes.set(false);
}

// ---------------------------------------------------------------------------------------------

/// Every palette expression must evaluate, in a fresh Vm, to a value of the kind its class says
/// (a palette that silently stopped producing, say, an integer-valued Rational would hollow out
/// the sweep). A harness error, not a finding: panics.
fn validate_palette() {
    let mut slot = fresh_slot().expect("Vm::new");
    for pal in PALETTE {
        if pal.group == Group::Circ {
            continue; // its value cannot be converted
        }
        let cell = parse_one(pal.expr);
        let vm = &mut slot.vm;
        let v = guard(|| {
            vm.prepare_eval(&cell)?;
            vm.run_count(CANARY_BUDGET)
        });
        let c = match v {
            Ok(Ok(Some(c))) => c,
            other => panic!("palette expression {} does not evaluate: {:?}", pal.expr, other.map(|r| r.map(|_| ()))),
        };
        let ok = match (&pal.group, &c) {
            (Group::Bool, Cell::Bool(_)) => true,
            (Group::Nil, Cell::Nil) => true,
            (Group::Int, Cell::Number(Number::Fixnum(v))) => pal.int == Some(*v as i128),
            (Group::Big, Cell::Number(Number::BigInt(b))) => pal.int.map(|v| v.to_string()) == Some(b.to_string()),
            (Group::Rat, Cell::Number(Number::Rational(r))) => {
                let intv = *r.denom() == 1;
                intv == pal.class.contains("int-valued") && (!intv || pal.int == Some(*r.numer() as i128))
            }
            (Group::Flo, Cell::Number(Number::Float(f))) => match pal.class {
                "flo:+inf" => *f == f64::INFINITY,
                "flo:-inf" => *f == f64::NEG_INFINITY,
                "flo:nan" => f.is_nan(),
                "flo:-0" => *f == 0.0 && f.is_sign_negative(),
                _ => f.is_finite() && pal.int.map(|v| v as f64 == *f).unwrap_or(true),
            },
            (Group::Char, Cell::Char(ch)) => ch.is_ascii() != pal.class.contains("non-ascii"),
            (Group::Str, Cell::String(s)) => s.is_empty() == (pal.class == "str:empty"),
            (Group::Sym, Cell::Symbol(_)) => true,
            (Group::Vector, Cell::Vector(v)) => v.is_empty() == (pal.class == "vec:empty"),
            (Group::List, Cell::Pair(_, _)) => true,
            (Group::Proc, Cell::Procedure(_)) => true,
            (Group::Cont, Cell::Continuation) => true,
            (Group::Macro, Cell::Macro) => true,
            (Group::Void, Cell::Void) => true,
            _ => false,
        };
        if !ok {
            panic!("palette expression {} (class {}) evaluates to {:?}", pal.expr, pal.class, c);
        }
    }
}

impl Prop for C06 {
    fn id(&self) -> &'static str {
        "C06"
    }
    fn rule(&self) -> &'static str {
        "A (structured): one call (proc arg ...) per case; proc = every global procedure of the running Vm (builtin and prelude), arguments = palette expressions (c06gen::PALETTE: every value kind and the boundary values of the statement; when a container expression occurs at two positions the call is also made with one shared object at those positions); arity 0..2 exhaustive over the palette, arity 3..5 sampled with arguments aimed at the kinds the positions want (thorough: arity 3 exhaustive over the palette for the procedures that take 3 arguments, arity 4..5 sampled). Non-trivial: the call got past the arity check (its outcome is not the arity error); distinct by (procedure, argument-class tuple). B (text): a case is a generated text (random Unicode, token soup, mutated corpus program, evaluation-oriented soup, or a session in which a continuation captured under up to 300 pending calls is stored, evaluations fail, and the continuation is invoked from later forms) + cursor + slice budgets; non-trivial when a datum reached the compiler with an outcome other than an unbound variable, or the text does not scan; distinct by text."
    }
    fn assumptions(&self) -> Vec<&'static str> {
        vec![
            "allocation sizes and exponents are bounded as in the statement: (make-vector n ..), (make-string n ..) with n <= 10^6; (expt b e) with e <= 10^6, and e <= 1000 when b is an exact integer of magnitude > 2 (bits(b) * e stays near 10^6); no other procedure takes a size",
            "circular lists and self-containing vectors go only to list?, length, equal?, display, write and are the value of an evaluation",
            "a structured call that exhausts 200000 instructions is a failure (kind budget): its arguments are small and finite, the palette's procedures terminate",
            "cells whose no-return signature is a listed finding are not executed in the sweep; their reproducers run in the regression tier in a forked child (2 s CPU limit, address-space limit)",
            "text domain: texts nesting deeper than 64 are discarded; evaluation is budgeted in instructions (20000 per datum), exhaustion, stalls and allocation failures are never failures there",
            "an arity error raised inside a prelude procedure counts as trivial (slight undercount of non-trivial cases)",
        ]
    }
    fn case_timeout_s(&self) -> u64 {
        // a case takes well under a second; the margin is for a busy machine (stalls of several
        // seconds have been seen), because a false alarm costs a restart of the whole shard
        60
    }
    fn replay_timeout_s(&self) -> u64 {
        60
    }
    fn hang_is_violation(&self) -> bool {
        true
    }
    fn alloc_failure_is_nontermination(&self) -> bool {
        true
    }
    fn can_be_exhaustive(&self, _tier: Tier) -> bool {
        false
    }
    fn run(&self, ctx: &Ctx) {
        limit_address_space(AS_LIMIT_BYTES);
        if ctx.shard == 0 {
            validate_palette();
        }
        // C06_ONLY=A|B: profiling aid
        let only = std::env::var("C06_ONLY").unwrap_or_default();
        if only != "B" {
            domain_a(ctx);
        }
        if only != "A" {
            domain_b(ctx);
        }
    }
    fn replay(&self, ctx: &Ctx, kind: &str, payload: &Value) -> Outcome {
        match kind {
            "call" => replay_call(payload),
            "probe" => {
                // debugging aid: print the raw result of every form of payload.text
                let mut slot = fresh_slot().expect("Vm::new");
                let mut rest: Option<&str> = payload["text"].as_str();
                while let Some(t) = rest {
                    if t.trim().is_empty() {
                        break;
                    }
                    let (cell, r) = parse::parse_text(t).expect("probe text");
                    rest = r;
                    let vm = &mut slot.vm;
                    let out = guard(|| {
                        vm.prepare_eval(&cell)?;
                        vm.run_count(BUDGET)
                    });
                    println!("{:#} => {:?}", cell, out);
                }
                Outcome::Pass
            }
            "setup" => Outcome::Pass,
            "text-literal" => {
                let slices: Vec<usize> = payload["slices"].as_array().map(|a| a.iter().filter_map(|x| x.as_u64()).map(|x| x as usize).collect()).unwrap_or_default();
                text_check(ctx, "text-literal", "literal", payload["text"].as_str().unwrap_or(""), payload["cursor"].as_u64().unwrap_or(0) as usize, &slices)
            }
            k if k.starts_with("text-") => replay_text(ctx, k, payload),
            _ => Outcome::Discard,
        }
    }
}
