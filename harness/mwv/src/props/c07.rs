//! C07 — a failed evaluation leaves no trace beyond its completed effects.
//!
//! Domain: generated sessions (C01/C05 generator) with failing forms injected
//! at random positions: run-time failures of every kind (unbound variable,
//! wrong type, wrong arity, user error, non-procedure, index) at call depth
//! 0..200, inside or outside a call/cc receiver, preceded in the same form by
//! effects that complete (set! of witness globals); compile-time failures (bad
//! syntax) and read errors (unbalanced text); k consecutive failures.
//! Oracles: (1) reference interpreter: every later form returns what it returns
//! after the completed effects only; (2) the stack trace of a failing form
//! equals its trace in a fresh VM that only performed the completed effects;
//! (3) resources: stack pointer, stack capacity and heap do not grow with the
//! number of failures, and a later success leaves sp at its fresh value.

use crate::ctx::{Ctx, Outcome, Tier};
use crate::props::c13::no_probe_cfg;
use crate::props::Prop;
use crate::session::{render_session, run_ri, FormResult, RunOpts, SutSession};
use crate::sut::guard;
use mwv_core::choice::{unhex, Choices};
use mwv_core::pg::Gen;
use mwv_core::ri::Outcome as RiOutcome;
use mwv_core::sx::{read, read_all, Sx};
use serde_json::{json, Value};

pub struct C07;

#[derive(Clone, Debug)]
enum Item {
    /// ordinary generated form
    Plain(Sx),
    /// run-time failure: the whole form, and the form that performs only its completed effects
    /// `form` may end in effects that are never reached (`late`); `ri_form` is the form without them
    Failing { form: Sx, ri_form: Sx, effects_only: Sx, kind: &'static str, depth: usize, in_callcc: bool, late: &'static str },
    /// a form the reference interpreter is not asked about (it asks for something a failed
    /// evaluation never got to define): compared between the real history and the VM that only
    /// performed the completed effects
    Probe(Sx),
    /// compile-time failure (no effects)
    BadSyntax(Sx),
    /// read error: raw text
    BadText(String),
}

const SETUP: &str = "(define c07-a 0) (define c07-b '()) (define (c07-deep n thunk) (if (= n 0) (thunk) (+ 1 (c07-deep (- n 1) thunk)))) (define c07-k #f) (define (c07-cap n) (if (= n 0) (call/cc (lambda (c) (set! c07-k c) 0)) (+ 1 (c07-cap (- n 1)))))";

const FAIL_KINDS: [(&str, &str); 7] = [
    ("unbound-variable", "c07-undefined-variable"),
    ("car-of-non-pair", "(car 5)"),
    ("wrong-arity", "((lambda (x) x))"),
    ("user-error", "(error \"boom\" 1 2)"),
    ("call-of-non-procedure", "(5 6)"),
    ("vector-index", "(vector-ref (vector 1 2) 9)"),
    ("wrong-arity-rest", "((lambda (x y . z) x) 1)"),
];

/// failures at compile time whose abandoned compilation has already allocated (literals, nested lambdas)
const COMPILE_FAILS: [(&str, &str); 3] = [
    ("compile-error-after-literal", "(let ((x '(1 2 3 4 5 6 7 8 9 10))) (if))"),
    ("compile-error-in-nested-lambda", "(lambda (x) (lambda (y) \"a string literal\" '#(1 2 3) (lambda)))"),
    ("compile-error-in-quasiquote", "`(1 2 3 ,(if) 4 5)"),
];

const BAD_SYNTAX: [&str; 6] = ["(if)", "(lambda)", "(let ((x)) x)", "(define)", "()", "(set! 5 6)"];
const BAD_TEXT: [&str; 4] = ["(+ 1", "(car '(1 2)", ")", "\"abc"];

fn gen_items(bytes: &[u8]) -> (Vec<Item>, Option<usize>) {
    let mut c = Choices::new(bytes);
    // half of the sessions are driven the way the wasm front end drives the VM:
    // prepare_eval + run_count(budget) until done
    let slice = if c.flip() { Some(*c.pick(&[1usize, 7, 40, 100, 1000][..])) } else { None };
    // a continuation captured under `d` pending calls before the failures and re-entered
    // after each of them (the saved stack of a deep one is longer than a fresh VM stack)
    let deep_k = if c.chance(128) { Some(*c.pick(&[10usize, 60, 100, 300][..])) } else { None };
    let nfail = 1 + c.below(4);
    // decide the injected failures first (so that shrinking the tail shrinks the program)
    let mut fails: Vec<Item> = vec![];
    for i in 0..nfail {
        match c.weighted(&[10, 2, 1]) {
            0 => {
                let (kind, expr) = FAIL_KINDS[c.below(FAIL_KINDS.len())];
                let depth = *c.pick(&[0usize, 1, 3, 20, 100, 200][..]);
                let in_callcc = c.chance(60);
                let neff = c.below(3);
                let mut effects = vec![];
                for j in 0..neff {
                    if c.flip() {
                        effects.push(read("(set! c07-a (+ c07-a 1))").unwrap());
                    } else {
                        effects.push(read(&format!("(set! c07-b (cons 'e{}-{} c07-b))", i, j)).unwrap());
                    }
                }
                let fail = read(&format!("(c07-deep {} (lambda () {}))", depth, expr)).unwrap();
                let mut body = vec![Sx::sym("begin")];
                body.extend(effects.clone());
                body.push(fail);
                let ri_body = body.clone();
                // effects *after* the failing expression: never reached, so they must leave no trace
                let late = if in_callcc { *c.pick(&["none", "none", "set!"][..]) } else { *c.pick(&["none", "set!", "define", "define-syntax", "define-procedure"][..]) };
                match late {
                    "set!" => body.push(read("(set! c07-a 999)").unwrap()),
                    "define" => body.push(read("(define c07-late 1)").unwrap()),
                    "define-procedure" => body.push(read("(define (c07-late-proc) 1)").unwrap()),
                    "define-syntax" => body.push(read("(define-syntax c07-late-mac (syntax-rules () ((_ x) 'expanded)))").unwrap()),
                    _ => {}
                }
                let mut form = Sx::List(body);
                let mut ri_form = Sx::List(ri_body);
                let mut eff_only = {
                    let mut b = vec![Sx::sym("begin")];
                    b.extend(effects);
                    b.push(Sx::Bool(false));
                    Sx::List(b)
                };
                if in_callcc {
                    form = Sx::call("call/cc", vec![Sx::List(vec![Sx::sym("lambda"), Sx::List(vec![Sx::sym("k")]), form])]);
                    ri_form = Sx::call("call/cc", vec![Sx::List(vec![Sx::sym("lambda"), Sx::List(vec![Sx::sym("k")]), ri_form])]);
                    eff_only = Sx::call("call/cc", vec![Sx::List(vec![Sx::sym("lambda"), Sx::List(vec![Sx::sym("k")]), eff_only])]);
                }
                fails.push(Item::Failing { form, ri_form, effects_only: eff_only, kind, depth, in_callcc, late });
            }
            1 => fails.push(Item::BadSyntax(read(BAD_SYNTAX[c.below(BAD_SYNTAX.len())]).unwrap_or(Sx::List(vec![])))),
            _ => fails.push(Item::BadText(BAD_TEXT[c.below(BAD_TEXT.len())].to_string())),
        }
    }
    let repeat = if c.chance(40) { 1 + c.below(12) } else { 1 };
    let positions: Vec<usize> = (0..nfail).map(|_| c.below(8)).collect();
    let sess = {
        let mut g = Gen::new(&mut c, no_probe_cfg());
        g.session()
    };
    let mut items: Vec<Item> = read_all(SETUP).unwrap().into_iter().map(Item::Plain).collect();
    let probe = read("(list c07-a c07-b)").unwrap();
    let reenter = read("(c07-k 5)").unwrap();
    if let Some(d) = deep_k {
        items.push(Item::Plain(read(&format!("(c07-cap {})", d)).unwrap()));
        items.push(Item::Plain(reenter.clone()));
    }
    let n = sess.forms.len();
    for (i, f) in sess.forms.iter().enumerate() {
        for (fi, p) in positions.iter().enumerate() {
            if p % (n + 1) == i {
                for _ in 0..(if fi == 0 { repeat } else { 1 }) {
                    items.push(fails[fi].clone());
                }
                items.push(Item::Plain(probe.clone()));
                items.extend(late_probes(&fails[fi]));
                if deep_k.is_some() {
                    items.push(Item::Plain(reenter.clone()));
                }
            }
        }
        items.push(Item::Plain(f.clone()));
    }
    for (fi, p) in positions.iter().enumerate() {
        if p % (n + 1) == n {
            items.push(fails[fi].clone());
            items.extend(late_probes(&fails[fi]));
        }
    }
    items.push(Item::Plain(probe));
    if deep_k.is_some() {
        items.push(Item::Plain(reenter));
    }
    (items, slice)
}

/// what to ask after a failing form whose unreached tail would have defined something
fn late_probes(it: &Item) -> Vec<Item> {
    let texts: &[&str] = match it {
        Item::Failing { late: "define", .. } => &["c07-late"],
        Item::Failing { late: "define-procedure", .. } => &["(c07-late-proc)"],
        Item::Failing { late: "define-syntax", .. } => &["(c07-late-mac 1)", "(begin (define (c07-late-mac y) (list 'called y)) (c07-late-mac 2))"],
        _ => &[],
    };
    texts.iter().map(|t| Item::Probe(read(t).unwrap())).collect()
}

fn render(items: &[Item]) -> Value {
    json!(items
        .iter()
        .map(|it| match it {
            Item::Plain(f) => f.to_string(),
            Item::Failing { form, .. } => format!("{}   ; fails", form),
            Item::BadSyntax(f) => format!("{}   ; bad syntax", f),
            Item::BadText(t) => format!("{}   ; read error", t),
            Item::Probe(f) => format!("{}   ; compared with the VM that only performed the completed effects", f),
        })
        .collect::<Vec<_>>())
}

type Trace = Vec<(Option<String>, Option<String>)>;

fn trace_of(s: &SutSession) -> Option<Trace> {
    s.vm.last_stacktrace().map(|t| {
        t.frames
            .iter()
            .map(|f| (f.name.clone(), f.desc.as_ref().map(|d| format!("{:#}", d))))
            .collect()
    })
}

fn eval_item(s: &mut SutSession, it: &Item) -> FormResult {
    match it {
        Item::Plain(f) | Item::BadSyntax(f) | Item::Probe(f) | Item::Failing { form: f, .. } => s.eval_form(f).0,
        Item::BadText(t) => {
            let vm = &mut s.vm;
            match guard(|| vm.eval_text(t).map(|_| ()).map_err(|e| e.to_string())) {
                Ok(Ok(())) => FormResult::Value(Sx::Bool(true)),
                Ok(Err(e)) => FormResult::Failed(e),
                Err(p) => FormResult::Panic(p),
            }
        }
    }
}

fn check(ctx: &Ctx, items: &[Item], slice: Option<usize>) -> Outcome {
    let mut rendered = render(items);
    if let Some(b) = slice {
        rendered = json!({"forms": rendered, "driven_in_slices_of": b});
    }
    // reference: the forms the RI can judge (everything except bad syntax / bad text, which have no effects)
    let ri_forms: Vec<Sx> = items
        .iter()
        .filter_map(|it| match it {
            Item::Plain(f) => Some(f.clone()),
            Item::Failing { ri_form, .. } => Some(ri_form.clone()),
            _ => None,
        })
        .collect();
    let ri = run_ri(&ri_forms, 300_000);
    let mode = match slice {
        Some(b) => crate::session::EvalMode::Sliced(vec![b]),
        None => crate::session::EvalMode::Whole,
    };
    let mut s = SutSession::new(RunOpts { mode, ..RunOpts::default() });
    let fresh_sp = s.vm.verif_stack().get_sp();
    let fresh_cap = s.vm.verif_stack().len();
    let mut ri_idx = 0usize;
    let mut failures_seen = 0u32;
    let mut later_success_after_failure = false;
    let mut traces: Vec<(usize, Option<Trace>)> = vec![];
    let mut processed = 0usize;
    let mut probe_results: Vec<(usize, FormResult)> = vec![];
    for (i, it) in items.iter().enumerate() {
        let judged = matches!(it, Item::Plain(_) | Item::Failing { .. });
        if judged && ri_idx >= ri.comparable {
            break; // reference undetermined / over budget from here on
        }
        let r = eval_item(&mut s, it);
        s.cap.take();
        let what = match it {
            Item::Plain(f) => f.to_string(),
            Item::Failing { form, .. } => form.to_string(),
            Item::BadSyntax(f) | Item::Probe(f) => f.to_string(),
            Item::BadText(t) => t.clone(),
        };
        processed = i + 1;
        if let FormResult::Panic(p) = &r {
            return Outcome::fail("C07|panic", format!("item #{} `{}` panicked: {}", i, what, p), rendered);
        }
        if matches!(r, FormResult::OverBudget) {
            ctx.discard("over budget");
            return Outcome::Discard;
        }
        match it {
            Item::Probe(_) => probe_results.push((i, r.clone())),
            Item::BadSyntax(_) | Item::BadText(_) => {
                if !matches!(r, FormResult::Failed(_)) {
                    // whether these are errors is not this property's business
                    ctx.class("bad-form-accepted");
                } else {
                    failures_seen += 1;
                    // a read or compile error: whatever last_stacktrace() says now must be what
                    // it says in a VM that only performed the completed effects
                    if traces.iter().filter(|(p, _)| !matches!(items[*p], Item::Failing { .. })).count() < 2 {
                        traces.push((i, trace_of(&s)));
                    }
                }
            }
            _ => {
                let expected = &ri.outcomes[ri_idx];
                ri_idx += 1;
                match (expected, &r) {
                    (RiOutcome::Value(e), FormResult::Value(g)) => {
                        if !e.matches(g) {
                            let kind = if failures_seen > 0 { "later-form-value" } else { "value-before-any-failure" };
                            return Outcome::fail(
                                format!("C07|{}", kind),
                                format!("item #{} `{}` after {} failed evaluation(s): expected {} got {}", i, what, failures_seen, e, g),
                                rendered,
                            );
                        }
                        if failures_seen > 0 {
                            later_success_after_failure = true;
                            let sp = s.vm.verif_stack().get_sp();
                            if sp != fresh_sp {
                                return Outcome::fail(
                                    "C07|sp-after-later-success",
                                    format!("after {} failure(s) a successful form `{}` leaves sp={} (fresh VM: {})", failures_seen, what, sp, fresh_sp),
                                    rendered,
                                );
                            }
                        }
                    }
                    (RiOutcome::Fail(_), FormResult::Failed(_)) => {
                        failures_seen += 1;
                        if matches!(it, Item::Failing { .. }) && traces.iter().filter(|(p, _)| matches!(items[*p], Item::Failing { .. })).count() < 3 {
                            traces.push((i, trace_of(&s)));
                        }
                    }
                    (RiOutcome::Value(e), FormResult::Failed(err)) => {
                        let kind = if failures_seen > 0 { "later-form-failed" } else { "failed-before-any-failure" };
                        return Outcome::fail(format!("C07|{}", kind), format!("item #{} `{}`: expected {} got error \"{}\"", i, what, e, err), rendered);
                    }
                    (RiOutcome::Fail(k), FormResult::Value(g)) => {
                        return Outcome::fail("C07|expected-failure", format!("item #{} `{}`: expected failure ({}) got {}", i, what, k, g), rendered);
                    }
                    _ => {}
                }
            }
        }
        // resources: a failure must not leave depth behind
        if failures_seen > 0 {
            let sp = s.vm.verif_stack().get_sp();
            if sp != fresh_sp && matches!(r, FormResult::Failed(_)) {
                return Outcome::fail(
                    "C07|sp-after-failure",
                    format!("after failing item #{} `{}` sp={} (fresh VM: {}); failures so far {}", i, what, sp, fresh_sp, failures_seen),
                    rendered,
                );
            }
        }
    }
    let _ = fresh_cap;
    // stack traces: each failing form's trace must equal the trace in a fresh VM that
    // performed only the completed effects of the earlier failing forms
    for (pos, trace) in traces.iter() {
        let mut f = SutSession::new(RunOpts::default());
        let mut ok = true;
        for it in items[..*pos].iter() {
            let r = match it {
                Item::Plain(x) => f.eval_form(x).0,
                Item::Failing { effects_only, .. } => f.eval_form(effects_only).0,
                _ => continue,
            };
            if matches!(r, FormResult::Panic(_) | FormResult::OverBudget) {
                ok = false;
                break;
            }
        }
        if !ok {
            continue;
        }
        let _ = eval_item(&mut f, &items[*pos]);
        let t2 = trace_of(&f);
        if &t2 != trace {
            let frames = |t: &Option<Trace>| t.as_ref().map(|t| format!("{} frames", t.len())).unwrap_or_else(|| "no trace".to_string());
            let sig = if matches!(items[*pos], Item::Failing { .. }) { "C07|stack-trace-differs" } else { "C07|stack-trace-after-read-or-compile-error" };
            return Outcome::fail(
                sig,
                format!(
                    "last_stacktrace() after failing item #{}: {} after the real history but {} in a VM that only performed the completed effects",
                    pos,
                    frames(trace),
                    frames(&t2)
                ),
                rendered,
            );
        }
    }
    // probes: the same history in a VM in which every injected failing form is replaced by its
    // completed effects (and the read/compile failures are left out) must answer them alike
    if !probe_results.is_empty() {
        let mut g = SutSession::new(RunOpts::default());
        let mut answers: Vec<(usize, FormResult)> = vec![];
        for (i, it) in items[..processed].iter().enumerate() {
            let r = match it {
                Item::Plain(x) => g.eval_form(x).0,
                Item::Failing { effects_only, .. } => g.eval_form(effects_only).0,
                Item::Probe(x) => {
                    let r = g.eval_form(x).0;
                    answers.push((i, r.clone()));
                    r
                }
                _ => continue,
            };
            g.cap.take();
            if matches!(r, FormResult::Panic(_) | FormResult::OverBudget) {
                break;
            }
        }
        for ((i, real), (j, clean)) in probe_results.iter().zip(answers.iter()) {
            let same = match (real, clean) {
                (FormResult::Value(a), FormResult::Value(b)) => a.to_string() == b.to_string(),
                (FormResult::Failed(_), FormResult::Failed(_)) => true,
                _ => false,
            };
            if i == j && !same {
                let what = match &items[*i] {
                    Item::Probe(f) => f.to_string(),
                    _ => String::new(),
                };
                return Outcome::fail(
                    "C07|uncompleted-effect-visible",
                    format!("item #{} `{}`: {} after the real history but {} in a VM that only performed the completed effects", i, what, real.short(), clean.short()),
                    rendered,
                );
            }
        }
    }
    if ctx.counting() {
        for it in items[..processed].iter() {
            if let Item::Failing { late, .. } = it {
                if *late != "none" {
                    ctx.class(&format!("unreached-effect-after-the-failure:{}", late));
                }
            }
        }
        if slice.is_some() {
            ctx.class("session-driven-in-slices");
        }
        let nfail = items.iter().filter(|i| !matches!(i, Item::Plain(_))).count();
        ctx.class_n("injected-failures", nfail as u64);
        for it in items {
            if let Item::Plain(f) = it {
                if let Some(d) = f.to_string().strip_prefix("(c07-cap ") {
                    ctx.class(&format!("continuation-captured-{}-calls-deep-re-entered-after-each-failure", d.trim_end_matches(')')));
                }
            }
            if let Item::Failing { kind, depth, in_callcc, .. } = it {
                ctx.class(&format!("kind:{}", kind));
                ctx.class(&format!("depth:{}", depth));
                if *in_callcc {
                    ctx.class("inside-call/cc-receiver");
                }
            }
        }
        if later_success_after_failure || failures_seen >= 2 {
            ctx.nontrivial_str(&rendered.to_string());
        }
        ctx.sample(|| rendered.clone());
    }
    Outcome::Pass
}

fn case(ctx: &Ctx, bytes: &[u8]) -> Outcome {
    let (items, slice) = gen_items(bytes);
    check(ctx, &items, slice)
}

/// k consecutive failures at depth d: sp, stack capacity and heap must not grow with k.
fn ladder(ctx: &Ctx, depth: usize, kind: usize, k: usize) -> Option<(String, String, Value)> {
    let compile_time = kind >= FAIL_KINDS.len();
    let (kname, expr) = if compile_time { COMPILE_FAILS[(kind - FAIL_KINDS.len()) % COMPILE_FAILS.len()] } else { FAIL_KINDS[kind] };
    let mut s = SutSession::new(RunOpts::default());
    for f in read_all(SETUP).unwrap() {
        s.eval_form(&f);
    }
    let fail = if compile_time { read(expr).unwrap() } else { read(&format!("(c07-deep {} (lambda () {}))", depth, expr)).unwrap() };
    let payload = json!({"ladder": {"depth": depth, "kind": kname, "k": k}});
    let mut after_one = (0usize, 0usize, 0usize, 0usize);
    let mut first_cap = 0usize;
    for i in 0..k {
        let (r, _) = s.eval_form(&fail);
        if let FormResult::Panic(p) = r {
            return Some(("C07|panic".into(), format!("failure #{} panicked: {}", i, p), payload));
        }
        if !matches!(r, FormResult::Failed(_)) {
            // not a failure in this build: nothing to measure
            ctx.class("ladder-form-did-not-fail");
            return None;
        }
        // live cells: measured right after a forced collection (the collector only runs
        // by itself above 75% utilisation, so garbage of earlier failures may still be around)
        if i == 0 || i + 1 == k {
            s.vm.verif_force_gc();
        }
        let h = s.vm.verif_heap();
        let used = h.verif_cells().len() - h.verif_free_list().len();
        let frames = s.vm.last_stacktrace().map(|t| t.frames.len()).unwrap_or(0);
        let now = (s.vm.verif_stack().get_sp(), s.vm.verif_stack().len(), used, frames);
        let cap = s.vm.verif_heap().verif_cells().len();
        if i == 0 {
            first_cap = cap;
        } else if cap > first_cap + 8192 {
            return Some((
                "C07|accumulates|heap-capacity".into(),
                format!("heap capacity {} cells after one failure of depth {} ({}), {} after {} failures (no collection ever runs on the failure path)", first_cap, depth, kname, cap, i + 1),
                payload,
            ));
        }
        if i == 0 {
            after_one = now;
        } else if now.0 > after_one.0 || now.1 > after_one.1 || now.3 > after_one.3 || (i + 1 == k && now.2 > after_one.2 + 64) {
            let what = if now.0 > after_one.0 { "sp" } else if now.1 > after_one.1 { "stack-capacity" } else if now.3 > after_one.3 { "trace-frames" } else { "heap" };
            return Some((
                format!("C07|accumulates|{}", what),
                format!(
                    "after {} failures of depth {} ({}): sp={} capacity={} used={} trace frames={}; after one: sp={} capacity={} used={} frames={}",
                    i + 1, depth, kname, now.0, now.1, now.2, now.3, after_one.0, after_one.1, after_one.2, after_one.3
                ),
                payload,
            ));
        }
    }
    ctx.count(1);
    ctx.nontrivial_str(&format!("ladder:{}:{}:{}", depth, kname, k));
    ctx.class(&format!("ladder-k:{}", k));
    None
}

impl Prop for C07 {
    fn id(&self) -> &'static str {
        "C07"
    }
    fn rule(&self) -> &'static str {
        "generated sessions (C01/C05 generator) with 1-4 injected failing forms (7 run-time error kinds at call depth 0/1/3/20/100/200, inside or outside a call/cc receiver, after 0-2 completed effects and optionally followed by an effect that is never reached - set!, define, define of a procedure, define-syntax - whose absence is probed afterwards against a VM that only performed the completed effects; bad-syntax forms; unbalanced texts; one of them repeated up to 12 times) and witness probes after each; in half of the sessions a continuation captured under 10/60/100/300 pending calls before the failures is re-entered after each of them; plus a ladder of k consecutive failures, k in {1,2,10,100,1000} x depth x kind (7 run-time kinds, and 3 compile-time failures whose abandoned compilation has already allocated literals or nested lambdas). Non-trivial: a failing form is followed by a succeeding form that is compared with the reference, or by another failing form; distinct by session text."
    }
    fn assumptions(&self) -> Vec<&'static str> {
        vec![
            "reference interpreter performs the same completed effects and fails at the same point; failing forms are built so that their completed-effects prefix is known by construction",
            "stack traces are compared as lists of (name, formals) frames between the real history and a fresh VM that performed only the completed effects",
        ]
    }
    fn run(&self, ctx: &Ctx) {
        ctx.journal_bytes.set(true);
        let cases = ctx.tier.pick(600u32, 9_000u32);
        ctx.run_bytes("session", cases, 1536, case);
        // ladder
        let ks: &[usize] = &[1, 2, 10, 100, 1000];
        let mut idx = 0;
        for depth in [0usize, 5, 100] {
            let kinds = if depth == 0 { FAIL_KINDS.len() + COMPILE_FAILS.len() } else { FAIL_KINDS.len() };
            for kind in 0..kinds {
                let ks: &[usize] = if kind >= FAIL_KINDS.len() { &[1, 2, 10, 100, 1000, 5000] } else { ks };
                for k in ks {
                    // quick tier: the 1000-failure rung only for the deepest chain and three kinds
                    if ctx.tier == Tier::Quick && *k == 1000 && (depth != 100 || kind > 2) && kind < FAIL_KINDS.len() {
                        continue;
                    }
                    idx += 1;
                    if idx % ctx.nshards != ctx.shard {
                        continue;
                    }
                    ctx.beat();
                    if let Some((sig, detail, payload)) = ladder(ctx, depth, kind, *k) {
                        ctx.report("ladder", payload, &sig, &detail);
                    }
                }
            }
        }
    }
    fn replay(&self, ctx: &Ctx, kind: &str, payload: &Value) -> Outcome {
        match kind {
            "ladder" => {
                let l = &payload["ladder"];
                let kname = l["kind"].as_str().unwrap_or("");
                let ki = FAIL_KINDS
                    .iter()
                    .position(|(n, _)| *n == kname)
                    .or_else(|| COMPILE_FAILS.iter().position(|(n, _)| *n == kname).map(|i| i + FAIL_KINDS.len()))
                    .unwrap_or(0);
                match ladder(ctx, l["depth"].as_u64().unwrap_or(0) as usize, ki, l["k"].as_u64().unwrap_or(1) as usize) {
                    Some((sig, detail, p)) => Outcome::fail(sig, detail, p),
                    None => Outcome::Pass,
                }
            }
            // a hand-written session: [{"plain"|"bad-syntax"|"bad-text"|"probe": text} | {"failing": text, "effects_only": text, "ri_form"?: text}]
            "items" => {
                let mut items: Vec<Item> = read_all(SETUP).unwrap().into_iter().map(Item::Plain).collect();
                for it in payload["items"].as_array().cloned().unwrap_or_default() {
                    let get = |k: &str| it[k].as_str().and_then(|t| read(t).ok());
                    if let Some(f) = get("plain") {
                        items.push(Item::Plain(f));
                    } else if let Some(f) = get("bad-syntax") {
                        items.push(Item::BadSyntax(f));
                    } else if let Some(t) = it["bad-text"].as_str() {
                        items.push(Item::BadText(t.to_string()));
                    } else if let Some(f) = get("probe") {
                        items.push(Item::Probe(f));
                    } else if let (Some(form), Some(effects_only)) = (get("failing"), get("effects_only")) {
                        let ri_form = get("ri_form").unwrap_or_else(|| form.clone());
                        items.push(Item::Failing { form, ri_form, effects_only, kind: "replayed", depth: 0, in_callcc: false, late: "none" });
                    }
                }
                check(ctx, &items, payload["slice"].as_u64().map(|b| b as usize))
            }
            _ => case(ctx, &unhex(payload["bytes"].as_str().unwrap_or(""))),
        }
    }
}
