//! C08 — exact arithmetic is exact; inexactness is never silently dropped.
//!
//! Domain: operand tuples from the boundary-biased numeric palette
//! (`mwv_core::numeric`), every mathematical value carried in every internal
//! representation that can hold it (fixnum, bignum — also for small values —,
//! integer-valued rational n/1, non-integral rational), injected as
//! `Cell::Number` (a small share through Scheme expressions that reach the
//! same representation). Operations: `+ *` on 2..5 operands, binary `- /`,
//! `abs floor ceiling truncate numerator denominator`, `expt` with exponent
//! 0..64, `quotient remainder modulo` on integers.
//!
//! Oracle: `BigRational` arithmetic. An exact result must equal the true value
//! t; an inexact result is accepted only if t is not representable in
//! marwood's documented exact number model (any integer; otherwise reduced
//! n/d with n in [-2^31, 2^31-1], d in [1, 2^31-1]) and then
//! |r - t| <= 2^-50 * max(|operands|, |t|); quotient/remainder/modulo must be
//! exact; the results for the same mathematical operands in different
//! representations must be the same number.

use crate::ctx::{Ctx, Outcome};
use crate::props::numcommon::{call, num_cell, spell_call, Res, Sut};
use crate::props::Prop;
use mwv_core::choice::{unhex, Choices};
use mwv_core::numeric::*;
use num::bigint::BigInt;
use num::{BigRational, Integer, One, Signed, ToPrimitive, Zero};
use serde_json::{json, Value};
use std::cell::RefCell;

pub struct C08;

const MAX_COMBOS: usize = 12;

#[derive(Clone, Debug)]
struct Case {
    op: Op,
    vals: Vec<BigRational>,
    combos: Vec<Vec<NumRepr>>,
    /// (operand index, bignum? else rational): that operand is injected through its reachability
    /// expression in the first combination where it has the wanted representation
    via: Option<(usize, bool)>,
    landing: bool,
}

struct Fail {
    sig: String,
    detail: String,
    render: Value,
}

fn rat_str(r: &BigRational) -> String {
    if r.is_integer() {
        format!("{}", r.numer())
    } else {
        format!("{}/{}", r.numer(), r.denom())
    }
}

fn parse_rat(s: &str) -> Option<BigRational> {
    match s.split_once('/') {
        Some((n, d)) => {
            let d: BigInt = d.parse().ok()?;
            if d.is_zero() {
                return None;
            }
            Some(BigRational::new(n.parse().ok()?, d))
        }
        None => Some(BigRational::from_integer(s.parse().ok()?)),
    }
}

// ------------------------------------------------------------ generation

fn all_combos(vals: &[BigRational]) -> Vec<Vec<NumRepr>> {
    let per: Vec<Vec<NumRepr>> = vals.iter().map(reprs_of).collect();
    let mut out: Vec<Vec<NumRepr>> = vec![vec![]];
    for p in &per {
        let mut next = vec![];
        for prefix in &out {
            for r in p {
                let mut v = prefix.clone();
                v.push(r.clone());
                next.push(v);
            }
        }
        out = next;
    }
    out
}

fn choose_combos(vals: &[BigRational], c: &mut Choices) -> Vec<Vec<NumRepr>> {
    let per: Vec<Vec<NumRepr>> = vals.iter().map(reprs_of).collect();
    let total: usize = per.iter().map(|p| p.len()).product();
    if total <= MAX_COMBOS {
        return all_combos(vals);
    }
    let mut out: Vec<Vec<NumRepr>> = vec![per.iter().map(|p| p[0].clone()).collect()];
    while out.len() < MAX_COMBOS {
        out.push(per.iter().map(|p| c.pick(&p[..]).clone()).collect());
    }
    out
}

fn cap_bits(v: BigRational, bits: u64) -> BigRational {
    if v.is_integer() && v.numer().bits() > bits {
        let i = v.to_integer();
        BigRational::from_integer(i.clone() >> ((i.bits() - bits) as usize))
    } else {
        v
    }
}

/// Second operand chosen so that `a op b` lands exactly on a boundary value.
fn landing_operand(op: Op, a: &BigRational, c: &mut Choices) -> Option<BigRational> {
    let bs = boundary_ints(false);
    let b = BigRational::from_integer(c.pick(&bs[5..]).clone());
    let x = match op {
        Op::Add => &b - a,
        Op::Sub => a - &b,
        Op::Mul => {
            if a.is_zero() {
                return None;
            }
            &b / a
        }
        Op::Div => {
            if a.is_zero() {
                return None;
            }
            a / &b
        }
        _ => return None,
    };
    if representable(&x) && !(op == Op::Div && x.is_zero()) {
        Some(x)
    } else {
        None
    }
}

const OPS_W: [(Op, u32); 14] = [
    (Op::Add, 5),
    (Op::Mul, 5),
    (Op::Sub, 4),
    (Op::Div, 5),
    (Op::Expt, 3),
    (Op::Quotient, 2),
    (Op::Remainder, 2),
    (Op::Modulo, 2),
    (Op::Abs, 1),
    (Op::Floor, 1),
    (Op::Ceiling, 1),
    (Op::Truncate, 1),
    (Op::Numerator, 1),
    (Op::Denominator, 1),
];

fn gen_case(bytes: &[u8]) -> Case {
    let mut c = Choices::new(bytes);
    let w: Vec<u32> = OPS_W.iter().map(|x| x.1).collect();
    let op = OPS_W[c.weighted(&w)].0;
    let mut landing = false;
    let vals: Vec<BigRational> = match op {
        Op::Add | Op::Mul => {
            let n = 2 + c.weighted(&[6, 2, 1, 1]);
            if n == 2 && c.chance(64) {
                let a = gen_exact(&mut c);
                match landing_operand(op, &a, &mut c) {
                    Some(b) => {
                        landing = true;
                        vec![a, b]
                    }
                    None => vec![a, gen_exact(&mut c)],
                }
            } else {
                // keep every partial product far below the range of a double, so that an
                // unrepresentable true value always has a double within the stated bound
                let cap = if n <= 3 { 256 } else { 128 };
                (0..n).map(|_| cap_bits(gen_exact(&mut c), cap)).collect()
            }
        }
        Op::Sub | Op::Div => {
            let a = gen_exact(&mut c);
            let mut b = if c.chance(64) {
                match landing_operand(op, &a, &mut c) {
                    Some(b) => {
                        landing = true;
                        b
                    }
                    None => gen_exact(&mut c),
                }
            } else {
                gen_exact(&mut c)
            };
            if op == Op::Div && b.is_zero() {
                b = BigRational::one();
            }
            vec![a, b]
        }
        Op::Expt => {
            let base = gen_exact(&mut c);
            let es: [i64; 12] = [0, 1, 2, 3, 4, 7, 16, 31, 32, 33, 63, 64];
            let mut e = if c.flip() { *c.pick(&es) } else { c.range(0, 64) };
            // (exponents whose exact power leaves the 32-bit rationals used to be kept at a probe
            // rate while that overflow was a listed finding; it is repaired, so they run freely.)
            // Now and then a large exponent on a base close to 1.
            if !base.is_integer() && c.chance(24) {
                let r = base.to_f64().map(|f| f.abs()).unwrap_or(0.0);
                if r > 0.5 && r < 2.0 {
                    let big = *c.pick(&[100i64, 647, 700, 1000][..]);
                    if (big as f64 * r.log10()).abs() < 290.0 {
                        e = big;
                    }
                }
            }
            vec![base, rat(e, 1)]
        }
        Op::Quotient | Op::Remainder | Op::Modulo => {
            let a = gen_int(&mut c);
            let mut b = gen_int(&mut c);
            if b.is_zero() {
                b = BigInt::one();
            }
            vec![rat_i(&a), rat_i(&b)]
        }
        _ => vec![gen_exact(&mut c)],
    };
    let combos = choose_combos(&vals, &mut c);
    let via = if c.chance(13) { Some((c.below(vals.len()), c.flip())) } else { None };
    Case { op, vals, combos, via, landing }
}

// ------------------------------------------------------------ signatures

fn is_ratrep(r: &NumRepr) -> bool {
    matches!(r, NumRepr::Rat(_, _))
}

fn in_i32(v: &BigRational) -> bool {
    v.is_integer() && fits_i32(&v.to_integer())
}

fn fits_rational32(v: &BigRational) -> bool {
    fits_i32(v.numer()) && fits_i32(v.denom())
}

fn has_min32(vals: &[BigRational]) -> bool {
    let m = -pow2(31);
    vals.iter().any(|v| *v.numer() == m)
}

/// Does the textbook evaluation of a/b (+|-) c/d over the common denominator
/// lcm(b, d) leave the 32-bit range although the reduced result fits?
fn cross_terms_beyond_i32(op: Op, a: &BigRational, b: &BigRational) -> bool {
    match op {
        Op::Add | Op::Sub => {
            let l = a.denom().lcm(b.denom());
            let x = a.numer() * (&l / a.denom());
            let y = b.numer() * (&l / b.denom());
            let s = if op == Op::Add { &x + &y } else { &x - &y };
            !(fits_i32(&l) && fits_i32(&x) && fits_i32(&y) && fits_i32(&s))
        }
        _ => false,
    }
}

/// Input-derived predicate naming which 32/64-bit limit the operands (or the
/// true result) cross. Part of the signature; never looks at the SUT's answer.
fn predicate(op: Op, reps: &[NumRepr], vals: &[BigRational], t: &BigRational) -> String {
    match op {
        Op::Add | Op::Sub | Op::Mul | Op::Div if vals.len() == 2 => {
            let (ra, rb) = (&reps[0], &reps[1]);
            let (va, vb) = (&vals[0], &vals[1]);
            let (qa, qb) = (is_ratrep(ra), is_ratrep(rb));
            // -2^31 as a numerator only matters where 32-bit rational arithmetic is used, and
            // has only been seen to matter for division (sign normalisation, gcd)
            let min = if op == Op::Div && has_min32(vals) { ",operand-numerator=-2^31" } else { "" };
            if !qa && !qb && op != Op::Div {
                "integer-representations-only".into()
            } else if !qa && !qb && (!in_i32(va) || !in_i32(vb)) {
                "integer-operand-beyond-i32".into()
            } else if (!qa && !in_i32(va)) || (!qb && !in_i32(vb)) {
                "rational-with-integer-beyond-i32".into()
            } else if op != Op::Div
                && ((matches!(ra, NumRepr::Big(_)) && qb && !vb.is_integer())
                    || (matches!(rb, NumRepr::Big(_)) && qa && !va.is_integer()))
            {
                "bignum-with-nonintegral-rational".into()
            } else if !fits_rational32(t) {
                if t.is_integer() {
                    format!("result-integer-beyond-i32{}", min)
                } else {
                    format!("result-beyond-rational32{}", min)
                }
            } else if cross_terms_beyond_i32(op, va, vb) {
                format!("common-denominator-terms-beyond-i32{}", min)
            } else if op == Op::Div && *t.numer() == -pow2(31) {
                // the quotient is exactly -2^31/d: representable, but its magnitude is not
                format!("result-numerator=-2^31{}", min)
            } else {
                format!("within-rational32{}", min)
            }
        }
        Op::Add | Op::Mul | Op::Sub | Op::Div => {
            // variadic: which limit is crossed by the operands or by a partial result.
            // Partial results of every contiguous run of operands are considered, combined
            // with the operand to their left or right, so that no evaluation order is assumed.
            let any_q = reps.iter().any(is_ratrep);
            let int_beyond = reps.iter().zip(vals).any(|(r, v)| !is_ratrep(r) && !in_i32(v));
            let mut partial_beyond = false;
            let n = vals.len();
            for i in 0..n {
                let mut acc = vals[i].clone();
                for j in i..n {
                    if j > i {
                        acc = if op == Op::Add { acc + &vals[j] } else { acc * &vals[j] };
                    }
                    let mut nbrs = vec![];
                    if j + 1 < n {
                        nbrs.push(&vals[j + 1]);
                    }
                    if i > 0 {
                        nbrs.push(&vals[i - 1]);
                    }
                    for v in nbrs {
                        let r = if op == Op::Add { &acc + v } else { &acc * v };
                        if !fits_rational32(&r) || cross_terms_beyond_i32(op, &acc, v) {
                            partial_beyond = true;
                        }
                    }
                }
            }
            let big_q = reps.iter().any(|r| matches!(r, NumRepr::Big(_)))
                && vals.iter().any(|v| !v.is_integer());
            if !any_q {
                "variadic,integer-representations-only".into()
            } else if int_beyond {
                "variadic,rational-with-integer-beyond-i32".into()
            } else if partial_beyond {
                "variadic,partial-result-or-common-denominator-terms-beyond-i32".into()
            } else if big_q {
                "variadic,bignum-with-nonintegral-rational".into()
            } else {
                "variadic,within-rational32".into()
            }
        }
        Op::Expt => {
            let e = vals[1].to_integer();
            let eclass = if e.is_zero() {
                "e=0"
            } else if e.is_one() {
                "e=1"
            } else {
                "e>=2"
            };
            if is_ratrep(&reps[0]) {
                if !fits_rational32(t) {
                    format!("rational-base,num^e-or-den^e-beyond-i32,{}", eclass)
                } else {
                    format!("rational-base,result-within-rational32,{}", eclass)
                }
            } else {
                format!("integer-base,{}", eclass)
            }
        }
        Op::Quotient | Op::Remainder | Op::Modulo => {
            let a = vals[0].to_integer();
            let b = vals[1].to_integer();
            let mut parts: Vec<&str> = vec![];
            let both_q = reps.iter().all(|r| r.class() == "ratint");
            if both_q {
                parts.push("both-integer-valued-rationals");
            }
            if op == Op::Quotient && both_q {
                // one root cause whatever the values are (the quotient of two n/1 is not truncated)
                return parts.join(",");
            }
            let minus_one = b == BigInt::from(-1);
            if a == -pow2(63) && minus_one {
                parts.push("a=-2^63,b=-1");
            } else if a == -pow2(31) && minus_one {
                parts.push("a=-2^31,b=-1");
            }
            if op == Op::Modulo {
                // (a rem b) + b leaves the i32 range although b is inside it
                let r = &a - (&a / &b) * &b;
                if !fits_i32(&(r + &b)) && fits_i32(&b) {
                    parts.push("rem+b-beyond-i32");
                }
            }
            if op == Op::Quotient {
                parts.push(if (&a % &b).is_zero() { "b-divides-a" } else { "b-does-not-divide-a" });
            }
            if parts.is_empty() {
                parts.push("plain");
            }
            parts.join(",")
        }
        _ => {
            // unary on one operand
            let v = &vals[0];
            let mut parts: Vec<&str> = vec![];
            if is_ratrep(&reps[0]) {
                parts.push("rational-representation");
                if op == Op::Abs && *v.numer() == -pow2(31) {
                    parts.push("numerator=-2^31");
                }
                if op != Op::Abs && !fits_i32(&(v.numer().abs() + v.denom())) {
                    parts.push(if v.is_negative() { "negative,abs(num)+den-beyond-i32" } else { "positive,num+den-beyond-i32" });
                }
            } else {
                parts.push("integer-representation");
            }
            parts.join(",")
        }
    }
}

/// `C08|op|predicate|kind|representation classes` — the representation tuple comes last so
/// that one known-finding line (`...|*`) covers the representation pairs that share a root cause.
fn signature(op: Op, reps: &[NumRepr], vals: &[BigRational], t: &BigRational, kind: &str) -> String {
    let rs: Vec<&str> = reps.iter().map(|r| r.class()).collect();
    format!("C08|{}|{}|{}|{}", op.name(), predicate(op, reps, vals, t), kind, rs.join(","))
}

// ------------------------------------------------------------ the check

fn judge(op: Op, vals: &[BigRational], t: &BigRational, res: &Res) -> Result<NumRepr, (&'static str, String)> {
    match res {
        Res::Num(r) => match r {
            NumRepr::Flo(f) => {
                if op.is_integer_division() {
                    Err(("inexact", format!("inexact result {:e}; {} on exact integers must be exact (true value {})", f, op.name(), rat_str(t))))
                } else if representable(t) {
                    Err(("inexact", format!("inexact result {:e} although the true value {} is representable exactly", f, rat_str(t))))
                } else if !within_bound(*f, t, vals) {
                    Err(("imprecise", format!("inexact result {:e} is further than 2^-50*max(|operands|,|t|) from the true value {}", f, rat_str(t))))
                } else {
                    Ok(r.clone())
                }
            }
            exact => {
                let v = exact.exact().unwrap();
                if v == *t {
                    Ok(r.clone())
                } else {
                    Err(("wrong", format!("exact result {} differs from the true value {}", rat_str(&v), rat_str(t))))
                }
            }
        },
        Res::Panic(p) => Err(("wrong", format!("panicked ({}); true value {}", p, rat_str(t)))),
        Res::Err(e) => Err(("error", format!("signalled an error ({}); true value {}", e, rat_str(t)))),
        other => Err(("wrong", format!("returned {} instead of a number; true value {}", other.show(), rat_str(t)))),
    }
}

fn render(case: &Case, reps: Option<&[NumRepr]>, t: &BigRational) -> Value {
    let mut v = json!({
        "op": case.op.name(),
        "vals": case.vals.iter().map(rat_str).collect::<Vec<_>>(),
        "true_value": rat_str(t),
    });
    if let Some(r) = reps {
        v["reps"] = json!(r.iter().map(|x| x.class()).collect::<Vec<_>>());
        v["expr"] = json!(spell_call(case.op.name(), r));
    }
    v
}

fn boundary_class(v: &BigRational) -> String {
    mag_class(v)
}

/// Execute one case (all its representation combinations). Returns every
/// failure, in a deterministic order.
fn check_case(ctx: &Ctx, sut: &mut Sut, case: &Case) -> Vec<Fail> {
    let mut fails = vec![];
    let op = case.op;
    if !in_domain(op, &case.vals) {
        ctx.discard("outside-domain");
        return fails;
    }
    let t = exact_result(op, &case.vals);
    // (the magnitude of the value, not of its numerator or denominator alone: (3/2)^700 has a
    // 1110-bit numerator and is an ordinary double)
    if !representable(&t) && (t.numer().bits() as i64 - t.denom().bits() as i64).abs() > 1000 {
        ctx.discard("unrepresentable-true-value-beyond-double-range");
        return fails;
    }
    ctx.class(&format!("op:{}", op.name()));
    ctx.class(&format!("t:{}", size_class(&t)));
    if case.landing {
        ctx.class("operands:result-lands-on-boundary");
    }
    let near = case.vals.iter().any(near_boundary) || near_boundary(&t);
    if near {
        ctx.class("near-boundary(operand or result within 2 of +-2^31/+-2^63)");
    }
    let mut ok_results: Vec<(usize, NumRepr)> = vec![];
    let mut via_done = false;
    for (ci, reps) in case.combos.iter().enumerate() {
        ctx.extra_add("evaluations_of_representation_combinations", 1);
        let classes: Vec<&str> = reps.iter().map(|r| r.class()).collect();
        let mixed = classes.iter().any(|c| *c != classes[0]);
        if case.vals.len() <= 2 {
            ctx.class(&format!("reps:{}", classes.join(",")));
        } else if mixed {
            ctx.class("reps:variadic-mixed");
        } else {
            ctx.class("reps:variadic-uniform");
        }
        if near || mixed {
            let key = format!(
                "{}|{}|{}|{}",
                op.name(),
                classes.join(","),
                case.vals.iter().map(boundary_class).collect::<Vec<_>>().join(","),
                boundary_class(&t)
            );
            ctx.nontrivial_str(&key);
        }
        let mut cells: Vec<_> = reps.iter().map(num_cell).collect();
        let mut via_note = String::new();
        let via_here = match case.via {
            Some((i, want_big)) if !via_done && matches!(reps[i], NumRepr::Big(_)) == want_big => Some(i),
            _ => None,
        };
        if let Some(i) = via_here {
            if let Some(e) = sut.reach(&reps[i]) {
                cells[i] = e;
                via_done = true;
                via_note = format!(" [operand {} injected through a Scheme expression]", i + 1);
                ctx.class(&format!("via-expression:{}", reps[i].class()));
            } else if crate::props::numcommon::reach_expr(&reps[i]).is_some() {
                ctx.class(&format!("via-expression:{}:REPRESENTATION-NOT-REACHED", reps[i].class()));
            }
        }
        let res = sut.eval(&call(op.name(), cells));
        match judge(op, &case.vals, &t, &res) {
            Ok(r) => {
                ctx.class(if r.is_exact() { "result:exact=true-value" } else { "result:inexact-justified-within-bound" });
                ok_results.push((ci, r));
            }
            Err((kind, msg)) => {
                ctx.class(&format!("result:FAIL-{}", kind));
                let sig = signature(op, reps, &case.vals, &t, kind);
                let detail = format!("{}{} {}", spell_call(op.name(), reps), via_note, msg);
                fails.push(Fail { sig, detail, render: render(case, Some(reps), &t) });
            }
        }
    }
    // representation independence among the individually acceptable answers
    if let Some((c0, r0)) = ok_results.first() {
        for (ci, r) in &ok_results[1..] {
            if !r.same_number(r0) {
                let reps = &case.combos[*ci];
                let sig = signature(op, reps, &case.vals, &t, "representation-dependent");
                let detail = format!(
                    "{} => {} but {} => {} (same mathematical operands)",
                    spell_call(op.name(), &case.combos[*c0]),
                    r0.render(),
                    spell_call(op.name(), reps),
                    r.render()
                );
                fails.push(Fail { sig, detail, render: render(case, Some(reps), &t) });
                break;
            }
        }
    }
    ctx.sample(|| {
        json!({"op": op.name(), "operands": case.vals.iter().map(rat_str).collect::<Vec<_>>(),
               "representation_combinations": case.combos.iter().map(|r| spell_call(op.name(), r)).collect::<Vec<_>>(),
               "true_value": rat_str(&t)})
    });
    fails
}

/// Known failures are counted and the search goes on; the first unlisted one decides the case.
fn settle(ctx: &Ctx, kind: &str, fails: Vec<Fail>) -> Outcome {
    let mut first_known: Option<Fail> = None;
    for f in fails {
        if ctx.is_known(&f.sig) {
            if first_known.is_none() {
                first_known = Some(f);
            } else if ctx.counting() {
                ctx.report(kind, f.render, &f.sig, &f.detail);
            }
        } else {
            return Outcome::fail(f.sig, f.detail, f.render);
        }
    }
    match first_known {
        Some(f) => Outcome::fail(f.sig, f.detail, f.render),
        None => Outcome::Pass,
    }
}

fn case_from_payload(p: &Value) -> Option<Case> {
    let op = Op::from_name(p["op"].as_str()?)?;
    let vals: Vec<BigRational> = p["vals"].as_array()?.iter().filter_map(|v| v.as_str().and_then(parse_rat)).collect();
    if vals.is_empty() {
        return None;
    }
    let mut combos = all_combos(&vals);
    if let Some(rs) = p["reps"].as_array() {
        let want: Vec<&str> = rs.iter().filter_map(|x| x.as_str()).collect();
        combos.retain(|c| c.iter().map(|r| r.class()).collect::<Vec<_>>() == want);
    }
    Some(Case { op, vals, combos, via: None, landing: false })
}

fn grid_values() -> Vec<BigRational> {
    let mut v: Vec<BigRational> = boundary_ints(true).iter().map(rat_i).collect();
    v.extend(boundary_rats());
    v
}

impl Prop for C08 {
    fn id(&self) -> &'static str {
        "C08"
    }
    fn rule(&self) -> &'static str {
        "grid: every pair of boundary values (0, +-1, +-2, everything within 2 of +-2^31, +-2^32, +-2^53, +-2^63, +-2^64, and rationals with numerator/denominator at the edge of the 32-bit range) under every binary operation, every boundary value under every unary operation and expt with exponents {0,1,2,3,31,32,33,62,63,64} (and bases close to 1 with exponents up to 2000), each in every combination of internal representations; random: palette operands (boundary values, random 32/64/128/256-bit integers, reduced rationals, operands chosen so that the result lands on a boundary), <=12 representation combinations per case. An evaluated combination is non-trivial when an operand or the true result lies within 2 of +-2^31 or +-2^63 (for rationals: numerator or denominator), or the operands have different representations; distinct by (operation, representation tuple, boundary class of each operand and of the true result)."
    }
    fn assumptions(&self) -> Vec<&'static str> {
        vec![
            "trusted base: BigInt/BigRational of the num crate",
            "'not representable' = marwood's documented exact number model: any integer; otherwise reduced n/d with n in [-2^31, 2^31-1], d in [1, 2^31-1]",
            "a panic, an error or a non-number for operands inside the stated domain counts as a wrong result (checked build: overflow panics where the plain release build wraps)",
            "cases whose unrepresentable true value lies beyond 2^1000 in magnitude are discarded (no double within the stated bound exists)",
            "- and / are exercised on pairs, + and * on lists of 2..5 operands (the statement's quantifier)",
            "one Vm is reused for many evaluations and replaced after every error or panic",
        ]
    }
    fn run(&self, ctx: &Ctx) {
        let sut = RefCell::new(Sut::new());
        // ---- deterministic grid
        let g = grid_values();
        let exps: [i64; 10] = [0, 1, 2, 3, 31, 32, 33, 62, 63, 64];
        let mut idx = 0usize;
        let mut run_grid = |op: Op, vals: Vec<BigRational>| {
            idx += 1;
            if idx % ctx.nshards != ctx.shard {
                return;
            }
            if !in_domain(op, &vals) {
                return;
            }
            ctx.beat();
            ctx.count(1);
            let combos = all_combos(&vals);
            let case = Case { op, vals, combos, via: None, landing: false };
            let fails = check_case(ctx, &mut sut.borrow_mut(), &case);
            for f in fails {
                ctx.report("case", f.render, &f.sig, &f.detail);
            }
        };
        for op in ALL_OPS {
            if op.is_unary() {
                for a in &g {
                    run_grid(op, vec![a.clone()]);
                }
            } else if op == Op::Expt {
                for a in &g {
                    for e in exps {
                        run_grid(op, vec![a.clone(), rat(e, 1)]);
                    }
                }
                // bases close to 1 under large exponents: the power of the numerator or of the
                // denominator alone leaves the double range long before the quotient does
                let near_one: [(i64, i64); 9] =
                    [(3, 2), (-3, 2), (4, 3), (2, 3), (1025, 1024), (1024, 1025), (2147483647, 2147483646), (2147483646, 2147483647), (-2147483647, 2147483646)];
                for (n, d) in near_one {
                    for e in [34i64, 100, 647, 700, 1000, 2000] {
                        // (31-bit numerators only up to 100: their exact powers are large)
                        if n.abs() > 1_000_000 && e > 100 {
                            continue;
                        }
                        let mag = (e as f64) * ((n.abs() as f64) / (d as f64)).log10();
                        if mag.abs() < 290.0 {
                            run_grid(op, vec![rat(n, d), rat(e, 1)]);
                        }
                    }
                }
            } else {
                for a in &g {
                    for b in &g {
                        run_grid(op, vec![a.clone(), b.clone()]);
                    }
                }
            }
        }
        let grid_cases = ctx.stats.borrow().evaluations;
        ctx.extra_add("grid_cases", grid_cases);
        // ---- random palette cases
        let cases = ctx.tier.pick(25_000u32, 400_000u32);
        ctx.run_bytes("rand", cases, 160, |ctx, bytes| {
            let case = gen_case(bytes);
            let fails = check_case(ctx, &mut sut.borrow_mut(), &case);
            settle(ctx, "rand", fails)
        });
        ctx.extra_add("fresh_vms", sut.borrow().fresh_vms);
    }
    fn replay(&self, ctx: &Ctx, kind: &str, payload: &Value) -> Outcome {
        let mut sut = Sut::new();
        let case = match kind {
            "rand" => gen_case(&unhex(payload["bytes"].as_str().unwrap_or(""))),
            _ => match case_from_payload(payload) {
                Some(c) => c,
                None => return Outcome::Discard,
            },
        };
        let fails = check_case(ctx, &mut sut, &case);
        settle(ctx, kind, fails)
    }
}
