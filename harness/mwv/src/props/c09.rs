//! C09 — numeric comparison is one consistent total order across representations.
//!
//! Domain: pairs, triples and short lists from the numeric palette of C08
//! extended with floats (integers near 2^53 and 2^63 as doubles, +-0.0,
//! subnormals, +-inf, the doubles adjacent to exact palette members, random
//! bit patterns; NaN excluded), every value in every internal representation
//! that can carry it, injected as `Cell::Number`.
//!
//! Oracle: exact comparison in `BigRational` (doubles converted exactly,
//! +-inf as extended values). Each of `< = > <= >=` (also with the operands
//! flipped) must give the answer dictated by the true order — which subsumes
//! trichotomy and mutual consistency —; on triples the SUT's own answers must
//! be transitive; a variadic call must equal the conjunction of the SUT's own
//! answers on adjacent pairs; `min`/`max` must return a value numerically
//! equal to the true minimum/maximum (exactness not asserted); `zero?
//! positive? negative?` must agree with the comparison against 0.

use crate::ctx::{Ctx, Outcome};
use crate::props::numcommon::{call, num_cell, spell_call, Res, Sut};
use crate::props::Prop;
use mwv_core::choice::{unhex, Choices};
use mwv_core::numeric::*;
use num::bigint::BigInt;
use num::{BigRational, One, Signed, Zero};
use serde_json::{json, Value};
use std::cell::RefCell;
use std::cmp::Ordering;

pub struct C09;

#[derive(Clone, Debug)]
enum Val {
    Ex(BigRational),
    Fl(f64),
}

impl Val {
    fn reps(&self) -> Vec<NumRepr> {
        match self {
            Val::Ex(v) => reprs_of(v),
            Val::Fl(f) => vec![NumRepr::Flo(*f)],
        }
    }
    fn show(&self) -> String {
        match self {
            Val::Ex(v) => {
                if v.is_integer() {
                    format!("{}", v.numer())
                } else {
                    format!("{}/{}", v.numer(), v.denom())
                }
            }
            Val::Fl(f) => NumRepr::Flo(*f).render(),
        }
    }
    fn parse(s: &str) -> Option<Val> {
        if s.starts_with("flo:") {
            match NumRepr::parse(s)? {
                NumRepr::Flo(f) if !f.is_nan() => Some(Val::Fl(f)),
                _ => None,
            }
        } else {
            let r = match s.split_once('/') {
                Some((n, d)) => {
                    let d: BigInt = d.parse().ok()?;
                    if d.is_zero() {
                        return None;
                    }
                    BigRational::new(n.parse().ok()?, d)
                }
                None => BigRational::from_integer(s.parse().ok()?),
            };
            if representable(&r) {
                Some(Val::Ex(r))
            } else {
                None
            }
        }
    }
}

#[derive(Clone, Debug)]
enum Case {
    /// all comparison operators, min, max on a pair — every representation combination
    Pair(Val, Val),
    /// pairwise answers, transitivity, variadic forms, min/max on a triple (one chosen representation each)
    Triple(Vec<NumRepr>),
    /// variadic forms against the conjunction over adjacent pairs
    List(Vec<NumRepr>),
    /// zero? positive? negative?
    Sign(Val),
}

struct Fail {
    sig: String,
    detail: String,
    render: Value,
}

const CMP_OPS: [&str; 5] = ["<", "=", ">", "<=", ">="];

fn truth(op: &str, o: Ordering) -> bool {
    match op {
        "<" => o == Ordering::Less,
        "=" => o == Ordering::Equal,
        ">" => o == Ordering::Greater,
        "<=" => o != Ordering::Greater,
        ">=" => o != Ordering::Less,
        _ => unreachable!(),
    }
}

fn family(op: &str) -> &'static str {
    match op {
        "=" | "zero?" => "equality",
        _ => "ordering",
    }
}

// ------------------------------------------------------------ classes (input-derived)

fn exact_in_double(v: &BigRational) -> bool {
    let n = v.numer().abs();
    if n.is_zero() {
        return true;
    }
    let d = v.denom();
    let d_pow2 = (d & (d - BigInt::one())).is_zero();
    let tz = n.trailing_zeros().unwrap_or(0);
    d_pow2 && (n.clone() >> (tz as usize)).bits() <= 53 && n.bits() <= 1024 && d.bits() <= 1000
}

/// No double lies strictly between the finite double `f` and the exact value `v` (f != v).
fn adjacent(f: f64, v: &BigRational) -> bool {
    let fe = match f64_to_exact(f) {
        Some(x) => x,
        None => return false,
    };
    match fe.cmp(v) {
        Ordering::Equal => true,
        Ordering::Less => match f64_to_exact(next_up(f)) {
            Some(u) => u > *v,
            None => true,
        },
        Ordering::Greater => match f64_to_exact(next_down(f)) {
            Some(dn) => dn < *v,
            None => true,
        },
    }
}

/// Class of an unordered pair of operands: which conversion a comparison of
/// the two representations has to get right.
fn pair_class(a: &NumRepr, b: &NumRepr) -> String {
    let kind = |r: &NumRepr| match r {
        NumRepr::Fix(_) | NumRepr::Big(_) => 'i',
        NumRepr::Rat(_, _) => 'q',
        NumRepr::Flo(_) => 'f',
    };
    let (a, b) = if kind(a) <= kind(b) { (a, b) } else { (b, a) };
    match (kind(a), kind(b)) {
        ('i', 'i') => "integer,integer".into(),
        ('q', 'q') => "rational,rational".into(),
        ('f', 'f') => "float,float".into(),
        ('i', 'q') => {
            let i = a.exact().unwrap().to_integer();
            if i < -pow2(31) {
                "rational,integer<-2^31".into()
            } else if i >= pow2(31) {
                "rational,integer>=2^31".into()
            } else {
                "rational,integer-in-i32".into()
            }
        }
        ('f', x) => {
            // a is the float, b exact
            let f = match a {
                NumRepr::Flo(f) => *f,
                _ => unreachable!(),
            };
            let v = b.exact().unwrap();
            let name = if x == 'i' { "integer" } else { "rational" };
            // magnitude above the largest finite double
            let beyond = v.abs() > f64_to_exact(f64::MAX).unwrap();
            if beyond {
                // finite or infinite float alike: the integer has no double anywhere near it
                format!("{}-beyond-double-range,float", name)
            } else if f.is_infinite() {
                format!("{},infinity", name)
            } else if exact_in_double(&v) {
                format!("{}-exact-in-double,float", name)
            } else if adjacent(f, &v) {
                format!("{}-not-exact-in-double,float=adjacent-double", name)
            } else {
                format!("{}-not-exact-in-double,float", name)
            }
        }
        _ => unreachable!(),
    }
}

fn class_rank(c: &str) -> usize {
    // classes that need care first; used to attribute a failure on a triple to one pair
    if c.contains("adjacent") || c.contains("<-2^31") || c.contains("beyond-double") {
        0
    } else if c.contains("not-exact") || c.contains(">=2^31") || c.contains("infinity") {
        1
    } else {
        2
    }
}

// ------------------------------------------------------------ generation

fn gen_val(c: &mut Choices) -> Val {
    if c.flip() {
        Val::Fl(gen_float(c, None, true))
    } else {
        Val::Ex(gen_exact(c))
    }
}

fn related(x: &Val, c: &mut Choices) -> Val {
    match c.weighted(&[3, 3, 4, 3, 3, 1]) {
        0 => gen_val(c),
        1 => {
            // the same mathematical value (other representations are enumerated by the check)
            match x {
                Val::Ex(v) => {
                    let f = near_f64(v);
                    if f64_to_exact(f).as_ref() == Some(v) {
                        Val::Fl(f)
                    } else {
                        x.clone()
                    }
                }
                Val::Fl(f) => match f64_to_exact(*f) {
                    Some(v) if representable(&v) => Val::Ex(v),
                    _ => x.clone(),
                },
            }
        }
        2 => {
            // a double next to x
            let base = match x {
                Val::Ex(v) => near_f64(v),
                Val::Fl(f) => *f,
            };
            let f = match c.below(5) {
                0 => base,
                1 => next_up(base),
                2 => next_down(base),
                3 => next_up(next_up(base)),
                _ => next_down(next_down(base)),
            };
            if f.is_nan() {
                x.clone()
            } else {
                Val::Fl(f)
            }
        }
        3 => {
            // an exact number next to x
            let v = match x {
                Val::Ex(v) => v.clone(),
                Val::Fl(f) => match f64_to_exact(*f) {
                    Some(v) if v.numer().bits() < 1100 => {
                        if c.flip() {
                            v.floor()
                        } else {
                            v.ceil()
                        }
                    }
                    _ => return gen_val(c),
                },
            };
            let step = match c.below(4) {
                0 => BigRational::zero(),
                1 => BigRational::one(),
                2 => -BigRational::one(),
                _ => rat(1, 3),
            };
            let w = v + step;
            if representable(&w) {
                Val::Ex(w)
            } else {
                Val::Ex(w.floor())
            }
        }
        4 => {
            // a rational close to x (continued-fraction style: floor(x*d)/d)
            let v = match x {
                Val::Ex(v) => v.clone(),
                Val::Fl(f) => match f64_to_exact(*f) {
                    Some(v) => v,
                    None => return gen_val(c),
                },
            };
            let ds: [i64; 6] = [3, 7, 1000, 65537, 2147483647, 2147483646];
            let d = BigInt::from(*c.pick(&ds));
            let n = (&v * BigRational::from_integer(d.clone())).floor().to_integer() + BigInt::from(c.range(0, 1));
            let w = BigRational::new(n, d);
            if representable(&w) {
                Val::Ex(w)
            } else {
                gen_val(c)
            }
        }
        _ => {
            // integers beyond the range of a double, against huge doubles and infinities
            let k = BigInt::from(c.range(-2, 2));
            let v = (pow2(1024) + k) * BigInt::from(if c.flip() { -1 } else { 1 });
            Val::Ex(rat_i(&v))
        }
    }
}

fn pick_rep(v: &Val, c: &mut Choices) -> NumRepr {
    let r = v.reps();
    c.pick(&r[..]).clone()
}

fn gen_case(bytes: &[u8]) -> Case {
    let mut c = Choices::new(bytes);
    match c.weighted(&[6, 3, 3, 1]) {
        0 => {
            let x = gen_val(&mut c);
            let y = related(&x, &mut c);
            if c.flip() {
                Case::Pair(x, y)
            } else {
                Case::Pair(y, x)
            }
        }
        1 => {
            let x = gen_val(&mut c);
            let y = related(&x, &mut c);
            let z = if c.flip() { related(&y, &mut c) } else { related(&x, &mut c) };
            let mut v = vec![pick_rep(&x, &mut c), pick_rep(&y, &mut c), pick_rep(&z, &mut c)];
            // a random order of the three
            let k = c.below(6);
            if k & 1 == 1 {
                v.swap(0, 1);
            }
            if k >= 2 {
                v.swap(1, 2);
            }
            if k >= 4 {
                v.swap(0, 2);
            }
            Case::Triple(v)
        }
        2 => {
            let n = 2 + c.below(5);
            let x = gen_val(&mut c);
            let y = related(&x, &mut c);
            let z = related(&y, &mut c);
            let mut pool = [x, y, z];
            // mostly ascending lists, so that the conjunction is not trivially false at the first pair
            if c.chance(200) {
                pool.sort_by(|a, b| {
                    let ea = match a {
                        Val::Ex(v) => Ext::Fin(v.clone()),
                        Val::Fl(f) => f64_ext(*f),
                    };
                    let eb = match b {
                        Val::Ex(v) => Ext::Fin(v.clone()),
                        Val::Fl(f) => f64_ext(*f),
                    };
                    ext_cmp(&ea, &eb).unwrap_or(Ordering::Equal)
                });
            }
            let mut items = vec![];
            let mut i = 0usize;
            for _ in 0..n {
                // stay, or move on to the next pool element (occasionally jump back)
                match c.below(8) {
                    0..=2 => {}
                    3..=6 => i = (i + 1).min(2),
                    _ => i = i.saturating_sub(1),
                }
                items.push(pick_rep(&pool[i], &mut c));
            }
            Case::List(items)
        }
        _ => Case::Sign(gen_val(&mut c)),
    }
}

// ------------------------------------------------------------ the check

fn ask(sut: &mut Sut, op: &str, args: &[NumRepr]) -> Res {
    sut.eval(&call(op, args.iter().map(num_cell).collect()))
}

fn nontrivial_pair(a: &NumRepr, b: &NumRepr) -> bool {
    if a.class() != b.class() {
        return true;
    }
    let (ea, eb) = (a.ext(), b.ext());
    let o = match ext_cmp(&ea, &eb) {
        Some(o) => o,
        None => return false,
    };
    if o == Ordering::Equal {
        return true;
    }
    // within one unit in the last place of either (floats), or straddling +-2^31, +-2^53, +-2^63
    if let (NumRepr::Flo(x), NumRepr::Flo(y)) = (a, b) {
        if next_up(*x) == *y || next_down(*x) == *y {
            return true;
        }
    }
    if let (Ext::Fin(x), Ext::Fin(y)) = (&ea, &eb) {
        let (lo, hi) = if x < y { (x, y) } else { (y, x) };
        for k in [31u32, 53, 63] {
            for s in [1i64, -1] {
                let b = BigRational::from_integer(pow2(k) * BigInt::from(s));
                if *lo < b && b <= *hi {
                    return true;
                }
            }
        }
    }
    false
}

/// Compare one concrete pair under every operator, flipped too, plus min/max.
fn check_pair(ctx: &Ctx, sut: &mut Sut, a: &NumRepr, b: &NumRepr, fails: &mut Vec<Fail>) {
    let o = match ext_cmp(&a.ext(), &b.ext()) {
        Some(o) => o,
        None => return,
    };
    let cls = pair_class(a, b);
    ctx.class(&format!("pair:{}", cls));
    ctx.class(&format!("reps:{},{}", a.class(), b.class()));
    ctx.extra_add("pairs_compared_in_one_representation_combination", 1);
    if nontrivial_pair(a, b) {
        ctx.nontrivial_str(&format!("{} ? {}", a.render(), b.render()));
    }
    let render = |op: &str, x: &NumRepr, y: &NumRepr| json!({"kind": "pair", "op": op, "a": x.render(), "b": y.render(), "expr": spell_call(op, &[x.clone(), y.clone()])});
    for (x, y, ord) in [(a, b, o), (b, a, o.reverse())] {
        for op in CMP_OPS {
            let want = truth(op, ord);
            match ask(sut, op, &[x.clone(), y.clone()]) {
                Res::Bool(got) if got == want => {}
                Res::Bool(got) => fails.push(Fail {
                    sig: format!("C09|{}|{}|{}", family(op), cls, op),
                    detail: format!(
                        "{} => {} but the true order is {} {} {}",
                        spell_call(op, &[x.clone(), y.clone()]),
                        if got { "#t" } else { "#f" },
                        x.render(),
                        match ord {
                            Ordering::Less => "<",
                            Ordering::Equal => "=",
                            Ordering::Greater => ">",
                        },
                        y.render()
                    ),
                    render: render(op, x, y),
                }),
                other => fails.push(Fail {
                    sig: format!("C09|no-boolean|{}|{}", cls, op),
                    detail: format!("{} => {}", spell_call(op, &[x.clone(), y.clone()]), other.show()),
                    render: render(op, x, y),
                }),
            }
        }
        for (op, want_min) in [("min", true), ("max", false)] {
            let expect = if (ord == Ordering::Greater) == want_min { y } else { x };
            match ask(sut, op, &[x.clone(), y.clone()]) {
                Res::Num(r) if ext_cmp(&r.ext(), &expect.ext()) == Some(Ordering::Equal) => {}
                other => fails.push(Fail {
                    sig: format!("C09|ordering|{}|{}", cls, op),
                    detail: format!(
                        "{} => {} but the true {} is {}",
                        spell_call(op, &[x.clone(), y.clone()]),
                        other.show(),
                        if want_min { "minimum" } else { "maximum" },
                        expect.render()
                    ),
                    render: render(op, x, y),
                }),
            }
        }
    }
}

fn sut_bool(sut: &mut Sut, op: &str, args: &[NumRepr]) -> Option<bool> {
    match ask(sut, op, args) {
        Res::Bool(b) => Some(b),
        _ => None,
    }
}

fn check_variadic(ctx: &Ctx, sut: &mut Sut, items: &[NumRepr], fails: &mut Vec<Fail>) {
    for op in CMP_OPS {
        let mut conj = Some(true);
        for w in items.windows(2) {
            match sut_bool(sut, op, w) {
                Some(b) => conj = conj.map(|c| c && b),
                None => conj = None,
            }
        }
        let got = ask(sut, op, items);
        if let Some(c) = conj {
            ctx.class(if c { "variadic:conjunction-true" } else { "variadic:conjunction-false" });
            let ok = matches!(got, Res::Bool(b) if b == c);
            if !ok {
                fails.push(Fail {
                    sig: format!("C09|variadic|{}|n={}", op, items.len()),
                    detail: format!(
                        "{} => {} but the conjunction of the same procedure over adjacent pairs is {}",
                        spell_call(op, items),
                        got.show(),
                        if c { "#t" } else { "#f" }
                    ),
                    render: json!({"kind": "list", "items": items.iter().map(|x| x.render()).collect::<Vec<_>>()}),
                });
            }
        }
    }
}

fn check_case(ctx: &Ctx, sut: &mut Sut, case: &Case) -> Vec<Fail> {
    let mut fails = vec![];
    match case {
        Case::Pair(x, y) => {
            ctx.class("case:pair");
            let (rx, ry) = (x.reps(), y.reps());
            for a in &rx {
                for b in &ry {
                    check_pair(ctx, sut, a, b, &mut fails);
                }
            }
            ctx.sample(|| json!({"pair": [x.show(), y.show()], "representations": [rx.iter().map(|r| r.class()).collect::<Vec<_>>(), ry.iter().map(|r| r.class()).collect::<Vec<_>>()]}));
        }
        Case::Triple(v) => {
            ctx.class("case:triple");
            let before = fails.len();
            check_pair(ctx, sut, &v[0], &v[1], &mut fails);
            check_pair(ctx, sut, &v[1], &v[2], &mut fails);
            check_pair(ctx, sut, &v[0], &v[2], &mut fails);
            let pairwise_failed = fails.len() > before;
            // transitivity of the SUT's own answers
            for op in ["<", "="] {
                for p in [[0usize, 1, 2], [0, 2, 1], [1, 0, 2], [1, 2, 0], [2, 0, 1], [2, 1, 0]] {
                    let (a, b, c) = (&v[p[0]], &v[p[1]], &v[p[2]]);
                    let ab = sut_bool(sut, op, &[a.clone(), b.clone()]);
                    let bc = sut_bool(sut, op, &[b.clone(), c.clone()]);
                    let ac = sut_bool(sut, op, &[a.clone(), c.clone()]);
                    if ab == Some(true) && bc == Some(true) {
                        ctx.class(&format!("transitivity:{}:premises-hold", op));
                        if ac != Some(true) {
                            if pairwise_failed {
                                // consequence of a pairwise failure already reported for this triple
                                ctx.class("transitivity:violated-together-with-a-reported-pairwise-failure");
                            } else {
                                fails.push(Fail {
                                    sig: format!("C09|transitivity|{}", op),
                                    detail: format!("({op} a b) and ({op} b c) hold but ({op} a c) does not, for a={} b={} c={}", a.render(), b.render(), c.render(), op = op),
                                    render: json!({"kind": "triple", "items": v.iter().map(|x| x.render()).collect::<Vec<_>>()}),
                                });
                            }
                        }
                    }
                }
            }
            check_variadic(ctx, sut, v, &mut fails);
            // min/max of three
            let mut cls: Vec<String> = vec![pair_class(&v[0], &v[1]), pair_class(&v[1], &v[2]), pair_class(&v[0], &v[2])];
            cls.sort_by_key(|c| (class_rank(c), c.clone()));
            for (op, want_min) in [("min", true), ("max", false)] {
                let mut best = &v[0];
                for x in &v[1..] {
                    let o = ext_cmp(&x.ext(), &best.ext()).unwrap();
                    if (want_min && o == Ordering::Less) || (!want_min && o == Ordering::Greater) {
                        best = x;
                    }
                }
                match ask(sut, op, v) {
                    Res::Num(r) if ext_cmp(&r.ext(), &best.ext()) == Some(Ordering::Equal) => {}
                    other => fails.push(Fail {
                        sig: format!("C09|ordering|{}|{}", cls[0], op),
                        detail: format!("{} => {} but the true {} is {}", spell_call(op, v), other.show(), if want_min { "minimum" } else { "maximum" }, best.render()),
                        render: json!({"kind": "triple", "items": v.iter().map(|x| x.render()).collect::<Vec<_>>()}),
                    }),
                }
            }
            ctx.sample(|| json!({"triple": v.iter().map(|x| x.render()).collect::<Vec<_>>()}));
        }
        Case::List(items) => {
            ctx.class(&format!("case:list:n={}", items.len()));
            if items.iter().any(|r| r.class() != items[0].class()) {
                ctx.nontrivial_str(&items.iter().map(|x| x.render()).collect::<Vec<_>>().join(" "));
            }
            check_variadic(ctx, sut, items, &mut fails);
            ctx.sample(|| json!({"list": items.iter().map(|x| x.render()).collect::<Vec<_>>()}));
        }
        Case::Sign(x) => {
            ctx.class("case:sign");
            let zero = NumRepr::Fix(0);
            for r in x.reps() {
                let o = ext_cmp(&r.ext(), &zero.ext()).unwrap();
                let cls = pair_class(&r, &zero);
                ctx.class(&format!("sign:{}", r.class()));
                for (op, want) in [("zero?", o == Ordering::Equal), ("positive?", o == Ordering::Greater), ("negative?", o == Ordering::Less)] {
                    match ask(sut, op, &[r.clone()]) {
                        Res::Bool(b) if b == want => {}
                        other => fails.push(Fail {
                            sig: format!("C09|{}|{}|{}", family(op), cls, op),
                            detail: format!("{} => {} but the number is {} 0", spell_call(op, &[r.clone()]), other.show(), match o {
                                Ordering::Less => "<",
                                Ordering::Equal => "=",
                                Ordering::Greater => ">",
                            }),
                            render: json!({"kind": "sign", "a": r.render()}),
                        }),
                    }
                }
            }
        }
    }
    fails
}

fn settle(ctx: &Ctx, kind: &str, fails: Vec<Fail>) -> Outcome {
    let mut first_known: Option<Fail> = None;
    for f in fails {
        if ctx.is_known(&f.sig) {
            if first_known.is_none() {
                first_known = Some(f);
            } else if ctx.counting() {
                ctx.report(kind, f.render, &f.sig, &f.detail);
            }
        } else {
            return Outcome::fail(f.sig, f.detail, f.render);
        }
    }
    match first_known {
        Some(f) => Outcome::fail(f.sig, f.detail, f.render),
        None => Outcome::Pass,
    }
}

fn case_from_payload(p: &Value) -> Option<Case> {
    let items = |p: &Value| -> Option<Vec<NumRepr>> {
        let v: Vec<NumRepr> = p["items"].as_array()?.iter().filter_map(|x| x.as_str().and_then(NumRepr::parse)).collect();
        if v.iter().any(|r| matches!(r, NumRepr::Flo(f) if f.is_nan())) || v.len() < 2 {
            None
        } else {
            Some(v)
        }
    };
    match p["kind"].as_str()? {
        "values" => Some(Case::Pair(Val::parse(p["a"].as_str()?)?, Val::parse(p["b"].as_str()?)?)),
        "triple" => {
            let v = items(p)?;
            if v.len() == 3 {
                Some(Case::Triple(v))
            } else {
                None
            }
        }
        "list" => Some(Case::List(items(p)?)),
        "sign" => {
            let r = NumRepr::parse(p["a"].as_str()?)?;
            match r {
                NumRepr::Flo(f) => Some(Case::Sign(Val::Fl(f))),
                e => Some(Case::Sign(Val::Ex(e.exact()?))),
            }
        }
        _ => None,
    }
}

fn grid_floats_for(v: &BigRational) -> Vec<f64> {
    let base = near_f64(v);
    vec![base, next_up(base), next_down(base), next_up(next_up(base)), next_down(next_down(base))]
}

const SPECIAL_FLOATS: [f64; 16] = [
    0.0,
    -0.0,
    1.0,
    -1.0,
    0.5,
    5e-324,
    -5e-324,
    f64::MIN_POSITIVE,
    9007199254740992.0,
    -9007199254740992.0,
    9223372036854775808.0,
    -9223372036854775808.0,
    f64::MAX,
    -f64::MAX,
    f64::INFINITY,
    f64::NEG_INFINITY,
];

impl Prop for C09 {
    fn id(&self) -> &'static str {
        "C09"
    }
    fn rule(&self) -> &'static str {
        "grid: every unordered pair of boundary exact values (0, +-1, +-2, within 2 of +-2^31, +-2^32, +-2^53, +-2^63, +-2^64, edge rationals, +-(2^1024+k)), every boundary exact value against its five neighbouring doubles and against 16 special doubles (+-0.0, subnormals, +-2^53, +-2^63, +-max, +-inf), special doubles pairwise; random: pairs (second operand related to the first: same value, adjacent double, +-1, nearby rational), triples, lists of 2..6, single numbers for the sign predicates. Pairs are run in every combination of representations. A compared pair is non-trivial when the representations differ, the values are equal, two floats are adjacent, or the values straddle +-2^31, +-2^53 or +-2^63; distinct by the rendered pair (values and representations)."
    }
    fn assumptions(&self) -> Vec<&'static str> {
        vec![
            "trusted base: BigInt/BigRational of the num crate; doubles are converted exactly from their bit pattern",
            "NaN is excluded",
            "each operator's answer is compared with the true order, which subsumes trichotomy, mutual consistency of < > <= >= and agreement of (op a b) with the flipped (op' b a)",
            "transitivity and variadic = conjunction are checked on the SUT's own binary answers",
            "exactness of min/max results is not asserted (only numerical equality with the true minimum/maximum)",
            "a violated transitivity in a triple that also has a reported pairwise failure is counted, not reported separately",
        ]
    }
    fn run(&self, ctx: &Ctx) {
        let sut = RefCell::new(Sut::new());
        // ---- deterministic grid
        let mut exact: Vec<BigRational> = boundary_ints(true).iter().map(rat_i).collect();
        exact.extend(boundary_rats());
        for k in [-1i64, 0, 1] {
            for s in [1i64, -1] {
                exact.push(rat_i(&((pow2(1024) + BigInt::from(k)) * BigInt::from(s))));
            }
        }
        let mut grid: Vec<(Val, Val)> = vec![];
        for (i, a) in exact.iter().enumerate() {
            for b in &exact[i..] {
                grid.push((Val::Ex(a.clone()), Val::Ex(b.clone())));
            }
            for f in grid_floats_for(a) {
                if !f.is_nan() {
                    grid.push((Val::Ex(a.clone()), Val::Fl(f)));
                }
            }
            for f in SPECIAL_FLOATS {
                grid.push((Val::Ex(a.clone()), Val::Fl(f)));
            }
        }
        for (i, f) in SPECIAL_FLOATS.iter().enumerate() {
            for g in &SPECIAL_FLOATS[i..] {
                grid.push((Val::Fl(*f), Val::Fl(*g)));
            }
        }
        for (idx, (a, b)) in grid.into_iter().enumerate() {
            if idx % ctx.nshards != ctx.shard {
                continue;
            }
            ctx.beat();
            ctx.count(1);
            let case = Case::Pair(a, b);
            for f in check_case(ctx, &mut sut.borrow_mut(), &case) {
                ctx.report("case", f.render, &f.sig, &f.detail);
            }
        }
        for (idx, a) in exact.iter().enumerate() {
            if idx % ctx.nshards != ctx.shard {
                continue;
            }
            ctx.count(1);
            for f in check_case(ctx, &mut sut.borrow_mut(), &Case::Sign(Val::Ex(a.clone()))) {
                ctx.report("case", f.render, &f.sig, &f.detail);
            }
        }
        for (idx, f) in SPECIAL_FLOATS.iter().enumerate() {
            if idx % ctx.nshards != ctx.shard {
                continue;
            }
            ctx.count(1);
            for f in check_case(ctx, &mut sut.borrow_mut(), &Case::Sign(Val::Fl(*f))) {
                ctx.report("case", f.render, &f.sig, &f.detail);
            }
        }
        let grid_cases = ctx.stats.borrow().evaluations;
        ctx.extra_add("grid_cases", grid_cases);
        // ---- random
        let cases = ctx.tier.pick(40_000u32, 600_000u32);
        ctx.run_bytes("rand", cases, 200, |ctx, bytes| {
            let case = gen_case(bytes);
            let fails = check_case(ctx, &mut sut.borrow_mut(), &case);
            settle(ctx, "rand", fails)
        });
        ctx.extra_add("fresh_vms", sut.borrow().fresh_vms);
    }
    fn replay(&self, ctx: &Ctx, kind: &str, payload: &Value) -> Outcome {
        let mut sut = Sut::new();
        let case = match kind {
            "rand" => gen_case(&unhex(payload["bytes"].as_str().unwrap_or(""))),
            _ => {
                // a reported pair is re-run in exactly the reported representations
                if payload["kind"].as_str() == Some("pair") {
                    let a = payload["a"].as_str().and_then(NumRepr::parse);
                    let b = payload["b"].as_str().and_then(NumRepr::parse);
                    return match (a, b) {
                        (Some(a), Some(b)) if a.ext() != Ext::NaN && b.ext() != Ext::NaN => {
                            let mut fails = vec![];
                            check_pair(ctx, &mut sut, &a, &b, &mut fails);
                            // the recorded operator first, so that the reproducer fails with its own signature
                            let op = payload["op"].as_str().unwrap_or("");
                            fails.sort_by_key(|f| !f.sig.ends_with(&format!("|{}", op)));
                            settle(ctx, kind, fails)
                        }
                        _ => Outcome::Discard,
                    };
                }
                match case_from_payload(payload) {
                    Some(c) => c,
                    None => return Outcome::Discard,
                }
            }
        };
        let fails = check_case(ctx, &mut sut, &case);
        settle(ctx, kind, fails)
    }
}
