//! C10 — written data reads back as the same data.
//!
//! Domain: the recursive datum generator of `mwv_core::readergen` (depth <= 6),
//! built directly as `marwood::cell::Cell`. Symbols are kept only if
//! `parse_text(s)` yields exactly `Symbol(s)` with nothing remaining — that
//! filter is the definition of "symbols the reader can produce".
//! Oracle: t = write(d); read(t) = (d', nothing remaining) with d' strictly
//! equal to d; write(d') = t; eval of (quote d) as a cell and of "(quote t)" as
//! text both return a datum strictly equal to d.

use crate::ctx::{Ctx, Outcome};
use crate::props::Prop;
use crate::sut::{cell_to_sx, guard};
use marwood::cell::Cell;
use marwood::number::Number;
use marwood::parse;
use marwood::vm::Vm;
use mwv_core::choice::{unhex, Choices};
use mwv_core::readergen::{self as rg, Datum};
use num::rational::Rational32;
use serde_json::{json, Value};
use std::cell::{Cell as StdCell, RefCell};
use std::rc::Rc;

pub struct C10;

fn to_cell(d: &Datum) -> Cell {
    match d {
        Datum::Bool(b) => Cell::Bool(*b),
        Datum::Fix(i) => Cell::Number(Number::Fixnum(*i)),
        Datum::Big(b) => Cell::Number(Number::BigInt(Rc::new(b.clone()))),
        Datum::Rat(n, dn) => Cell::Number(Number::Rational(Rational32::new_raw(*n, *dn))),
        Datum::Flo(f) => Cell::Number(Number::Float(*f)),
        Datum::Char(c) => Cell::Char(*c),
        Datum::Str(s) => Cell::String(s.clone()),
        Datum::Sym(s) => Cell::Symbol(s.clone()),
        Datum::List(v) => Cell::new_list(v.iter().map(to_cell).collect::<Vec<_>>()),
        Datum::Dotted(v, t) => Cell::new_improper_list(v.iter().map(to_cell).collect::<Vec<_>>(), to_cell(t)),
        Datum::Vector(v) => Cell::Vector(v.iter().map(to_cell).collect()),
    }
}

/// "A symbol the reader can produce": its own spelling reads as exactly it.
fn reader_produces_symbol(s: &str) -> bool {
    guard(|| matches!(parse::parse_text(s), Ok((Cell::Symbol(ref x), None)) if x == s)).unwrap_or(false)
}

thread_local! {
    static VM: RefCell<Option<Vm>> = const { RefCell::new(None) };
    static VM_USES: StdCell<u32> = const { StdCell::new(0) };
}

fn with_vm<T>(f: impl FnOnce(&mut Vm) -> T) -> T {
    VM.with(|slot| {
        let mut slot = slot.borrow_mut();
        let uses = VM_USES.with(|u| {
            u.set(u.get() + 1);
            u.get()
        });
        if slot.is_none() || uses % 4000 == 0 {
            *slot = Some(Vm::new());
        }
        f(slot.as_mut().unwrap())
    })
}

fn drop_vm() {
    VM.with(|slot| *slot.borrow_mut() = None);
}

struct Failure {
    kind: &'static str,
    detail: String,
}

fn fail(kind: &'static str, detail: String) -> Option<Failure> {
    Some(Failure { kind, detail })
}

/// The oracle for one datum. `with_eval` = also the two evaluation round trips.
fn check(d: &Datum, with_eval: bool) -> Option<Failure> {
    let cell = to_cell(d);
    let want = d.to_sx();
    let t = match guard(|| format!("{:#}", cell)) {
        Ok(t) => t,
        Err(p) => return fail("write-panic", format!("write of {} panicked: {}", d.render(), p)),
    };
    // read back
    let back = match guard(|| parse::parse_text(&t).map(|(c, rest)| (c, rest.map(|r| r.to_string())))) {
        Err(p) => return fail("read-panic", format!("parse_text({:?}) panicked: {}", t, p)),
        Ok(Err(e)) => {
            let kind = if matches!(e, parse::Error::Incomplete | parse::Error::LexError(marwood::lex::Error::Incomplete)) {
                "read-incomplete"
            } else {
                "read-error"
            };
            return fail(kind, format!("written text {:?} does not read: {:?}", t, e));
        }
        Ok(Ok(x)) => x,
    };
    if let Some(rest) = &back.1 {
        return fail("read-leaves-remaining", format!("written text {:?} reads as {:#} and leaves {:?}", t, back.0, rest));
    }
    let got = cell_to_sx(&back.0);
    if !want.matches(&got) {
        return fail("reads-back-different", format!("written text {:?} reads back as {:?}, expected {:?}", t, got, want));
    }
    match guard(|| format!("{:#}", back.0)) {
        Err(p) => return fail("rewrite-panic", format!("write of the datum read from {:?} panicked: {}", t, p)),
        Ok(t2) => {
            if t2 != t {
                return fail("rewrite-differs", format!("write gives {:?}; reading that and writing again gives {:?}", t, t2));
            }
        }
    }
    if !with_eval {
        return None;
    }
    // quote as a cell
    let quoted = Cell::new_list(vec![Cell::new_symbol("quote"), cell.clone()]);
    let r = guard(|| with_vm(|vm| vm.eval(&quoted).map_err(|e| format!("{:?}", e))));
    match r {
        Err(p) => {
            drop_vm();
            return fail("eval-quote-panic", format!("eval of (quote {}) panicked: {}", t, p));
        }
        Ok(Err(e)) => {
            drop_vm();
            return fail("eval-quote-error", format!("eval of (quote {}) failed: {}", t, e));
        }
        Ok(Ok(v)) => {
            let got = cell_to_sx(&v);
            if !want.matches(&got) {
                return fail("eval-quote-different", format!("eval of (quote {}) returned {:?}, expected {:?}", t, got, want));
            }
        }
    }
    // quote as text
    let text = format!("(quote {})", t);
    let r = guard(|| with_vm(|vm| vm.eval_text(&text).map(|(c, rest)| (c, rest.map(|r| r.to_string()))).map_err(|e| format!("{:?}", e))));
    match r {
        Err(p) => {
            drop_vm();
            fail("eval-text-panic", format!("eval_text({:?}) panicked: {}", text, p))
        }
        Ok(Err(e)) => {
            drop_vm();
            fail("eval-text-error", format!("eval_text({:?}) failed: {}", text, e))
        }
        Ok(Ok((v, rest))) => {
            if let Some(rest) = rest {
                return fail("eval-text-remaining", format!("eval_text({:?}) leaves {:?}", text, rest));
            }
            let got = cell_to_sx(&v);
            if !want.matches(&got) {
                return fail("eval-text-different", format!("eval_text({:?}) returned {:?}, expected {:?}", text, got, want));
            }
            None
        }
    }
}

fn fails_same(d: &Datum, kind: &str) -> bool {
    matches!(check(d, kind.starts_with("eval")), Some(f) if f.kind == kind)
}

/// The smallest sub-datum that still fails the same way, and its description.
fn culprit(d: &Datum, kind: &str) -> String {
    for ch in d.children() {
        if fails_same(ch, kind) {
            return culprit(ch, kind);
        }
    }
    match d {
        Datum::Str(s) => {
            for ch in s.chars() {
                if fails_same(&Datum::Str(ch.to_string()), kind) {
                    return format!("str:char:{}", rg::char_class(ch));
                }
            }
            d.class()
        }
        Datum::List(v) | Datum::Vector(v) | Datum::Dotted(v, _) => {
            // no child fails alone: the construct does, or two neighbours do
            let kids = d.children();
            for w in kids.windows(2) {
                let pair = vec![w[0].clone(), w[1].clone()];
                let small = match d {
                    Datum::Vector(_) => Datum::Vector(pair),
                    _ => Datum::List(pair),
                };
                if kids.len() > 2 && v.len() >= 2 && fails_same(&small, kind) {
                    return format!("{}[{},{}]", small.class(), w[0].class(), w[1].class());
                }
            }
            d.class()
        }
        _ => d.class(),
    }
}

fn gen(bytes: &[u8], ctx: Option<&Ctx>) -> Datum {
    let mut c = Choices::new(bytes);
    let accept = |s: &str| reader_produces_symbol(s);
    let mut g = rg::DatumGen::new(&accept);
    let d = g.top(&mut c);
    if let Some(ctx) = ctx {
        ctx.extra_add("symbol_candidates", g.sym_candidates);
        ctx.extra_add("symbol_candidates_rejected_by_reader_filter", g.sym_rejected);
    }
    d
}

thread_local! {
    static NT_COUNT: StdCell<u64> = const { StdCell::new(0) };
}

pub fn datum_outcome(ctx: &Ctx, bytes: &[u8]) -> Outcome {
    let d = gen(bytes, Some(ctx));
    let shown = d.render();
    let depth = d.depth();
    ctx.class(&format!("depth:{}", depth));
    d.walk(&mut |n| ctx.class(&n.class()));
    if d.nontrivial() {
        ctx.class("nontrivial");
        let n = NT_COUNT.with(|c| {
            c.set(c.get() + 1);
            c.get()
        });
        if n <= ctx.tier.pick(20_000, 100_000) {
            ctx.nontrivial_str(&shown);
        } else {
            ctx.extra_add("nontrivial_not_hashed_beyond_cap", 1);
        }
    }
    ctx.sample(|| json!({"datum": shown}));
    match check(&d, true) {
        None => Outcome::Pass,
        Some(f) => {
            let sig = format!("C10|{}|{}", culprit(&d, f.kind), f.kind);
            Outcome::fail(sig, f.detail, json!({"datum": shown}))
        }
    }
}

impl Prop for C10 {
    fn id(&self) -> &'static str {
        "C10"
    }
    fn fuzz_stage(&self) -> Option<(&'static str, u64, usize)> {
        Some(("datum", 2_000_000, 512))
    }
    fn rule(&self) -> &'static str {
        "recursive datum generator (depth <= 6, <= 40 containers): booleans; finite doubles by bit pattern, boundary list, decimal strings, around 1e10; integers across +-2^63 as fixnum and bignum cells; reduced rationals within i32; characters of every class; strings over the same alphabet; symbols from the lexer's identifier grammar kept only if parse_text(s) = Symbol(s) with nothing remaining; proper/improper lists, vectors, quote forms and degenerate quote spellings. Non-trivial: contains a float, a character/string needing an escape, a symbol that is not a plain ASCII identifier, or nesting >= 3; distinct by the datum's spelling."
    }
    fn assumptions(&self) -> Vec<&'static str> {
        vec![
            "strict equality = variant, value, float bits, exactness; exact integers of any representation (fixnum, bignum, integer-valued rational) are one value",
            "non-finite floats and symbols the reader cannot spell are outside the statement and not generated",
            "one VM is reused for up to 4000 data (quote has no effect on later evaluations) and replaced after any failure",
        ]
    }
    fn run(&self, ctx: &Ctx) {
        let cases = ctx.tier.pick(150_000u32, 4_000_000u32);
        ctx.run_bytes("datum", cases, 220, datum_outcome);
    }
    fn replay(&self, ctx: &Ctx, _kind: &str, payload: &Value) -> Outcome {
        datum_outcome(ctx, &unhex(payload["bytes"].as_str().unwrap_or("")))
    }
}
