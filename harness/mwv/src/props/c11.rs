//! C11 — reader discipline: total, exact spans, one datum per parse,
//! incompleteness found.
//!
//! Domain: random Unicode strings, token soup, mutated corpus programs / datum
//! texts, and well-formed datum sequences built by construction (for the
//! prefix clause: every token-boundary prefix of every top-level datum).
//! Oracle: span invariants + the harness' gap scanner; the remaining text of
//! `parse_text` against a reference token-class parser; the datum-by-datum loop;
//! `Incomplete` for every prefix that ends inside a well-formed datum and never
//! for a complete one. Which strings are *errors* is not asserted.

use crate::ctx::{Ctx, Outcome};
use crate::props::Prop;
use crate::sut::guard;
use marwood::lex::{self, Token, TokenType};
use marwood::parse;
use mwv_core::choice::{fnv, hex, unhex, Choices};
use mwv_core::readergen::{self as rg, Extent, TC};
use serde_json::{json, Value};
use std::cell::Cell;
use std::sync::atomic::{AtomicU64, Ordering};
use std::sync::Mutex;

pub struct C11;

fn tc_of(t: &TokenType) -> TC {
    match t {
        TokenType::LeftParen => TC::Open,
        TokenType::RightParen => TC::Close,
        TokenType::HashParen => TC::HashOpen,
        TokenType::SingleQuote | TokenType::Quasiquote | TokenType::Unquote => TC::Quote,
        TokenType::Dot => TC::Dot,
        TokenType::NumberPrefix => TC::NumPrefix,
        _ => TC::Atom,
    }
}

fn tt_name(t: &TokenType) -> &'static str {
    match t {
        TokenType::Char => "char",
        TokenType::Dot => "dot",
        TokenType::False | TokenType::True => "bool",
        TokenType::LeftParen => "open",
        TokenType::Number => "number",
        TokenType::NumberPrefix => "numprefix",
        TokenType::Quasiquote => "quasiquote",
        TokenType::RightParen => "close",
        TokenType::SingleQuote => "quote",
        TokenType::String => "string",
        TokenType::Symbol => "symbol",
        TokenType::Unquote => "unquote",
        TokenType::WhiteSpace => "whitespace",
        TokenType::HashParen => "hashopen",
    }
}

/// Result of `parse_text` on the suffix of `text` starting at `from`.
enum PR {
    /// remaining text: None, or Some(byte offset within `text`) when it is a
    /// genuine suffix of the input, or Err(description) when it is not
    Ok(Result<Option<usize>, String>),
    Incomplete,
    Error(String),
    Panic(String),
}

fn is_incomplete(e: &parse::Error) -> bool {
    matches!(e, parse::Error::Incomplete | parse::Error::LexError(lex::Error::Incomplete))
}

fn parse_at(text: &str, from: usize) -> PR {
    let sub = &text[from..];
    let r = guard(|| match parse::parse_text(sub) {
        Ok((_d, rest)) => Ok(rest.map(|r| (r.as_ptr() as usize, r.len()))),
        Err(e) => Err((is_incomplete(&e), format!("{:?}", e))),
    });
    match r {
        Err(p) => PR::Panic(p),
        Ok(Err((true, _))) => PR::Incomplete,
        Ok(Err((false, e))) => PR::Error(e),
        Ok(Ok(None)) => PR::Ok(Ok(None)),
        Ok(Ok(Some((ptr, len)))) => {
            let base = text.as_ptr() as usize;
            if ptr < base || ptr > base + text.len() {
                return PR::Ok(Err("remaining text does not point into the input".into()));
            }
            let off = ptr - base;
            if off + len != text.len() {
                return PR::Ok(Err(format!("remaining text [{}, {}) is not a suffix of the input (len {})", off, off + len, text.len())));
            }
            PR::Ok(Ok(Some(off)))
        }
    }
}

fn parse_panics(piece: &str) -> bool {
    guard(|| {
        let _ = parse::parse_text(piece);
    })
    .is_err()
}

fn scan_panics(piece: &str) -> bool {
    guard(|| {
        let _ = lex::scan(piece);
    })
    .is_err()
}

#[derive(Default)]
struct TextStats {
    tokens: usize,
    classes: usize,
    multibyte_at_boundary: bool,
    scan_failed: bool,
    data_visited: usize,
    stopped_by_error: bool,
    ref_malformed_sut_ok: bool,
}

impl TextStats {
    fn nontrivial(&self) -> bool {
        (self.tokens >= 3 && self.classes >= 2) || self.multibyte_at_boundary
    }
}

/// Span invariants of a successful scan.
fn check_spans(text: &str, tokens: &[Token], st: &mut TextStats) -> Option<(String, String)> {
    let mut prev_end = 0usize;
    for (i, t) in tokens.iter().enumerate() {
        let (s, e) = t.span;
        let name = tt_name(&t.token_type);
        let show = |what: &str| format!("token {} ({}) span ({}, {}) of {:?}: {}", i, name, s, e, text, what);
        if e > text.len() || s > text.len() {
            return Some((format!("C11|span|out-of-bounds|{}", name), show("out of bounds")));
        }
        if s >= e {
            return Some((format!("C11|span|empty|{}", name), show("empty span")));
        }
        if !text.is_char_boundary(s) || !text.is_char_boundary(e) {
            return Some((format!("C11|span|not-char-boundary|{}", name), show("not on a character boundary")));
        }
        if s < prev_end {
            return Some((format!("C11|span|overlap|{}", name), show("starts before the previous token ends")));
        }
        if let Some((off, ch)) = rg::gap_offender(&text[prev_end..s]) {
            return Some((
                format!("C11|gap|{}|before:{}", rg::char_class(ch), name),
                show(&format!("the gap before it contains {:?} at byte {}", ch, prev_end + off)),
            ));
        }
        let tok = &text[s..e];
        let mb = |c: Option<char>| c.map(|c| c.len_utf8() > 1).unwrap_or(false);
        if mb(tok.chars().next()) || mb(tok.chars().last()) || mb(text[..s].chars().last()) || mb(text[e..].chars().next()) {
            st.multibyte_at_boundary = true;
        }
        prev_end = e;
    }
    if let Some((off, ch)) = rg::gap_offender(&text[prev_end..]) {
        return Some((
            format!("C11|gap|{}|before:end", rg::char_class(ch)),
            format!("the text after the last token of {:?} contains {:?} at byte {}", text, ch, prev_end + off),
        ));
    }
    None
}

/// All clauses that hold for every text.
fn check_text(text: &str, st: &mut TextStats) -> Option<(String, String)> {
    let scanned = match guard(|| lex::scan(text)) {
        Err(p) => {
            let w = rg::culprit_window(text, &scan_panics);
            return Some((format!("C11|scan|panic|{}", w), format!("scan({:?}) panicked: {}", text, p)));
        }
        Ok(r) => r,
    };
    let tokens = match scanned {
        Err(_) => {
            st.scan_failed = true;
            // totality of parse_text on the same text
            if let PR::Panic(p) = parse_at(text, 0) {
                let w = rg::culprit_window(text, &parse_panics);
                return Some((format!("C11|parse_text|panic|{}", w), format!("parse_text({:?}) panicked: {}", text, p)));
            }
            return None;
        }
        Ok(t) => t,
    };
    st.tokens = tokens.len();
    let mut names: Vec<&str> = tokens.iter().map(|t| tt_name(&t.token_type)).collect();
    names.sort();
    names.dedup();
    st.classes = names.len();
    if let Some(f) = check_spans(text, &tokens, st) {
        return Some(f);
    }
    let tcs: Vec<TC> = tokens.iter().map(|t| tc_of(&t.token_type)).collect();
    if tokens.is_empty() {
        if let PR::Panic(p) = parse_at(text, 0) {
            return Some(("C11|parse_text|panic|no-tokens".into(), format!("parse_text({:?}) panicked: {}", text, p)));
        }
        return None;
    }
    // datum by datum, as the front ends do
    let mut i = 0usize;
    loop {
        let from = tokens[i].span.0;
        let first = tt_name(&tokens[i].token_type);
        let ext = rg::ref_extent(&tcs, i);
        let pr = parse_at(text, from);
        let shown = &text[from..];
        match (ext, pr) {
            (_, PR::Panic(p)) => {
                let spans: Vec<(usize, usize)> = tokens[i..].iter().map(|t| (t.span.0 - from, t.span.1 - from)).collect();
                let w = rg::culprit_window_spans(shown, &spans, &parse_panics);
                return Some((format!("C11|parse_text|panic|{}", w), format!("parse_text({:?}) panicked: {}", shown, p)));
            }
            (_, PR::Ok(Err(why))) => {
                return Some((format!("C11|remaining|first:{}|not-a-suffix", first), format!("parse_text({:?}): {}", shown, why)));
            }
            (Extent::Complete(e), PR::Ok(Ok(rest))) => {
                st.data_visited += 1;
                let expected = if e < tokens.len() { Some(tokens[e].span.0) } else { None };
                if rest != expected {
                    let last = tt_name(&tokens[e - 1].token_type);
                    let kind = match (rest, expected) {
                        (None, Some(_)) => "none-but-tokens-follow",
                        (Some(_), None) => "some-but-nothing-follows",
                        (Some(a), Some(b)) if a < b => "too-early",
                        _ => "too-late",
                    };
                    return Some((
                        format!("C11|remaining|first:{},last:{}|{}", first, last, kind),
                        format!(
                            "parse_text({:?}) reports remaining text at byte {:?} of the input, but the datum ends with token {} and the next token starts at {:?}",
                            shown, rest, e - 1, expected
                        ),
                    ));
                }
                if e >= tokens.len() {
                    return None;
                }
                i = e;
            }
            (Extent::Complete(_), PR::Incomplete) => {
                return Some((
                    format!("C11|complete-reported-incomplete|first:{}", first),
                    format!("parse_text({:?}) = Incomplete although the text starts with a complete datum", shown),
                ));
            }
            (Extent::Incomplete, PR::Ok(Ok(_))) => {
                return Some((
                    format!("C11|incomplete-accepted|{}", rg::open_state(&tcs[i..])),
                    format!("parse_text({:?}) returned a datum although the tokens end inside it", shown),
                ));
            }
            (Extent::Malformed, PR::Ok(Ok(rest))) => {
                // which strings are errors is not asserted; the contract on the remaining text still holds weakly
                st.ref_malformed_sut_ok = true;
                st.data_visited += 1;
                match rest {
                    None => return None,
                    Some(off) => match tokens.iter().position(|t| t.span.0 == off) {
                        Some(j) if j > i => i = j,
                        _ => {
                            return Some((
                                format!("C11|remaining|first:{}|not-at-a-later-token", first),
                                format!("parse_text({:?}) reports remaining text at byte {} which is not the start of a later token", shown, off),
                            ));
                        }
                    },
                }
            }
            (_, PR::Incomplete) | (_, PR::Error(_)) => {
                st.stopped_by_error = true;
                return None;
            }
        }
    }
}

// ---------------------------------------------------------------------------
// hang attribution without journaling every case: a watchdog thread prints the
// journal line of the case in flight when it has not changed for a while.

struct Flight {
    seq: AtomicU64,
    cur: Mutex<(String, Vec<u8>)>,
}

thread_local! {
    static FLIGHT: Cell<Option<&'static Flight>> = const { Cell::new(None) };
}

fn case_hash(kind: &str, bytes: &[u8]) -> u64 {
    let mut b = kind.as_bytes().to_vec();
    b.push(0);
    b.extend_from_slice(bytes);
    fnv(&b)
}

fn start_watchdog() {
    let fl: &'static Flight = Box::leak(Box::new(Flight { seq: AtomicU64::new(0), cur: Mutex::new((String::new(), vec![])) }));
    FLIGHT.with(|f| f.set(Some(fl)));
    std::thread::spawn(move || {
        let mut last = 0u64;
        let mut same = 0u32;
        let mut printed = 0u64;
        loop {
            std::thread::sleep(std::time::Duration::from_millis(500));
            let s = fl.seq.load(Ordering::SeqCst);
            if s != 0 && s == last {
                same += 1;
            } else {
                same = 0;
                last = s;
            }
            if same >= 12 && printed != s {
                printed = s;
                let (kind, bytes) = fl.cur.lock().map(|g| g.clone()).unwrap_or_default();
                let case = json!({"kind": kind, "payload": {"bytes": hex(&bytes)}});
                println!("J {} {}", case_hash(&kind, &bytes), case);
            }
        }
    });
}

/// Returns false when the driver asked to skip this case (it hung before).
fn enter_case(ctx: &Ctx, kind: &str, bytes: &[u8]) -> bool {
    if ctx.skip.contains(&case_hash(kind, bytes)) {
        return false;
    }
    FLIGHT.with(|f| {
        if let Some(fl) = f.get() {
            if let Ok(mut g) = fl.cur.lock() {
                g.0.clear();
                g.0.push_str(kind);
                g.1.clear();
                g.1.extend_from_slice(bytes);
            }
            fl.seq.fetch_add(1, Ordering::SeqCst);
        }
    });
    true
}

fn leave_case() {
    FLIGHT.with(|f| {
        if let Some(fl) = f.get() {
            fl.seq.store(0, Ordering::SeqCst);
        }
    });
}

// ---------------------------------------------------------------------------

thread_local! {
    static NT_COUNT: Cell<u64> = const { Cell::new(0) };
}

fn note_nontrivial(ctx: &Ctx, text: &str) {
    let n = NT_COUNT.with(|c| {
        c.set(c.get() + 1);
        c.get()
    });
    if n <= ctx.tier.pick(20_000, 100_000) {
        ctx.nontrivial_str(text);
    } else {
        ctx.extra_add("nontrivial_not_hashed_beyond_cap", 1);
    }
}

pub fn text_outcome(ctx: &Ctx, kind: &str, text: &str, extra_class: Option<&str>) -> Outcome {
    let mut st = TextStats::default();
    let res = check_text(text, &mut st);
    let k = |s: &str| format!("{}:{}", kind, s);
    ctx.class(&k("cases"));
    if let Some(c) = extra_class {
        ctx.class(&format!("{}:{}", kind, c));
    }
    if st.scan_failed {
        ctx.class(&k("scan-error"));
    } else {
        ctx.class_n(&k("tokens"), st.tokens as u64);
        ctx.class_n(&k("data-visited"), st.data_visited as u64);
        if st.data_visited >= 2 {
            ctx.class(&k("visited>=2-data"));
        }
        if st.stopped_by_error {
            ctx.class(&k("loop-ended-by-error"));
        } else if st.tokens > 0 {
            ctx.class(&k("loop-ended-by-end-of-text"));
        }
        if st.ref_malformed_sut_ok {
            ctx.class(&k("ref-malformed-but-accepted"));
        }
        if st.multibyte_at_boundary {
            ctx.class(&k("multibyte-at-token-boundary"));
        }
    }
    if st.nontrivial() {
        ctx.class(&k("nontrivial"));
        note_nontrivial(ctx, text);
    }
    let render = json!({"text": text});
    ctx.sample(|| json!({"kind": kind, "text": text}));
    match res {
        Some((sig, detail)) => Outcome::fail(sig, detail, render),
        None => Outcome::Pass,
    }
}

fn gen_text(kind: &str, bytes: &[u8]) -> (String, Option<&'static str>) {
    let mut c = Choices::new(bytes);
    match kind {
        "uni" => (rg::gen_unicode_text(&mut c), None),
        "soup" => (rg::gen_soup(&mut c), None),
        _ => {
            let seed = if c.chance(110) {
                let any = |_: &str| true;
                let mut g = rg::DatumGen::new(&any);
                Some(g.top(&mut c).render())
            } else {
                None
            };
            let (t, k) = rg::gen_mutation(&mut c, seed);
            (t, Some(k))
        }
    }
}

fn random_outcome(ctx: &Ctx, kind: &'static str, bytes: &[u8]) -> Outcome {
    if !enter_case(ctx, kind, bytes) {
        return Outcome::Discard;
    }
    let (text, class) = gen_text(kind, bytes);
    let o = text_outcome(ctx, kind, &text, class);
    leave_case();
    o
}

/// Prefix clause on a well-formed datum sequence built by construction.
fn wf_check(ctx: &Ctx, wf: &rg::WellFormed, cut_choice: usize) -> Option<(String, String)> {
    let text = &wf.text;
    let tcs: Vec<TC> = wf.toks.iter().map(|t| t.tc).collect();
    // (a) the generator and the reference parser agree on what was built
    for k in 0..wf.datum_bounds.len() - 1 {
        let (s, e) = (wf.datum_bounds[k], wf.datum_bounds[k + 1]);
        assert_eq!(rg::ref_extent(&tcs[..e], s), Extent::Complete(e), "harness: generator and reference parser disagree on {:?}", text);
    }
    // (b) the whole sequence, datum by datum, against the generator's own token offsets
    let mut from = wf.toks[0].start;
    for k in 0..wf.datum_bounds.len() - 1 {
        let e = wf.datum_bounds[k + 1];
        let expected = if e < wf.toks.len() { Some(wf.toks[e].start) } else { None };
        let first = wf.toks[wf.datum_bounds[k]].kind;
        let last = wf.toks[e - 1].kind;
        ctx.count(1);
        match parse_at(text, from) {
            PR::Panic(p) => {
                let w = rg::culprit_window(&text[from..], &parse_panics);
                return Some((format!("C11|parse_text|panic|{}", w), format!("parse_text({:?}) panicked: {}", &text[from..], p)));
            }
            PR::Incomplete => {
                return Some((
                    format!("C11|wf|complete-reported-incomplete|first:{},last:{}", first, last),
                    format!("parse_text({:?}) = Incomplete, but the text starts with the complete datum {:?}", &text[from..], &text[from..wf.toks[e - 1].end]),
                ));
            }
            PR::Error(_) => {
                // errors are not asserted; the sequence cannot be followed further
                ctx.class("wf:sequence-stopped-by-error");
                break;
            }
            PR::Ok(Err(why)) => {
                return Some((format!("C11|wf|remaining|first:{}|not-a-suffix", first), format!("parse_text({:?}): {}", &text[from..], why)));
            }
            PR::Ok(Ok(rest)) => {
                if rest != expected {
                    let kind = match (rest, expected) {
                        (None, Some(_)) => "none-but-tokens-follow",
                        (Some(_), None) => "some-but-nothing-follows",
                        (Some(a), Some(b)) if a < b => "too-early",
                        _ => "too-late",
                    };
                    return Some((
                        format!("C11|wf|remaining|first:{},last:{}|{}", first, last, kind),
                        format!("parse_text({:?}) reports remaining text at byte {:?}; the generated datum ends at byte {} and the next token starts at {:?}", &text[from..], rest, wf.toks[e - 1].end, expected),
                    ));
                }
                match rest {
                    Some(off) => from = off,
                    None => break,
                }
            }
        }
    }
    // (c) every top-level datum alone: full text never Incomplete, every proper token-boundary prefix Incomplete
    let mut cuts = 0u64;
    for k in 0..wf.datum_bounds.len() - 1 {
        let (s, e) = (wf.datum_bounds[k], wf.datum_bounds[k + 1]);
        let start = wf.toks[s].start;
        let datum_end = wf.toks[e - 1].end;
        for trailer in ["", wf.trailer] {
            let full = format!("{}{}", &text[start..wf.toks[e - 1].end], trailer);
            ctx.count(1);
            match parse_at(&full, 0) {
                PR::Panic(p) => {
                    let w = rg::culprit_window(&full, &parse_panics);
                    return Some((format!("C11|parse_text|panic|{}", w), format!("parse_text({:?}) panicked: {}", full, p)));
                }
                PR::Incomplete => {
                    return Some((
                        format!("C11|wf|complete-reported-incomplete|first:{},last:{}", wf.toks[s].kind, wf.toks[e - 1].kind),
                        format!("parse_text({:?}) = Incomplete for a complete datum", full),
                    ));
                }
                PR::Ok(Ok(Some(off))) => {
                    return Some((
                        format!("C11|wf|remaining|first:{},last:{}|some-but-nothing-follows", wf.toks[s].kind, wf.toks[e - 1].kind),
                        format!("parse_text({:?}) reports remaining text at byte {} although one datum and only whitespace/comment was given", full, off),
                    ));
                }
                PR::Ok(Err(why)) => {
                    return Some((format!("C11|wf|remaining|first:{}|not-a-suffix", wf.toks[s].kind), format!("parse_text({:?}): {}", full, why)));
                }
                PR::Ok(Ok(None)) | PR::Error(_) => {}
            }
            if trailer == wf.trailer && trailer.is_empty() {
                break;
            }
        }
        for cut in s + 1..e {
            // tokens s..cut are kept: ends inside the datum
            let state = rg::open_state(&tcs[s..cut]);
            assert_eq!(rg::ref_extent(&tcs[s..cut], 0), Extent::Incomplete, "harness: prefix not incomplete by the reference: {:?}", text);
            for trailer in ["", wf.trailer] {
                let prefix = format!("{}{}", &text[start..wf.toks[cut - 1].end], trailer);
                ctx.count(1);
                cuts += 1;
                let got = match parse_at(&prefix, 0) {
                    PR::Incomplete => None,
                    PR::Panic(p) => {
                        let w = rg::culprit_window(&prefix, &parse_panics);
                        return Some((format!("C11|parse_text|panic|{}", w), format!("parse_text({:?}) panicked: {}", prefix, p)));
                    }
                    PR::Error(msg) => Some(("error", msg)),
                    PR::Ok(_) => Some(("datum", "a datum".to_string())),
                };
                if let Some((what, msg)) = got {
                    return Some((
                        format!("C11|prefix|{}|last:{}|got-{}", state, wf.toks[cut - 1].kind, what),
                        format!("parse_text({:?}) = {} but the text is a token-boundary prefix of the well-formed datum {:?} and ends inside it", prefix, msg, &text[start..datum_end]),
                    ));
                }
                ctx.class(&format!("wf:cut:{}", state));
                if wf.trailer.is_empty() {
                    break;
                }
            }
        }
    }
    // (d) one cut of the whole sequence: complete data are visited, the cut one is Incomplete
    let n = wf.toks.len();
    if n >= 2 {
        let cut = 1 + cut_choice % (n - 1);
        if !wf.datum_bounds.contains(&cut) {
            let prefix = format!("{}{}", &text[..wf.toks[cut - 1].end], wf.trailer);
            let mut from = wf.toks[0].start;
            let mut k = 0;
            loop {
                let e = wf.datum_bounds[k + 1];
                ctx.count(1);
                let pr = parse_at(&prefix, from);
                if e <= cut {
                    // a complete datum of the prefix
                    match pr {
                        PR::Ok(Ok(Some(off))) if off == wf.toks[e].start => from = off,
                        PR::Error(_) => break,
                        PR::Panic(p) => return Some(("C11|parse_text|panic|context".into(), format!("parse_text({:?}) panicked: {}", &prefix[from..], p))),
                        _ => {
                            return Some((
                                format!("C11|wf|sequence-prefix|datum-{}-of-cut-sequence", if k == 0 { "first" } else { "later" }),
                                format!("looping parse_text over {:?}: datum {} was not returned with the remaining text at byte {}", prefix, k, wf.toks[e].start),
                            ))
                        }
                    }
                    k += 1;
                } else {
                    match pr {
                        PR::Incomplete => {
                            ctx.class("wf:sequence-cut-incomplete");
                        }
                        PR::Panic(p) => return Some(("C11|parse_text|panic|context".into(), format!("parse_text({:?}) panicked: {}", &prefix[from..], p))),
                        _ => {
                            return Some((
                                format!("C11|prefix|sequence|{}", rg::open_state(&tcs[wf.datum_bounds[k]..cut])),
                                format!("looping parse_text over {:?}: the last, cut datum {:?} was not reported Incomplete", prefix, &prefix[from..]),
                            ))
                        }
                    }
                    break;
                }
            }
        }
    }
    ctx.class_n("wf:prefixes-checked", cuts);
    None
}

fn wf_outcome(ctx: &Ctx, bytes: &[u8]) -> Outcome {
    if !enter_case(ctx, "wf", bytes) {
        return Outcome::Discard;
    }
    let mut c = Choices::new(bytes);
    let wf = rg::gen_wellformed(&mut c);
    let cut_choice = c.below(64);
    ctx.class("wf:cases");
    ctx.class_n("wf:tokens", wf.toks.len() as u64);
    for t in &wf.toks {
        ctx.class(&format!("wf:tok:{}", t.kind));
    }
    let render = json!({"text": wf.text, "trailer": wf.trailer});
    ctx.sample(|| json!({"kind": "wf", "text": wf.text, "trailer": wf.trailer}));
    if wf.toks.len() >= 3 {
        ctx.class("wf:nontrivial");
        note_nontrivial(ctx, &format!("wf:{}|{}", wf.text, wf.trailer));
    }
    // the general clauses on the full text too
    let mut st = TextStats::default();
    let mut res = check_text(&wf.text, &mut st);
    if res.is_none() {
        res = wf_check(ctx, &wf, cut_choice);
    }
    leave_case();
    match res {
        Some((sig, detail)) => Outcome::fail(sig, detail, render),
        None => Outcome::Pass,
    }
}

impl Prop for C11 {
    fn id(&self) -> &'static str {
        "C11"
    }
    fn fuzz_stage(&self) -> Option<(&'static str, u64, usize)> {
        Some(("reader", 3_000_000, 256))
    }
    fn rule(&self) -> &'static str {
        "uni: random Unicode strings (<= 40 scalars, heavy on # \\ \" ; ' ` , . brackets and whitespace kinds); soup: lexemes of every token class joined by random separators/comments/nothing; mut: corpus programs and generated datum texts with 1-4 character/token/subtree mutations; wf: well-formed datum sequences built by construction, every token-boundary prefix of every top-level datum checked with and without a whitespace/comment trailer. A text is non-trivial when the scanner returns >= 3 tokens of >= 2 token types or a multi-byte character touches a token boundary (wf: >= 3 tokens); distinct by text."
    }
    fn assumptions(&self) -> Vec<&'static str> {
        vec![
            "whitespace between tokens = Unicode White_Space (char::is_whitespace), comment = ';' to end of line",
            "extent of a datum = reference parser over the scanner's token types (bracket shapes ignored; number prefixes take the one token that follows)",
            "which texts are errors is not asserted; where the reference finds no datum but the parser returns one, only 'remaining text starts at a later token' is required",
            "a ';' directly after an identifier character belongs to the identifier in this lexer (known finding of C20): gaps are judged on the scanner's own spans, and well-formed texts always put whitespace before a comment",
            "well-formed texts use only lexemes whose token class follows from both R7RS and the lexer's grammar; prefix cuts are the generator's own token ends",
        ]
    }
    fn hang_is_violation(&self) -> bool {
        true
    }
    fn case_timeout_s(&self) -> u64 {
        30
    }
    fn run(&self, ctx: &Ctx) {
        start_watchdog();
        let n = |q: u32, t: u32| ctx.tier.pick(q, t);
        ctx.run_bytes("uni", n(100_000, 4_000_000), 200, |c, b| random_outcome(c, "uni", b));
        ctx.run_bytes("soup", n(100_000, 4_000_000), 96, |c, b| random_outcome(c, "soup", b));
        ctx.run_bytes("mut", n(60_000, 2_500_000), 160, |c, b| random_outcome(c, "mut", b));
        ctx.run_bytes("wf", n(25_000, 1_200_000), 160, wf_outcome);
    }
    fn replay(&self, ctx: &Ctx, kind: &str, payload: &Value) -> Outcome {
        let bytes = unhex(payload["bytes"].as_str().unwrap_or(""));
        match kind {
            "uni" => random_outcome(ctx, "uni", &bytes),
            "soup" => random_outcome(ctx, "soup", &bytes),
            "mut" => random_outcome(ctx, "mut", &bytes),
            "wf" => wf_outcome(ctx, &bytes),
            "fuzz:reader" => text_outcome(ctx, "fuzz", &String::from_utf8_lossy(&bytes), None),
            _ => {
                let text = payload["text"].as_str().unwrap_or("").to_string();
                text_outcome(ctx, "text", &text, None)
            }
        }
    }
}
