//! C12 — memory is bounded by live data: garbage of every kind is reclaimed.
//!
//! Domain: garbage-producing loop templates, one per allocation kind and a
//! mixed one, x live-set size {0, 10, 1000} x iteration counts n and 10n.
//! Oracles: (1) plateau: heap capacity, stack capacity and the process' live
//! allocated bytes (counting allocator) after 10n iterations are at most 1.5x
//! the values after n iterations plus a fixed slack; the live set is intact
//! afterwards (checksum); (2) exactness: immediately after every collection no
//! cell unreachable by the harness' own traversal remains allocated.

use crate::alloc::live_bytes;
use crate::ctx::{Ctx, Outcome, Tier};
use crate::props::c03::install_observer;
use crate::props::Prop;
use crate::session::{FormResult, RunOpts, SutSession};
use mwv_core::sx::{read, read_all, Sx};
use serde_json::{json, Value};

pub struct C12;

/// (name, setup forms, garbage expression using loop variable i, driven-from-harness?)
const LOOP_KINDS: [(&str, &str); 18] = [
    ("pairs", "(cons i i)"),
    ("lists", "(list i (list i i) i)"),
    ("vectors", "(make-vector 8 i)"),
    ("vector-literals-filled", "(vector i (vector i) \"s\")"),
    ("strings", "(string-append (make-string 4 #\\a) (number->string i))"),
    ("closures", "((lambda (x) (lambda (y) (+ x y i))) i)"),
    ("closure-environments", "(let ((a i) (b (list i))) ((lambda () (set! a (+ a 1)) (lambda () (cons a b)))))"),
    ("continuations", "(call/cc (lambda (k) k))"),
    // checkpointing: each iteration captures a continuation two frames deep and hands it to a
    // helper that remembers only the most recent one
    ("checkpoint-continuations", "(c12-checkpoint)"),
    ("eval-code", "(eval (list '+ i 1))"),
    ("eval-lambdas", "((eval (list 'lambda '(x) (list '+ 'x i))) 1)"),
    // code built at run time whose lexical variables have fresh names every time (generated code)
    ("eval-lambdas-with-fresh-parameter-names", "((eval (list 'lambda (list (string->symbol (string-append \"c12-p\" (number->string i)))) (string->symbol (string-append \"c12-p\" (number->string i))))) i)"),
    // library procedures that build a whole list, vector or string within one instruction
    ("bulk-allocating-builtins", "(list (reverse (vector->list (make-vector 40 i))) (list->vector (string->list (make-string 30 #\\b))) (string-append (make-string 20 #\\a) (number->string i)))"),
    ("interned-symbols", "(string->symbol (string-append \"c12-sym-\" (number->string i)))"),
    ("bignums", "(* 4294967296 4294967296 (+ i 1))"),
    ("floats-and-rationals", "(list (* 1.5 i) (/ (+ i 1) 7))"),
    ("promises", "(force (delay (list i)))"),
    ("mixed", "(list (cons i i) (make-vector 3 i) (number->string i) (lambda () i) (call/cc (lambda (k) k)) (string->symbol (string-append \"c12-mix-\" (number->string (remainder i 7)))))"),
];

/// templates where the harness itself issues one top-level evaluation per iteration
const TOPLEVEL_KINDS: [(&str, &str); 6] = [
    ("successive-evaluations", "(list {i} (quote (a b c)) \"lit\")"),
    ("redefinition-of-one-global", "(define c12-g (list {i} {i}))"),
    ("quoted-fresh-symbols", "(quote c12-lit-{i})"),
    ("lambda-per-evaluation", "((lambda (x) (cons x {i})) 1)"),
    ("fresh-unbound-global-names", "c12-unbound-{i}"),
    // every evaluation fails while it is compiled, after its literal has been put on the heap
    ("compile-failures-after-a-literal", "(let ((x '({i} 2 3 4 5 6 7 8 9 10))) (if))"),
];

struct Measure {
    heap_cap: usize,
    stack_cap: usize,
    bytes: usize,
    collections: u64,
}

fn measure(s: &mut SutSession) -> Measure {
    let heap_cap = s.vm.verif_heap().verif_cells().len();
    let stack_cap = s.vm.verif_stack().len();
    let collections = s.vm.verif_collections();
    // process memory is compared right after a collection: between collections it also holds the
    // buffers of garbage strings and vectors that the next collection frees, an amount that
    // depends on where in the collector's cycle the loop happened to stop
    s.vm.verif_force_gc();
    Measure { heap_cap, stack_cap, bytes: live_bytes(), collections }
}

fn eval_ok(s: &mut SutSession, f: &Sx) -> Result<Sx, String> {
    match s.eval_form(f).0 {
        FormResult::Value(v) => Ok(v),
        other => Err(format!("`{}` did not evaluate: {}", f, other.short())),
    }
}

fn run_template(ctx: &Ctx, kind: &str, live: usize, n: usize, sliced: bool) -> Option<(String, String)> {
    run_template_with(ctx, kind, live, n, sliced, false)
}

/// `rich`: every element of the live set is a record (a list holding two numbers, a string and a
/// vector: about a dozen cells) instead of one pair, so that 1000 live objects outgrow the first
/// heap chunk.
fn run_template_with(ctx: &Ctx, kind: &str, live: usize, n: usize, sliced: bool, rich: bool) -> Option<(String, String)> {
    // sliced: the whole computation is driven with prepare_eval + run_count(1000), the way the
    // wasm front end drives the VM (collections then only happen at the pauses)
    let mode = if sliced { crate::session::EvalMode::Sliced(vec![1000]) } else { crate::session::EvalMode::Whole };
    let mut s = SutSession::new(RunOpts { instr_budget: usize::MAX / 4, mode, ..RunOpts::default() });
    let obs = install_observer(&mut s, 1);
    // live set: a list of `live` fresh pairs, checksum known
    let element = if rich { "(list i (vector i \"record\") (make-string 2 #\\r) (* i 2))" } else { "(cons i (* i 2))" };
    let second = if rich { "(car (cdr (cdr (cdr (car l)))))" } else { "(cdr (car l))" };
    let setup = format!(
        "(define (c12-make n) (let loop ((i 0) (acc '())) (if (< i n) (loop (+ i 1) (cons {element} acc)) acc))) (define c12-live (c12-make {})) (define (c12-sum l acc) (if (null? l) acc (c12-sum (cdr l) (+ acc (car (car l)) {second})))) (define (c12-deep n) (if (= n 0) 0 (+ 1 (c12-deep (- n 1))))) (define c12-current #f) (define (c12-remember! k) (set! c12-current (cons 'checkpoint k))) (define (c12-checkpoint) (c12-remember! (call/cc (lambda (k) k)))) (c12-deep 600)",
        live,
        element = element,
        second = second
    );
    for f in read_all(&setup).unwrap() {
        if let Err(e) = eval_ok(&mut s, &f) {
            return Some(("C12|harness".into(), e));
        }
    }
    let expect_sum: i64 = (0..live as i64).map(|i| i * 3).sum();
    let loop_kind = LOOP_KINDS.iter().find(|(k, _)| *k == kind);
    let top_kind = TOPLEVEL_KINDS.iter().find(|(k, _)| *k == kind);
    let mut run_iters = |s: &mut SutSession, from: usize, to: usize| -> Result<(), String> {
        if let Some((_, expr)) = loop_kind {
            let src = format!(
                "(let loop ((i {})) (if (< i {}) (begin {} (loop (+ i 1))) 'done))",
                from, to, expr
            );
            eval_ok(s, &read(&src).map_err(|e| format!("{}: {}", e, src))?)?;
        } else if let Some((name, tpl)) = top_kind {
            for i in from..to {
                let f = read(&tpl.replace("{i}", &i.to_string())).map_err(|e| e.to_string())?;
                let r = s.eval_form(&f).0;
                let ok = matches!(r, FormResult::Value(_)) || ((*name == "fresh-unbound-global-names" || *name == "compile-failures-after-a-literal") && matches!(r, FormResult::Failed(_)));
                if !ok {
                    return Err(format!("`{}`: {}", f, r.short()));
                }
                if i % 512 == 0 {
                    ctx.beat();
                }
            }
        }
        Ok(())
    };
    // a workload that allocates hundreds of cells per instruction settles late: the heap has to
    // hold what can be allocated between two of the collector's periodic checks (every 8192
    // instructions), and it approaches that size in steps of 1.5x. Measured: plateau of 98,304
    // cells reached after ~10^5 iterations. The plateau is what the property is about, so such a
    // workload is warmed up before the two measurements.
    if kind == "bulk-allocating-builtins" {
        if let Err(e) = run_iters(&mut s, 0, 150_000) {
            return Some((format!("C12|{}|did-not-complete", kind), e));
        }
    }
    if let Err(e) = run_iters(&mut s, 0, n) {
        return Some((format!("C12|{}|did-not-complete", kind), e));
    }
    let m1 = measure(&mut s);
    if let Err(e) = run_iters(&mut s, n, 10 * n) {
        return Some((format!("C12|{}|did-not-complete", kind), e));
    }
    let m2 = measure(&mut s);
    // the live set must be intact
    match eval_ok(&mut s, &read("(c12-sum c12-live 0)").unwrap()) {
        Ok(v) => {
            if !Sx::int(expect_sum).matches(&v) {
                return Some((format!("C12|{}|live-set-damaged", kind), format!("checksum of the live set is {} instead of {}", v, expect_sum)));
            }
        }
        Err(e) => return Some((format!("C12|{}|live-set-damaged", kind), e)),
    }
    let o = obs.borrow();
    if let Some((k, d)) = o.failures.first() {
        return Some((format!("C12|{}|collector-invariant|{}", kind, k), d.clone()));
    }
    if o.max_unreachable_retained > 0 {
        return Some((
            format!("C12|{}|unreachable-cells-survive-collection", kind),
            format!("{} unreachable cell(s) still allocated right after a collection, e.g. {}", o.max_unreachable_retained, o.retained_example.clone().unwrap_or_default()),
        ));
    }
    if ctx.counting() {
        ctx.class(&format!("kind:{}", kind));
        if sliced {
            ctx.class("driven-in-slices-of-1000-instructions");
        }
        ctx.class_n("collections", m2.collections);
        ctx.extra_max("max_heap_capacity_cells", m2.heap_cap as u64);
        if m2.collections >= 3 {
            ctx.nontrivial_str(&format!("{}|{}|{}|{}|{}", kind, live, n, sliced, rich));
            if rich {
                ctx.class("live-set-of-records");
            }
        }
        ctx.sample(|| json!({"kind": kind, "live": live, "n": n, "sliced": sliced, "after_n": {"heap_cells": m1.heap_cap, "stack_slots": m1.stack_cap, "bytes": m1.bytes}, "after_10n": {"heap_cells": m2.heap_cap, "stack_slots": m2.stack_cap, "bytes": m2.bytes, "collections": m2.collections}}));
    }
    // whatever the history: a heap of more than 2^20 cells for at most ~12,000 live cells and
    // loops that allocate at most ~200 cells per iteration is out of all proportion (the largest
    // plateau on the unchanged tree is 98,304 cells). This also catches a runaway that the warm-up
    // or the first measurement has already absorbed.
    const OUT_OF_PROPORTION: usize = 1 << 20;
    if m2.heap_cap > OUT_OF_PROPORTION {
        return Some((
            format!("C12|{}|heap-out-of-proportion", kind),
            format!("heap capacity {} cells after {} iterations with a live set of {} objects", m2.heap_cap, 10 * n, live),
        ));
    }
    let grew = |a: usize, b: usize, slack: usize| b > a + a / 2 + slack;
    if grew(m1.heap_cap, m2.heap_cap, 8192) {
        return Some((format!("C12|{}|heap-grows-with-work", kind), format!("heap capacity {} cells after n={} iterations, {} after 10n (live set {})", m1.heap_cap, n, m2.heap_cap, live)));
    }
    if grew(m1.stack_cap, m2.stack_cap, 256) {
        return Some((format!("C12|{}|stack-grows-with-work", kind), format!("stack capacity {} after n={}, {} after 10n", m1.stack_cap, n, m2.stack_cap)));
    }
    if grew(m1.bytes, m2.bytes, 1 << 20) {
        return Some((format!("C12|{}|process-memory-grows-with-work", kind), format!("{} live bytes after n={} iterations, {} after 10n (live set {})", m1.bytes, n, m2.bytes, live)));
    }
    None
}

impl Prop for C12 {
    fn id(&self) -> &'static str {
        "C12"
    }
    fn rule(&self) -> &'static str {
        "garbage-producing loop templates, one per allocation kind (pairs, lists, vectors, strings, closures and their environments, continuations, checkpoint continuations handed to a recording helper after an earlier 600-deep recursion, code compiled by eval, lambdas compiled by eval (also with fresh parameter names every time), builtins that allocate a whole list/vector/string in one instruction, interned symbols, bignums, floats/rationals, promises, mixed) and six harness-driven kinds (successive top-level evaluations, redefinition of one global, fresh quoted symbols, a lambda per evaluation, fresh unbound global names, evaluations that fail at compile time after allocating a literal) x live-set size {0, 10, 1000 pairs; for eight kinds also 1000 records of about 12 cells each, so that the live data outgrows the first heap chunk} x n and 10n (quick n=5000, thorough n=10^5). Heap capacity, stack capacity and process live bytes after 10n must be <= 1.5x the values after n + slack (8192 cells / 256 slots / 1 MiB); heap capacity must never exceed 2^20 cells; the live set's checksum must be intact; after every collection no cell unreachable by the harness' traversal may remain allocated. Non-trivial: at least 3 collections happened; distinct by (kind, live, n)."
    }
    fn assumptions(&self) -> Vec<&'static str> {
        vec![
            "growth is decided at n vs 10n with a threshold a one-cell-per-iteration leak exceeds several times over; not proved for all n",
            "process live bytes come from a counting global allocator in the harness binary (includes the harness' own small bookkeeping) and are read right after a forced collection",
        ]
    }
    fn run(&self, ctx: &Ctx) {
        let n = ctx.tier.pick(20_000usize, 200_000usize);
        let mut idx = 0;
        let kinds: Vec<&str> = LOOP_KINDS.iter().map(|(k, _)| *k).chain(TOPLEVEL_KINDS.iter().map(|(k, _)| *k)).collect();
        for kind in kinds {
            for live in [0usize, 10, 1000] {
                idx += 1;
                if idx % ctx.nshards != ctx.shard {
                    continue;
                }
                let is_top = TOPLEVEL_KINDS.iter().any(|(k, _)| *k == kind);
                // harness-driven kinds cost a compile per iteration
                let nn = if is_top { n / 5 } else { n };
                ctx.count(1);
                ctx.beat();
                if let Some((sig, detail)) = run_template(ctx, kind, live, nn, false) {
                    ctx.report("template", json!({"kind": kind, "live": live, "n": nn}), &sig, &detail);
                }
            }
        }
        // a live set of 1000 records (about 12 cells each): the live data alone is larger than
        // the first heap chunk
        for kind in ["pairs", "strings", "closures", "continuations", "mixed", "successive-evaluations", "bulk-allocating-builtins", "eval-lambdas-with-fresh-parameter-names"] {
            idx += 1;
            if idx % ctx.nshards != ctx.shard {
                continue;
            }
            ctx.count(1);
            ctx.beat();
            let is_top = TOPLEVEL_KINDS.iter().any(|(k, _)| *k == kind);
            let nn = if is_top { n / 5 } else { n };
            if let Some((sig, detail)) = run_template_with(ctx, kind, 1000, nn, false, true) {
                ctx.report("template", json!({"kind": kind, "live": 1000, "n": nn, "rich": true}), &format!("{}|records", sig), &detail);
            }
        }
        // the same loops driven in slices (prepare_eval + run_count(1000))
        for kind in ["pairs", "closure-environments", "continuations", "checkpoint-continuations", "eval-code", "interned-symbols", "mixed"] {
            idx += 1;
            if idx % ctx.nshards != ctx.shard {
                continue;
            }
            ctx.count(1);
            ctx.beat();
            let nn = n / 2;
            if let Some((sig, detail)) = run_template(ctx, kind, 10, nn, true) {
                ctx.report("template", json!({"kind": kind, "live": 10, "n": nn, "sliced": true}), &format!("{}|sliced", sig), &detail);
            }
        }
    }
    fn replay(&self, ctx: &Ctx, _kind: &str, payload: &Value) -> Outcome {
        let sliced = payload["sliced"].as_bool().unwrap_or(false);
        let kind = payload["kind"].as_str().unwrap_or("").to_string();
        let live = payload["live"].as_u64().unwrap_or(0) as usize;
        let n = payload["n"].as_u64().unwrap_or(1000) as usize;
        let rich = payload["rich"].as_bool().unwrap_or(false);
        match run_template_with(ctx, &kind, live, n, sliced, rich) {
            Some((sig, detail)) => {
                let sig = if sliced { format!("{}|sliced", sig) } else { sig };
                let sig = if rich { format!("{}|records", sig) } else { sig };
                Outcome::fail(sig, detail, payload.clone())
            }
            None => Outcome::Pass,
        }
    }
    fn case_timeout_s(&self) -> u64 {
        900
    }
    fn replay_timeout_s(&self) -> u64 {
        300
    }
    fn shards(&self, _tier: Tier) -> usize {
        16
    }
}
