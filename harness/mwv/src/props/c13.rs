//! C13 — sliced execution is equivalent to uninterrupted execution.
//!
//! Domain: sessions of the C01/C05 generators x budget sequences (constant
//! budgets 1..64 for short programs, random log-uniform sequences in 1..10^4
//! otherwise). Oracle: differential VM_A `prepare_eval`+one big `run_count`
//! vs VM_B `prepare_eval`+`run_count(b_i)` until Some/Err: same per-form value
//! or failure, same output, same final value of every global of the session;
//! progress: the number of resumes is bounded by the uninterrupted instruction
//! count and no slice executes more than its budget.

use crate::ctx::{Ctx, Outcome, Tier};
use crate::props::c05::cfg as callcc_cfg;
use crate::props::Prop;
use crate::session::{render_session, FormResult, RunOpts, SutSession};
use crate::sut::{cell_to_sx, guard};
use marwood::parse;
use mwv_core::choice::{unhex, Choices};
use mwv_core::pg::{Cfg, Gen};
use mwv_core::sx::{read_all, Sx};
use serde_json::{json, Value};

pub struct C13;

pub fn no_probe_cfg() -> Cfg {
    Cfg {
        probe_temp_capture: 0,
        ..callcc_cfg()
    }
}

struct SliceStats {
    suspensions: u64,
    max_ticks_over_budget: i64,
}

/// Evaluate one form in slices; returns the result and the number of suspensions.
fn eval_sliced(s: &mut SutSession, form: &Sx, budgets: &[usize], whole_ticks: u64, st: &mut SliceStats, gc_at_pause: bool) -> Result<FormResult, (String, String)> {
    let text = form.to_string();
    let vm = &mut s.vm;
    let r = guard(|| -> Result<FormResult, (String, String)> {
        let (cell, _) = match parse::parse_text(&text) {
            Ok(x) => x,
            Err(e) => return Ok(FormResult::Unreadable(e.to_string())),
        };
        if let Err(e) = vm.prepare_eval(&cell) {
            return Ok(FormResult::Failed(e.to_string()));
        }
        let mut i = 0usize;
        let mut resumes: u64 = 0;
        loop {
            let b = budgets[i % budgets.len()].max(1);
            i += 1;
            let before = vm.verif_instructions();
            let r = vm.run_count(b);
            let ticks = vm.verif_instructions() - before;
            // a slice dispatches at most `b` instructions (the loop ticks once more when it stops)
            let over = ticks as i64 - (b as i64 + 1);
            if over > st.max_ticks_over_budget {
                st.max_ticks_over_budget = over;
            }
            if over > 0 {
                return Err(("C13|slice-exceeds-budget".into(), format!("run_count({}) dispatched {} loop iterations", b, ticks)));
            }
            match r {
                Ok(Some(c)) => return Ok(FormResult::Value(cell_to_sx(&c))),
                Err(e) => return Ok(FormResult::Failed(e.to_string())),
                Ok(None) => {
                    resumes += 1;
                    st.suspensions += 1;
                    if gc_at_pause {
                        // a pause is a collection point (run_count collects when the heap is
                        // >= 75% full): force it, through the real run_gc
                        vm.verif_force_gc();
                    }
                    // progress: with every budget >= 1 the evaluation needs at most as many
                    // resumes as the uninterrupted run has instructions (+ slack)
                    if resumes > whole_ticks + 8 {
                        let min_b = budgets.iter().min().copied().unwrap_or(1);
                        return Err((
                            format!("C13|no-progress|min-budget={}", if min_b == 1 { "1".to_string() } else { ">1".to_string() }),
                            format!("{} resumes with budgets {:?} did not complete a form that takes {} loop iterations uninterrupted", resumes, &budgets[..budgets.len().min(8)], whole_ticks),
                        ));
                    }
                }
            }
        }
    });
    match r {
        Ok(x) => x,
        Err(p) => Ok(FormResult::Panic(p)),
    }
}

fn same(a: &FormResult, b: &FormResult) -> bool {
    match (a, b) {
        (FormResult::Value(x), FormResult::Value(y)) => x.matches(y) && y.matches(x),
        (FormResult::Failed(_), FormResult::Failed(_)) => true,
        _ => false,
    }
}

fn check(ctx: &Ctx, forms: &[Sx], globals: &[String], budgets: &[usize], label: &str, gc_at_pause: bool) -> Outcome {
    // the reference interpreter (with its step budget) screens out programs that diverge
    // or leave the language the generators are sound for
    let ri = crate::session::run_ri(forms, 200_000);
    if ri.comparable == 0 {
        ctx.discard("reference: nothing comparable");
        return Outcome::Discard;
    }
    let forms = &forms[..ri.comparable.min(forms.len())];
    let render = json!({"program": render_session(forms), "budgets": budgets, "globals": globals, "collect_at_every_pause": gc_at_pause});
    let mut a = SutSession::new(RunOpts::default());
    let mut b = SutSession::new(RunOpts::default());
    let mut st = SliceStats { suspensions: 0, max_ticks_over_budget: i64::MIN };
    let mut total_ticks = 0u64;
    for (i, f) in forms.iter().enumerate() {
        let t0 = a.vm.verif_instructions();
        let (ra, oa) = a.eval_form(f);
        let ticks = a.vm.verif_instructions() - t0;
        total_ticks += ticks;
        if matches!(ra, FormResult::OverBudget | FormResult::Panic(_) | FormResult::Unreadable(_)) {
            ctx.discard("uninterrupted run over budget or panicked");
            return Outcome::Discard;
        }
        let rb = match eval_sliced(&mut b, f, budgets, ticks, &mut st, gc_at_pause) {
            Ok(r) => r,
            Err((sig, detail)) => {
                return Outcome::fail(sig, format!("form #{} `{}`: {}", i, f, detail), render);
            }
        };
        let ob: Vec<(bool, Sx)> = b.cap.take().iter().map(|(w, c)| (*w, cell_to_sx(c))).collect();
        if let FormResult::Panic(p) = &rb {
            return Outcome::fail("C13|panic", format!("form #{} `{}` panicked when sliced: {}", i, f, p), render);
        }
        if !same(&ra, &rb) {
            return Outcome::fail(
                "C13|result-differs",
                format!("form #{} `{}`: uninterrupted {} / sliced ({} {:?}) {}", i, f, ra.short(), label, &budgets[..budgets.len().min(6)], rb.short()),
                render,
            );
        }
        let same_out = oa.len() == ob.len() && oa.iter().zip(ob.iter()).all(|((w1, x), (w2, y))| w1 == w2 && x.matches(y));
        if !same_out {
            return Outcome::fail("C13|output-differs", format!("form #{} `{}`: output differs when sliced", i, f), render);
        }
    }
    // global effects
    for g in globals {
        let (ra, _) = a.eval_form(&Sx::sym(g));
        let rb = match eval_sliced(&mut b, &Sx::sym(g), budgets, 16, &mut st, gc_at_pause) {
            Ok(r) => r,
            Err((sig, detail)) => return Outcome::fail(sig, format!("probe of global {}: {}", g, detail), render),
        };
        b.cap.take();
        if !same(&ra, &rb) {
            return Outcome::fail("C13|global-differs", format!("global {}: uninterrupted {} / sliced {}", g, ra.short(), rb.short()), render);
        }
    }
    if ctx.counting() {
        ctx.class(&format!("budgets:{}", label));
        if gc_at_pause {
            ctx.class("collection-forced-at-every-pause");
        }
        ctx.class_n("suspensions", st.suspensions);
        ctx.class_n("instructions-uninterrupted", total_ticks);
        if st.suspensions >= 2 {
            ctx.nontrivial_str(&format!("{}|{:?}", render_session(forms), budgets));
        }
        ctx.sample(|| render.clone());
    }
    Outcome::Pass
}

fn decode_budgets(c: &mut Choices) -> (Vec<usize>, &'static str) {
    match c.below(4) {
        0 => (vec![1 + c.below(64)], "constant-1..64"),
        1 => (vec![1], "constant-1"),
        _ => {
            let n = 1 + c.below(8);
            let mut v = vec![];
            for _ in 0..n {
                // log-uniform in 1..10^4
                let e = c.below(14) as u32;
                let base = 1usize << e;
                v.push((base + c.below(base)).min(10_000));
            }
            (v, "random-1..10^4")
        }
    }
}

fn case(ctx: &Ctx, bytes: &[u8]) -> Outcome {
    let mut c = Choices::new(bytes);
    let (budgets, label) = decode_budgets(&mut c);
    let gc_at_pause = c.flip();
    let sess = {
        let mut g = Gen::new(&mut c, no_probe_cfg());
        g.session()
    };
    check(ctx, &sess.forms, &sess.globals, &budgets, label, gc_at_pause)
}

/// C05's deep captures (a continuation stored under up to 600 pending calls, re-entered from
/// shallow and deep later forms, optionally after a failed evaluation) under a budget sequence.
fn deep_case(ctx: &Ctx, bytes: &[u8]) -> Outcome {
    let mut c = Choices::new(bytes);
    let (budgets, label) = decode_budgets(&mut c);
    // a collection at every pause marks the whole (hundreds of frames deep) stack: with budgets of
    // a few instructions one such case costs minutes, so those combine with larger budgets only
    let gc_at_pause = c.flip() && budgets.iter().all(|b| *b >= 16);
    let forms = crate::props::c05::deep_program(&mut c);
    let globals = vec!["cd".to_string(), "log".to_string()];
    check(ctx, &forms, &globals, &budgets, label, gc_at_pause)
}

impl Prop for C13 {
    fn id(&self) -> &'static str {
        "C13"
    }
    fn rule(&self) -> &'static str {
        "sessions of the C01/C05 generators (call/cc productions on) and C05's deep captures (a continuation stored under up to 600 pending calls, re-entered from later shallow and deep forms) x a budget sequence (constant 1, constant k in 1..64, or 1-8 random budgets log-uniform in 1..10^4, cycled); VM_A runs each form uninterrupted, VM_B with prepare_eval + run_count(b_i); per-form value/failure/output and the final value of every session global are compared; every slice must stay within its budget and the number of resumes within the uninterrupted instruction count. Non-trivial: the sliced run was actually suspended >= 2 times; distinct by (program, budgets)."
    }
    fn assumptions(&self) -> Vec<&'static str> {
        vec![
            "differential: the uninterrupted run of the same build is the reference (its own correctness is C01/C05's business)",
            "instruction counts come from the verif hook (loop iterations of run_count)",
        ]
    }
    fn run(&self, ctx: &Ctx) {
        ctx.journal_bytes.set(true);
        let cases = ctx.tier.pick(1_000u32, 14_000u32);
        ctx.run_bytes("session", cases, 1536, case);
        let deep = ctx.tier.pick(16u32, 400u32);
        ctx.run_bytes("deep", deep, 32, deep_case);
        // constant budgets 1..64 exhaustively on short fixed programs
        let progs = [
            "(+ 1 2)",
            "(define (f n) (if (= n 0) 0 (+ n (f (- n 1))))) (f 20)",
            "(define k #f) (define n 0) (+ 1 (call/cc (lambda (c) (set! k c) 1))) (if (< n 3) (begin (set! n (+ n 1)) (k n)) n)",
            "(apply + (map (lambda (x) (* x x)) '(1 2 3 4)))",
            "(eval '(let loop ((i 0)) (if (< i 10) (loop (+ i 1)) i)))",
            "(define v (make-vector 3 0)) (for-each (lambda (i) (vector-set! v i (* i i))) '(0 1 2)) v",
            "`(1 ,(+ 1 1) #(a ,(car '(b))))",
            "(car '())",
        ];
        for (pi, p) in progs.iter().enumerate() {
            if pi % ctx.nshards != ctx.shard % progs.len() || ctx.shard >= progs.len() {
                continue;
            }
            let forms = read_all(p).unwrap();
            for b in 1..=64usize {
                ctx.count(1);
                ctx.beat();
                for gc in [false, true] {
                    if let Outcome::Fail { sig, detail, render } = check(ctx, &forms, &[], &[b], "exhaustive-constant", gc) {
                        ctx.report("program", render, &sig, &detail);
                    }
                }
            }
        }
    }
    fn replay(&self, ctx: &Ctx, kind: &str, payload: &Value) -> Outcome {
        match kind {
            "program" => {
                let forms = match read_all(payload["program"].as_str().unwrap_or("")) {
                    Ok(f) => f,
                    Err(_) => return Outcome::Discard,
                };
                let budgets: Vec<usize> = payload["budgets"].as_array().map(|a| a.iter().filter_map(|x| x.as_u64()).map(|x| x as usize).collect()).unwrap_or_else(|| vec![1]);
                let globals: Vec<String> = payload["globals"].as_array().map(|a| a.iter().filter_map(|x| x.as_str()).map(|x| x.to_string()).collect()).unwrap_or_default();
                check(ctx, &forms, &globals, &budgets, "replay", payload["collect_at_every_pause"].as_bool().unwrap_or(false))
            }
            "deep" => deep_case(ctx, &unhex(payload["bytes"].as_str().unwrap_or(""))),
            _ => case(ctx, &unhex(payload["bytes"].as_str().unwrap_or(""))),
        }
    }
    fn shards(&self, _tier: Tier) -> usize {
        16
    }
}
