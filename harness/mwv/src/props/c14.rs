//! C14 — list and vector procedures match R7RS 6.4/6.8 and preserve identity.
//!
//! Domain: operation sequences (<= 12 operations after 2..8 object definitions)
//! over a pool of <= 8 globals p0..p7 holding proper/improper lists, lists
//! sharing tails, vectors (empty, nested, holding pool pairs) and scalars.
//! Oracle: the reference store model `mwv_core::store::lv` (objects with
//! identity); after every operation the result, the whole contents of every
//! pool object and the identity of every shared object are compared.

use crate::ctx::{Ctx, Outcome, Tier};
use crate::props::script::{minimise, remember_failure, run_script, script_text_of, skip_shrink_candidate, RunInfo};
use crate::props::Prop;
use mwv_core::choice::{unhex, Choices};
use mwv_core::store::lv;
use serde_json::{json, Value};

pub struct C14;

/// Is `op|class` the trigger of a listed known finding? Such features are
/// generated at a probe rate (1 in 8) so that the search goes on behind them.
pub fn damp_for<'a>(ctx: &'a Ctx, id: &'a str) -> impl Fn(&str, &str) -> bool + 'a {
    let prefixes: Vec<String> = if ctx.strict {
        vec![]
    } else {
        ctx.known
            .for_property(id)
            .map(|f| f.sig.trim_end_matches('*').to_string())
            .collect()
    };
    let id = id.to_string();
    move |op: &str, class: &str| {
        let p = format!("{}|{}|{}|", id, op, class);
        prefixes.iter().any(|k| k.starts_with(&p) || p.starts_with(k.as_str()))
    }
}

fn run_steps(ctx: &Ctx, steps: &[lv::Step], stats: Option<&mwv_core::store::GenStats>) -> Outcome {
    let text = lv::render_steps(steps);
    // the case must survive printing and re-reading: replay files carry the text
    match lv::parse_script(&text) {
        Ok(back) if back == steps => {}
        other => {
            return Outcome::fail(
                "C14|harness|script-text-does-not-round-trip",
                format!("{:?}", other.err()),
                json!({"script": text}),
            )
        }
    }
    let script = match lv::build_script(steps) {
        Ok(s) => s,
        Err(e) => {
            ctx.discard(&format!("model-rejects: {}", e.split(": ").last().unwrap_or("")));
            return Outcome::Discard;
        }
    };
    // statistics
    let mut sig_parts = vec![];
    let mut nontrivial = false;
    let mut alias_mut = false;
    for s in script.steps.iter() {
        sig_parts.push(format!("{}|{}", s.op, s.class));
        nontrivial |= s.nontrivial;
        if s.mutator && s.nontrivial {
            alias_mut = true;
        }
        ctx.class(&format!("op:{}", s.op));
        match &s.expect {
            mwv_core::store::Expect::Error => ctx.class("expect:error"),
            mwv_core::store::Expect::ValueOrError(_) | mwv_core::store::Expect::AnyOutcome => ctx.class("expect:open"),
            _ => ctx.class("expect:value"),
        }
        ctx.class_n("audit-probes", s.audits.len() as u64);
    }
    ctx.class_n("steps", script.steps.len() as u64);
    if nontrivial {
        ctx.nontrivial_str(&sig_parts.join(";"));
        ctx.class("seq:nontrivial");
    }
    if alias_mut {
        ctx.class("seq:mutation-through-alias-or-boundary-mutator");
    }
    if let Some(g) = stats {
        ctx.class_n("gen:skipped-cycle", g.skipped_cycle as u64);
        ctx.class_n("gen:skipped-size", g.skipped_size as u64);
        ctx.class_n("gen:damped-known-trigger", g.damped as u64);
    }
    ctx.sample(|| json!({"script": text}));
    // Every case is journaled before it runs, so that an abort or a hang of the worker is
    // attributed to its input (and skipped when the shard is restarted). The signature of such an
    // outcome names the step with a huge integer argument if there is one (the usual way to make
    // a procedure allocate without bound), otherwise just the sequence.
    if !ctx.strict && ctx.counting() {
        let huge = steps.iter().position(|s| s.args.iter().any(|a| matches!(a, lv::Arg::Int(i) if i.abs() >= (1 << 31))));
        let hang_sig = match huge {
            Some(i) => format!("C14|{}|{}", script.steps[i].op, script.steps[i].class),
            None => "C14|seq".to_string(),
        };
        if !ctx.journal(&json!({"kind": "seq", "payload": {"script": text, "hang_sig": hang_sig}})) {
            ctx.discard("skipped: aborted or hung in an earlier incarnation of this shard");
            return Outcome::Discard;
        }
    }
    let mut info = RunInfo { executed: 0, cut_short: false, tolerated: 0 };
    let out = run_script(ctx, "C14", "seq", &script, &text, &mut info, true);
    if info.cut_short {
        ctx.class("seq:cut-short-after-known-finding");
    }
    if info.tolerated > 0 {
        ctx.class("seq:with-tolerated-step");
    }
    ctx.class_n("steps-executed", info.executed as u64);
    out
}

/// Failure signature of explicit steps, without touching the statistics (used by the minimiser).
fn failure_of(ctx: &Ctx, steps: &[lv::Step]) -> Option<(String, String)> {
    let script = lv::build_script(steps).ok()?;
    let text = lv::render_steps(steps);
    let mut info = RunInfo { executed: 0, cut_short: false, tolerated: 0 };
    match run_script(ctx, "C14", "seq", &script, &text, &mut info, false) {
        Outcome::Fail { sig, detail, .. } => Some((sig, detail)),
        _ => None,
    }
}

fn seq_outcome(ctx: &Ctx, bytes: &[u8]) -> Outcome {
    if skip_shrink_candidate(ctx, bytes) {
        return Outcome::Pass;
    }
    let mut c = Choices::new(bytes);
    let damp = damp_for(ctx, "C14");
    let (steps, stats) = lv::gen_case(&mut c, &damp);
    if steps.is_empty() {
        return Outcome::Discard;
    }
    match run_steps(ctx, &steps, Some(&stats)) {
        Outcome::Fail { sig, detail, render } if !ctx.strict => {
            // minimise structurally, here and now; the replay file carries the minimal script
            remember_failure(bytes);
            let min = minimise(&steps, &sig, |cand| failure_of(ctx, cand).map(|f| f.0));
            match failure_of(ctx, &min) {
                Some((s2, d2)) if s2 == sig => Outcome::fail(sig, d2, json!({"script": lv::render_steps(&min), "generated_script": render["script"]})),
                _ => Outcome::fail(sig, detail, render),
            }
        }
        other => other,
    }
}

impl Prop for C14 {
    fn id(&self) -> &'static str {
        "C14"
    }
    fn rule(&self) -> &'static str {
        "operation sequences decoded from choice bytes: 2..8 definitions of pool objects p0..p7 (lists, improper lists, shared tails, vectors incl. empty/nested, association entries, scalars) followed by <= 12 operations drawn from the procedures of the statement, indices from {-1,0,1,mid,len-1,len,len+1,len+7,2^40,2^64+5}; a step that would create a cycle or an object of > 160 nodes is skipped. A sequence is non-trivial when it contains a mutator applied to an object reachable through >= 2 pool paths, or an index argument at a boundary (0, len-1, len, len+1); distinct by the sequence of (operation, input class) pairs."
    }
    fn assumptions(&self) -> Vec<&'static str> {
        vec![
            "the reference store model (mwv-core/src/store.rs, written from R7RS 6.4, 6.8 and 6.1 equal?) is the oracle",
            "forms are injected as Cells, so the SUT's reader is not part of this check; results are converted structurally, the SUT's printer is not used",
            "identity is audited by a mutation through one access path observed through another (then undone), not by eq?: the SUT's eq? on pairs compares car and cdr, which the suite pins",
            "where R7RS says only 'it is an error' but a sensible answer exists (list-tail/list-ref/memq/assq on improper lists before the improper tail, association lists with non-pair elements) the answer or an error are both accepted",
            "vector-copy is called with 0 or 1 optional argument only; memq/assq keys are symbols, booleans, (), characters and small exact integers (eq? on those is pinned), memv/assv additionally big exact integers",
            "map callbacks are pure (id, cons, list, vector); for-each order is observed with a recording callback",
            "wrong-type container arguments (a vector where a list is expected is treated as an improper list; mutators and vector procedures only receive their own type) are outside the statement and not generated",
        ]
    }
    fn run(&self, ctx: &Ctx) {
        let cases = ctx.tier.pick(2_000u32, 60_000u32);
        ctx.run_bytes("seq", cases, 400, seq_outcome);
    }
    fn replay(&self, ctx: &Ctx, _kind: &str, payload: &Value) -> Outcome {
        if let Some(text) = script_text_of(payload) {
            return match lv::parse_script(&text) {
                Ok(steps) => run_steps(ctx, &steps, None),
                Err(e) => Outcome::fail("C14|harness|unreadable-script", e, payload.clone()),
            };
        }
        seq_outcome(ctx, &unhex(payload["bytes"].as_str().unwrap_or("")))
    }
    fn shards(&self, _tier: Tier) -> usize {
        16
    }
    fn hang_is_violation(&self) -> bool {
        // sequences are finite and acyclic: a hang or abort is not "reporting an error"
        true
    }
    fn case_timeout_s(&self) -> u64 {
        60
    }
}
