//! C15 — string and character procedures index by character over all of Unicode.
//!
//! Domain: operation sequences (<= 10 operations after 2..5 string definitions,
//! some aliased) over a pool of <= 6 strings s0..s5 mixing 1-, 2-, 3- and
//! 4-byte characters and the empty string.
//! Oracle: `mwv_core::store::st`, a `Vec<char>` model per string object with
//! identity; after every operation the result and every pool string are
//! compared. Case-insensitive predicates are checked against the SUT's own
//! fold (metamorphic), case conversion and character predicates against
//! Rust's std Unicode tables.

use crate::ctx::{Ctx, Outcome, Tier};
use crate::props::c14::damp_for;
use crate::props::script::{minimise, remember_failure, run_script, script_text_of, skip_shrink_candidate, RunInfo};
use crate::props::Prop;
use mwv_core::choice::{unhex, Choices};
use mwv_core::store::{st, Expect, GenStats};
use serde_json::{json, Value};

pub struct C15;

fn run_steps(ctx: &Ctx, steps: &[st::Step], stats: Option<&GenStats>) -> Outcome {
    let text = st::render_steps(steps);
    match st::parse_script(&text) {
        Ok(back) if back == steps => {}
        other => {
            return Outcome::fail(
                "C15|harness|script-text-does-not-round-trip",
                format!("{:?}", other.err()),
                json!({"script": text}),
            )
        }
    }
    let script = match st::build_script(steps) {
        Ok(s) => s,
        Err(e) => {
            ctx.discard(&format!("model-rejects: {}", e.split(": ").last().unwrap_or("")));
            return Outcome::Discard;
        }
    };
    let mut parts = vec![];
    let mut nontrivial = false;
    for s in script.steps.iter() {
        parts.push(format!("{}|{}", s.op, s.class));
        nontrivial |= s.nontrivial;
        ctx.class(&format!("op:{}", s.op));
        match &s.expect {
            Expect::Error => ctx.class("expect:error"),
            Expect::SameAs(_) => ctx.class("expect:same-as-folded"),
            _ => ctx.class("expect:value"),
        }
        if s.mutator && s.nontrivial {
            ctx.class("step:mutator-on-multibyte-or-boundary");
        }
    }
    let mut widths = [0u64; 5];
    let mut aliased = false;
    for s in steps.iter() {
        if s.op == "ref" {
            aliased = true;
        }
        for a in s.args.iter() {
            let cs: Vec<char> = match a {
                st::Arg::Lit(t) => t.chars().collect(),
                st::Arg::Char(c) => vec![*c],
                st::Arg::Chars(cs) => cs.clone(),
                _ => vec![],
            };
            if let st::Arg::Lit(t) = a {
                if t.is_empty() {
                    widths[0] += 1;
                }
            }
            for c in cs {
                widths[c.len_utf8()] += 1;
            }
        }
    }
    ctx.class_n("chars:empty-string-literals", widths[0]);
    for w in 1..5 {
        ctx.class_n(&format!("chars:{}-byte", w), widths[w]);
    }
    if aliased {
        ctx.class("seq:with-aliased-string");
    }
    ctx.class_n("steps", script.steps.len() as u64);
    if nontrivial {
        // distinct by operations, input classes and the width profile of the characters involved
        ctx.nontrivial_str(&format!("{}#{:?}", parts.join(";"), widths));
        ctx.class("seq:nontrivial");
    }
    if let Some(g) = stats {
        ctx.class_n("gen:damped-known-trigger", g.damped as u64);
    }
    ctx.sample(|| json!({"script": text}));
    // Every case is journaled before it runs, so that an abort or a hang of the worker is
    // attributed to its input (and skipped when the shard is restarted). The signature of such an
    // outcome names the step with a huge integer argument if there is one (the usual way to make
    // a procedure allocate without bound), otherwise just the sequence.
    if !ctx.strict && ctx.counting() {
        let huge = steps.iter().position(|s| s.args.iter().any(|a| matches!(a, st::Arg::Int(i) if i.abs() >= (1 << 31))));
        let hang_sig = match huge {
            Some(i) => format!("C15|{}|{}", script.steps[i].op, script.steps[i].class),
            None => "C15|seq".to_string(),
        };
        if !ctx.journal(&json!({"kind": "seq", "payload": {"script": text, "hang_sig": hang_sig}})) {
            ctx.discard("skipped: aborted or hung in an earlier incarnation of this shard");
            return Outcome::Discard;
        }
    }
    let mut info = RunInfo { executed: 0, cut_short: false, tolerated: 0 };
    let out = run_script(ctx, "C15", "seq", &script, &text, &mut info, true);
    if info.cut_short {
        ctx.class("seq:cut-short-after-known-finding");
    }
    if info.tolerated > 0 {
        ctx.class("seq:with-tolerated-step");
    }
    ctx.class_n("steps-executed", info.executed as u64);
    out
}

/// Failure signature of explicit steps, without touching the statistics (used by the minimiser).
fn failure_of(ctx: &Ctx, steps: &[st::Step]) -> Option<(String, String)> {
    let script = st::build_script(steps).ok()?;
    let text = st::render_steps(steps);
    let mut info = RunInfo { executed: 0, cut_short: false, tolerated: 0 };
    match run_script(ctx, "C15", "seq", &script, &text, &mut info, false) {
        Outcome::Fail { sig, detail, .. } => Some((sig, detail)),
        _ => None,
    }
}

fn seq_outcome(ctx: &Ctx, bytes: &[u8]) -> Outcome {
    if skip_shrink_candidate(ctx, bytes) {
        return Outcome::Pass;
    }
    let mut c = Choices::new(bytes);
    let damp = damp_for(ctx, "C15");
    let (steps, stats) = st::gen_case(&mut c, &damp);
    if steps.is_empty() {
        return Outcome::Discard;
    }
    match run_steps(ctx, &steps, Some(&stats)) {
        Outcome::Fail { sig, detail, render } if !ctx.strict => {
            // minimise structurally, here and now; the replay file carries the minimal script
            remember_failure(bytes);
            let min = minimise(&steps, &sig, |cand| failure_of(ctx, cand).map(|f| f.0));
            match failure_of(ctx, &min) {
                Some((s2, d2)) if s2 == sig => Outcome::fail(sig, d2, json!({"script": st::render_steps(&min), "generated_script": render["script"]})),
                _ => Outcome::fail(sig, detail, render),
            }
        }
        other => other,
    }
}

impl Prop for C15 {
    fn id(&self) -> &'static str {
        "C15"
    }
    fn rule(&self) -> &'static str {
        "operation sequences decoded from choice bytes: 2..5 definitions of pool strings s0..s5 (literals and random strings over palettes of 1-, 2-, 3-, 4-byte characters plus arbitrary scalar values, the empty string, aliases of earlier strings) followed by <= 10 operations from the statement; start/end/index from {-1,0,1,mid,len-1,len,len+1,len+7,2^40,2^64+5}, integer->char arguments across 0xD7FF-0xE000, 0x10FFFF-0x110001, negative, 2^32+65, 2^63, 2^64+65. A sequence is non-trivial when an index/range operation or a mutator touches a string containing a multi-byte character (or stores a multi-byte character), or an index lies at a boundary; distinct by the sequence of (operation, input class) pairs plus the byte-width profile of the characters involved."
    }
    fn assumptions(&self) -> Vec<&'static str> {
        vec![
            "the Vec<char> store model (mwv-core/src/store.rs, written from R7RS 6.6/6.7) is the oracle for contents, indices, ranges and ordering (lexicographic on scalar values)",
            "trusted base: Rust std's Unicode tables (char::is_alphabetic/is_numeric/is_whitespace/is_uppercase/is_lowercase, to_uppercase/to_lowercase) decide character predicates and case conversion; simple one-to-one mappings for characters (a character whose full mapping is not one character is not checked), full mappings for strings; string-downcase may or may not apply the final-sigma rule",
            "std has no case-folding table: folding is taken to be simple lower-casing, and results are not checked for characters where Unicode folding is known to differ or the mapping is not one-to-one (final sigma, long s, micro sign, Greek symbol letters, Cherokee, U+1C80..1C88, sharp s, dotted I, ligatures)",
            "case-insensitive predicates are checked by the R7RS definition itself, against the SUT's own fold: (string-ci<? a b) must equal (string<? (string-foldcase a) (string-foldcase b)), likewise for characters",
            "forms are injected as Cells (no reader involved); strings that get mutated are created with string-copy, string, make-string or list->string, never literals",
            "1-argument make-string is checked for its length only; string->vector/vector->string with one argument only",
        ]
    }
    fn run(&self, ctx: &Ctx) {
        let cases = ctx.tier.pick(4_000u32, 100_000u32);
        ctx.run_bytes("seq", cases, 400, seq_outcome);
    }
    fn replay(&self, ctx: &Ctx, _kind: &str, payload: &Value) -> Outcome {
        if let Some(text) = script_text_of(payload) {
            return match st::parse_script(&text) {
                Ok(steps) => run_steps(ctx, &steps, None),
                Err(e) => Outcome::fail("C15|harness|unreadable-script", e, payload.clone()),
            };
        }
        seq_outcome(ctx, &unhex(payload["bytes"].as_str().unwrap_or("")))
    }
    fn shards(&self, _tier: Tier) -> usize {
        16
    }
    fn hang_is_violation(&self) -> bool {
        // sequences are finite and acyclic: a hang or abort is not "reporting an error"
        true
    }
    fn case_timeout_s(&self) -> u64 {
        60
    }
}
