//! C16 — number->string and string->number are mutually inverse.
//!
//! Domain: the numeric palettes of C08/C09 (finite floats only) plus random
//! fixnums, bignums up to 512 bits, reduced rationals of both signs and finite
//! doubles by bit pattern, in every internal representation, injected as
//! `Cell::Number`; radix 2, 8, 10, 16 for exact numbers, 10 for inexact ones.
//!
//! Oracle: `(string->number (number->string z r) r)` must be a number with the
//! same exactness and the same value as z (harness-side strict comparison, not
//! the SUT's `=`); and the printed spelling, used as a literal in program text
//! with the matching prefix (#b #o #d #x, and bare for radix 10), must
//! evaluate to the number `string->number` gives for that spelling.

use crate::ctx::{Ctx, Outcome};
use crate::props::numcommon::{call, num_cell, spell, Res, Sut};
use crate::props::Prop;
use marwood::cell::Cell;
use marwood::number::Number;
use mwv_core::choice::{unhex, Choices};
use mwv_core::numeric::*;
use num::bigint::BigInt;
use num::{BigRational, Signed, Zero};
use serde_json::{json, Value};
use std::cell::RefCell;

pub struct C16;

struct Fail {
    sig: String,
    detail: String,
    render: Value,
}

const RADICES: [u32; 4] = [10, 2, 8, 16];

fn prefix(r: u32) -> &'static str {
    match r {
        2 => "#b",
        8 => "#o",
        16 => "#x",
        _ => "#d",
    }
}

fn rep_family(z: &NumRepr) -> &'static str {
    match z {
        NumRepr::Fix(_) => "fixnum",
        NumRepr::Big(_) => "bignum",
        NumRepr::Rat(_, _) => "rational",
        NumRepr::Flo(_) => "float",
    }
}

fn is_negative(z: &NumRepr) -> bool {
    match z {
        NumRepr::Flo(f) => f.is_sign_negative(),
        e => e.exact().unwrap().is_negative(),
    }
}

fn input_class(z: &NumRepr, radix: u32) -> String {
    format!(
        "{}|{},{}",
        rep_family(z),
        if is_negative(z) { "negative" } else { "non-negative" },
        if radix == 10 { "radix-10" } else { "radix-2-8-16" }
    )
}

/// same exactness, same value (+0.0 and -0.0 are the same value)
fn same(a: &NumRepr, b: &NumRepr) -> bool {
    match (a, b) {
        (NumRepr::Flo(x), NumRepr::Flo(y)) => x.to_bits() == y.to_bits() || (*x == 0.0 && *y == 0.0),
        (NumRepr::Flo(_), _) | (_, NumRepr::Flo(_)) => false,
        (x, y) => x.exact() == y.exact(),
    }
}

fn difference_kind(z: &NumRepr, got: &NumRepr) -> &'static str {
    if z.is_exact() != got.is_exact() {
        "different-exactness"
    } else {
        "different-value"
    }
}

fn shortest_digits(f: f64) -> usize {
    format!("{:e}", f).split('e').next().unwrap_or("").chars().filter(|c| c.is_ascii_digit()).count()
}

fn nontrivial(z: &NumRepr) -> bool {
    match z {
        NumRepr::Flo(f) => f.is_sign_negative() || shortest_digits(*f) >= 15 || (f.abs() >= 9.9e9 && f.abs() <= 1.1e10),
        NumRepr::Fix(i) => *i < 0,
        NumRepr::Big(b) => b.is_negative() || !fits_i64(b),
        NumRepr::Rat(n, d) => *n < 0 || *d != 1,
    }
}

fn check_one(ctx: &Ctx, sut: &mut Sut, z: &NumRepr, radix: u32, fails: &mut Vec<Fail>) {
    let cls = input_class(z, radix);
    ctx.class(&format!("input:{}", cls.replace('|', ":")));
    ctx.class(&format!("radix:{}", radix));
    ctx.extra_add("number_radix_pairs", 1);
    if nontrivial(z) {
        ctx.nontrivial_str(&format!("{}@{}", z.render(), radix));
    }
    let render = json!({"z": z.render(), "radix": radix, "expr": format!("(string->number (number->string {} {}) {})", spell(z), radix, radix)});
    let rcell = Cell::Number(Number::Fixnum(radix as i64));
    let s = match sut.eval(&call("number->string", vec![num_cell(z), rcell.clone()])) {
        Res::Str(s) => s,
        other => {
            fails.push(Fail {
                sig: format!("C16|roundtrip|{}|no-string", cls),
                detail: format!("(number->string {} {}) => {}", spell(z), radix, other.show()),
                render,
            });
            return;
        }
    };
    let back = sut.eval(&call("string->number", vec![Cell::String(s.clone()), rcell]));
    let back_num = match &back {
        Res::Num(n) => Some(n.clone()),
        _ => None,
    };
    match &back {
        Res::Num(n) if same(z, n) => {
            ctx.class("roundtrip:ok");
        }
        Res::Num(n) => fails.push(Fail {
            sig: format!("C16|roundtrip|{}|{}", cls, difference_kind(z, n)),
            detail: format!("(number->string {} {}) => {:?}, which string->number reads back as {} instead of {}", spell(z), radix, s, n.render(), z.render()),
            render: render.clone(),
        }),
        other => fails.push(Fail {
            sig: format!("C16|roundtrip|{}|not-a-number", cls),
            detail: format!("(number->string {} {}) => {:?}, which string->number reads back as {}", spell(z), radix, s, other.show()),
            render: render.clone(),
        }),
    }
    // literal clause: the spelling as program text denotes what string->number gives it
    let want = match back_num {
        Some(n) => n,
        None => return,
    };
    let mut texts = vec![format!("{}{}", prefix(radix), s)];
    if radix == 10 {
        texts.push(s.clone());
    }
    for text in texts {
        let form = if text.starts_with('#') { "prefixed" } else { "bare" };
        ctx.class(&format!("literal:{}", form));
        match sut.eval_text(&text) {
            Res::Num(n) if same(&want, &n) => {}
            other => fails.push(Fail {
                sig: format!("C16|literal|{}|{}|{}", cls, form, match &other {
                    Res::Num(n) => difference_kind(&want, n),
                    Res::Err(_) => "error",
                    Res::Panic(_) => "panic",
                    _ => "not-a-number",
                }),
                detail: format!("the literal {} evaluates to {} but (string->number {:?} {}) is {}", text, other.show(), s, radix, want.render()),
                render: render.clone(),
            }),
        }
    }
}

fn check_number(ctx: &Ctx, sut: &mut Sut, z: &NumRepr, fails: &mut Vec<Fail>) {
    match z {
        NumRepr::Flo(f) => {
            if f.is_finite() {
                check_one(ctx, sut, z, 10, fails);
            }
        }
        _ => {
            for r in RADICES {
                check_one(ctx, sut, z, r, fails);
            }
        }
    }
}

fn gen_number(bytes: &[u8]) -> NumRepr {
    let mut c = Choices::new(bytes);
    match c.weighted(&[5, 2, 2, 4, 3, 2]) {
        0 => {
            let v = gen_exact(&mut c);
            let r = reprs_of(&v);
            c.pick(&r[..]).clone()
        }
        1 => NumRepr::Fix(c.u64() as i64),
        2 => {
            // bignum of up to 512 bits
            let len = 1 + c.below(64);
            let mut v = BigInt::zero();
            for _ in 0..len {
                v = (v << 8usize) | BigInt::from(c.byte());
            }
            NumRepr::Big(if c.flip() { -v } else { v })
        }
        3 => NumRepr::Flo(gen_float(&mut c, None, false)),
        4 => {
            // doubles around the 1e10 notation switch and with long shortest representations
            let xs: [f64; 16] = [
                1e10,
                10000000000.5,
                9999999999.999998,
                10000000001.0,
                1.0000000000000002e10,
                -1e10,
                -10000000001.0,
                1e21,
                1e22,
                1e23,
                123456789012345680.0,
                0.1,
                0.30000000000000004,
                2.2250738585072014e-308,
                4.9406564584124654e-324,
                1.7976931348623157e308,
            ];
            let base = *c.pick(&xs);
            let f = match c.below(4) {
                0 => base,
                1 => next_up(base),
                2 => next_down(base),
                _ => -base,
            };
            NumRepr::Flo(if f.is_finite() { f } else { base })
        }
        _ => {
            let f = f64::from_bits(c.u64());
            NumRepr::Flo(if f.is_finite() { f } else { 1.5 })
        }
    }
}

fn settle(ctx: &Ctx, kind: &str, fails: Vec<Fail>) -> Outcome {
    let mut first_known: Option<Fail> = None;
    for f in fails {
        if ctx.is_known(&f.sig) {
            if first_known.is_none() {
                first_known = Some(f);
            } else if ctx.counting() {
                ctx.report(kind, f.render, &f.sig, &f.detail);
            }
        } else {
            return Outcome::fail(f.sig, f.detail, f.render);
        }
    }
    match first_known {
        Some(f) => Outcome::fail(f.sig, f.detail, f.render),
        None => Outcome::Pass,
    }
}

impl Prop for C16 {
    fn id(&self) -> &'static str {
        "C16"
    }
    fn rule(&self) -> &'static str {
        "grid: every boundary exact value of the C08 palette in every internal representation at radix 2, 8, 10, 16 and a list of special finite doubles at radix 10; random: palette numbers, random fixnums, bignums up to 512 bits, reduced rationals of both signs, doubles around the 1e10 notation switch and by bit pattern. A (number, radix) pair is non-trivial when the number is negative, non-integral, beyond i64, or a float that is negative, has a shortest representation of >= 15 digits or lies at the 1e10 notation switch; distinct by (number with representation, radix)."
    }
    fn assumptions(&self) -> Vec<&'static str> {
        vec![
            "equality is decided by the harness: same exactness and same value (+0.0 and -0.0 count as the same value); the internal representation of an exact result is not compared",
            "inexact numbers are checked at radix 10 only and only when finite, as the statement says",
            "the literal clause is checked for every spelling the printer produced and string->number accepted: prefixed with #b/#o/#d/#x, and bare at radix 10",
        ]
    }
    fn run(&self, ctx: &Ctx) {
        let sut = RefCell::new(Sut::new());
        let mut grid: Vec<NumRepr> = vec![];
        let mut exact: Vec<BigRational> = boundary_ints(true).iter().map(rat_i).collect();
        exact.extend(boundary_rats());
        for v in &exact {
            grid.extend(reprs_of(v));
            let f = near_f64(v);
            for g in [f, next_up(f), next_down(f)] {
                if g.is_finite() {
                    grid.push(NumRepr::Flo(g));
                }
            }
        }
        for f in [0.0, -0.0, 5e-324, -5e-324, f64::MIN_POSITIVE, f64::MAX, -f64::MAX, 1e10, 1e21, 1e22, 1e23, 0.1, 1.5, -1.5, 1e-7, 123456.789] {
            grid.push(NumRepr::Flo(f));
        }
        for (idx, z) in grid.iter().enumerate() {
            if idx % ctx.nshards != ctx.shard {
                continue;
            }
            ctx.beat();
            ctx.count(1);
            let mut fails = vec![];
            check_number(ctx, &mut sut.borrow_mut(), z, &mut fails);
            for f in fails {
                ctx.report("case", f.render, &f.sig, &f.detail);
            }
        }
        let grid_cases = ctx.stats.borrow().evaluations;
        ctx.extra_add("grid_numbers", grid_cases);
        let cases = ctx.tier.pick(100_000u32, 2_000_000u32);
        ctx.run_bytes("rand", cases, 96, |ctx, bytes| {
            let z = gen_number(bytes);
            let mut fails = vec![];
            check_number(ctx, &mut sut.borrow_mut(), &z, &mut fails);
            ctx.sample(|| json!({"z": z.render(), "radices": if z.is_exact() { "2 8 10 16" } else { "10" }}));
            settle(ctx, "rand", fails)
        });
        ctx.extra_add("fresh_vms", sut.borrow().fresh_vms);
    }
    fn replay(&self, ctx: &Ctx, kind: &str, payload: &Value) -> Outcome {
        let mut sut = Sut::new();
        let mut fails = vec![];
        match kind {
            "rand" => {
                let z = gen_number(&unhex(payload["bytes"].as_str().unwrap_or("")));
                check_number(ctx, &mut sut, &z, &mut fails);
            }
            _ => {
                let z = match payload["z"].as_str().and_then(NumRepr::parse) {
                    Some(z) => z,
                    None => return Outcome::Discard,
                };
                let radix = payload["radix"].as_u64().unwrap_or(10) as u32;
                let ok = matches!(radix, 2 | 8 | 10 | 16)
                    && match &z {
                        NumRepr::Flo(f) => f.is_finite() && radix == 10,
                        _ => true,
                    };
                if !ok {
                    return Outcome::Discard;
                }
                check_one(ctx, &mut sut, &z, radix, &mut fails);
            }
        }
        settle(ctx, kind, fails)
    }
}
