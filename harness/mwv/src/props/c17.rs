//! C17 — `syntax-rules` is sound where supported and always terminates.
//!
//! Domain: (a) transformers that are valid by construction (1–3 rules, patterns
//! nested to depth 3 with literals, `_`, default or custom ellipsis, ellipsis
//! depth 0–2, fixed tails after an ellipsis, dotted tails, vector patterns;
//! templates reusing, dropping, duplicating and nesting the variables) with a
//! use obtained by instantiating one rule's pattern with random data and
//! (in a third of the cases) editing it; (b) edited, mostly invalid definitions.
//! Every template is wrapped in `quote`, so the value of the use is the expansion.
//!
//! Oracle: the harness' reference matcher/instantiator (mwv-core::synrules,
//! written from R7RS 4.3.2, non-hygienic). SUT error at definition or use is
//! always accepted; SUT `Ok(v)` requires that the reference selects a rule and
//! that v equals its instantiation up to a consistent renaming of the reserved
//! template-only symbols; if no rule matches the SUT must fail. Uses whose
//! ellipsis variables matched different numbers of items under one template
//! ellipsis are left out (the pinned suite fixes truncation). For (b): no
//! panic, and termination. Termination is enforced by the driver's watchdog
//! plus an address-space limit (a runaway expansion allocates without bound).

use crate::ctx::{Ctx, Outcome};
use crate::props::Prop;
use crate::sut::{cell_to_sx, guard, sx_to_cell};
use marwood::vm::Vm;
use mwv_core::choice::{hex, unhex, Choices};
use mwv_core::sx::{self, Sx};
use mwv_core::synrules::{
    self as sr, equal_up_to_renaming, expand_use, gen_invalid, gen_valid, known_hang_feature,
    loose_spec, make_use, pattern_features, template_features, validate, RefOutcome, Spec,
};
use serde_json::{json, Value};
use std::cell::RefCell;

pub struct C17;

/// Address-space limit of a worker / replay process: a non-terminating
/// expansion grows a vector without bound and dies here within a second
/// instead of exhausting the machine.
const AS_LIMIT_BYTES: u64 = 2 << 30;
const NO_KNOWN_HANG_FEATURE: &str = "C17|nonterm|no-known-feature";

fn limit_address_space() {
    // no backtrace on the expected allocation failure (it allocates, and delays the abort)
    std::env::set_var("RUST_BACKTRACE", "0");
    unsafe {
        let lim = libc::rlimit { rlim_cur: AS_LIMIT_BYTES, rlim_max: AS_LIMIT_BYTES };
        libc::setrlimit(libc::RLIMIT_AS, &lim);
    }
}

thread_local! {
    /// one Vm serves many cases (fresh keyword per case); replaced after a panic and every 200 cases
    static VM: RefCell<Option<(Vm, u32)>> = const { RefCell::new(None) };
}

#[derive(Debug)]
enum Sut {
    DefErr(String),
    DefPanic(String),
    UseErr(String),
    UsePanic(String),
    /// definition accepted, use not run
    DefOnly,
    Ok(Sx),
    /// the forked child that ran the case was killed: "abort" (allocation failure under the
    /// address-space limit) or "hang" (alarm)
    NonTerm(&'static str, String),
    /// the wall-clock backstop fired: no verdict
    Inconclusive(String),
}

/// Define `(define-syntax <kw> ...)` and evaluate `(<kw> . args)`.
fn run_sut<F: Fn(&str) -> Sx>(fresh: bool, def_of: F, args: Option<&Sx>) -> Sut {
    let (mut vm, n) = match VM.with(|v| v.borrow_mut().take()).filter(|(_, n)| !fresh && *n < 200) {
        Some(x) => x,
        // Vm::new expands the prelude's own macros: a broken expander panics here
        None => match guard(Vm::new) {
            Ok(vm) => (vm, 0),
            Err(p) => return Sut::DefPanic(format!("Vm::new panicked (prelude): {}", p)),
        },
    };
    let kw = format!("kw{}", n);
    let def = sx_to_cell(&def_of(&kw));
    match guard(|| vm.eval(&def)) {
        Err(p) => return Sut::DefPanic(p), // Vm dropped
        Ok(Err(e)) => {
            VM.with(|v| *v.borrow_mut() = Some((vm, n + 1)));
            return Sut::DefErr(format!("{:?}", e));
        }
        Ok(Ok(_)) => {}
    }
    let args = match args {
        Some(a) => a,
        None => {
            VM.with(|v| *v.borrow_mut() = Some((vm, n + 1)));
            return Sut::DefOnly;
        }
    };
    let use_ = sx_to_cell(&make_use(&kw, args));
    match guard(|| vm.eval(&use_)) {
        Err(p) => Sut::UsePanic(p),
        Ok(r) => {
            let out = match r {
                Err(e) => Sut::UseErr(format!("{:?}", e)),
                Ok(c) => Sut::Ok(cell_to_sx(&c)),
            };
            VM.with(|v| *v.borrow_mut() = Some((vm, n + 1)));
            out
        }
    }
}

// ---- running a case in a forked child ---------------------------------------------------
// A transformer whose templates contain an ellipsis may, on this SUT, expand forever (growing a
// vector). Such cases run in a forked copy of the worker under a tight address-space limit and
// an alarm: a runaway expansion then costs a fraction of a second and is an ordinary failing
// case (shrinkable, replayable) instead of a dead worker. The driver's watchdog stays as the
// backstop. The worker is single-threaded, so fork is safe.

fn sx_to_json(x: &Sx) -> Value {
    match x {
        Sx::Bool(b) => json!({"b": b}),
        Sx::Int(i) => json!({"i": i.to_string()}),
        Sx::Rat(r) => json!({"o": format!("rat {}", r)}),
        Sx::Real(f) => json!({"o": format!("real {}", f)}),
        Sx::Char(c) => json!({"c": c.to_string()}),
        Sx::Str(s) => json!({"s": s}),
        Sx::Sym(s) => json!({"y": s}),
        Sx::List(v) => json!({"l": v.iter().map(sx_to_json).collect::<Vec<_>>()}),
        Sx::Dotted(v, t) => json!({"d": v.iter().map(sx_to_json).collect::<Vec<_>>(), "t": sx_to_json(t)}),
        Sx::Vector(v) => json!({"v": v.iter().map(sx_to_json).collect::<Vec<_>>()}),
        Sx::Opaque(s) => json!({"o": s}),
    }
}

fn json_to_sx(v: &Value) -> Sx {
    let arr = |a: &Value| a.as_array().map(|a| a.iter().map(json_to_sx).collect::<Vec<_>>()).unwrap_or_default();
    if let Some(b) = v.get("b") {
        Sx::Bool(b.as_bool().unwrap_or(false))
    } else if let Some(i) = v.get("i") {
        Sx::Int(i.as_str().unwrap_or("0").parse().unwrap_or_default())
    } else if let Some(c) = v.get("c") {
        Sx::Char(c.as_str().and_then(|s| s.chars().next()).unwrap_or('?'))
    } else if let Some(s) = v.get("s") {
        Sx::Str(s.as_str().unwrap_or("").to_string())
    } else if let Some(s) = v.get("y") {
        Sx::Sym(s.as_str().unwrap_or("").to_string())
    } else if let Some(l) = v.get("l") {
        Sx::List(arr(l))
    } else if let Some(d) = v.get("d") {
        Sx::Dotted(arr(d), Box::new(json_to_sx(&v["t"])))
    } else if let Some(l) = v.get("v") {
        Sx::Vector(arr(l))
    } else {
        Sx::Opaque(v["o"].as_str().unwrap_or("?").to_string())
    }
}

fn encode_sut(s: &Sut) -> String {
    match s {
        Sut::DefErr(m) => json!({"k": "DefErr", "m": m}),
        Sut::DefPanic(m) => json!({"k": "DefPanic", "m": m}),
        Sut::UseErr(m) => json!({"k": "UseErr", "m": m}),
        Sut::UsePanic(m) => json!({"k": "UsePanic", "m": m}),
        Sut::DefOnly => json!({"k": "DefOnly"}),
        Sut::Ok(x) => json!({"k": "Ok", "x": sx_to_json(x)}),
        Sut::NonTerm(h, m) => json!({"k": "NonTerm", "h": h, "m": m}),
        Sut::Inconclusive(m) => json!({"k": "Inconclusive", "m": m}),
    }
    .to_string()
}

fn decode_sut(text: &str) -> Option<Sut> {
    let v: Value = serde_json::from_str(text).ok()?;
    let m = v["m"].as_str().unwrap_or("").to_string();
    Some(match v["k"].as_str()? {
        "DefErr" => Sut::DefErr(m),
        "DefPanic" => Sut::DefPanic(m),
        "UseErr" => Sut::UseErr(m),
        "UsePanic" => Sut::UsePanic(m),
        "DefOnly" => Sut::DefOnly,
        "Ok" => Sut::Ok(json_to_sx(&v["x"])),
        _ => return None,
    })
}

fn virtual_size_bytes() -> u64 {
    std::fs::read_to_string("/proc/self/statm")
        .ok()
        .and_then(|s| s.split_whitespace().next().and_then(|p| p.parse::<u64>().ok()))
        .map(|pages| pages * 4096)
        .unwrap_or(512 << 20)
}

const CHILD_HEADROOM_BYTES: u64 = 256 << 20;
const CHILD_ALARM_S: u32 = 10;

fn run_sut_forked<F: Fn(&str) -> Sx>(fresh: bool, def_of: F, args: Option<&Sx>) -> Sut {
    // make sure the parent owns a Vm, so that the child starts from a ready copy
    VM.with(|v| {
        let mut v = v.borrow_mut();
        let stale = match &*v {
            Some((_, n)) => fresh || *n >= 200,
            None => true,
        };
        if stale {
            *v = guard(Vm::new).ok().map(|vm| (vm, 0));
        }
    });
    if VM.with(|v| v.borrow().is_none()) {
        return run_sut(fresh, def_of, args); // reports the panic of Vm::new
    }
    let limit = (virtual_size_bytes() + CHILD_HEADROOM_BYTES).min(AS_LIMIT_BYTES);
    let mut fds = [0i32; 2];
    unsafe {
        if libc::pipe(fds.as_mut_ptr()) != 0 {
            return run_sut(false, def_of, args);
        }
        let pid = libc::fork();
        if pid < 0 {
            libc::close(fds[0]);
            libc::close(fds[1]);
            return run_sut(false, def_of, args);
        }
        if pid == 0 {
            libc::close(fds[0]);
            let lim = libc::rlimit { rlim_cur: limit, rlim_max: limit };
            libc::setrlimit(libc::RLIMIT_AS, &lim);
            // a runaway expansion burns CPU: limit CPU seconds (immune to machine load);
            // the wall-clock alarm is only a backstop and is reported as inconclusive
            let cpu = libc::rlimit { rlim_cur: CHILD_ALARM_S as u64, rlim_max: CHILD_ALARM_S as u64 + 5 };
            libc::setrlimit(libc::RLIMIT_CPU, &cpu);
            libc::alarm(CHILD_ALARM_S * 30);
            let out = encode_sut(&run_sut(false, def_of, args));
            let b = out.as_bytes();
            let mut off = 0;
            while off < b.len() {
                let n = libc::write(fds[1], b[off..].as_ptr() as *const libc::c_void, b.len() - off);
                if n <= 0 {
                    break;
                }
                off += n as usize;
            }
            libc::_exit(0);
        }
        libc::close(fds[1]);
        let mut buf = Vec::new();
        let mut chunk = [0u8; 4096];
        loop {
            let n = libc::read(fds[0], chunk.as_mut_ptr() as *mut libc::c_void, chunk.len());
            if n <= 0 {
                break;
            }
            buf.extend_from_slice(&chunk[..n as usize]);
        }
        libc::close(fds[0]);
        let mut status = 0i32;
        libc::waitpid(pid, &mut status, 0);
        // the parent's Vm did not see the case; advance its keyword counter all the same
        VM.with(|v| {
            if let Some((_, n)) = v.borrow_mut().as_mut() {
                *n += 1;
            }
        });
        if libc::WIFSIGNALED(status) {
            let sig = libc::WTERMSIG(status);
            if sig == libc::SIGALRM {
                // wall-clock backstop only: says nothing about the SUT on a loaded machine
                return Sut::Inconclusive(format!("child exceeded {} s of wall-clock time", CHILD_ALARM_S * 30));
            }
            let how = if sig == libc::SIGXCPU || sig == libc::SIGKILL { "hang" } else { "abort" };
            return Sut::NonTerm(how, format!("child killed by signal {}", sig));
        }
        match decode_sut(&String::from_utf8_lossy(&buf)) {
            Some(s) => s,
            None => Sut::NonTerm("abort", format!("child exited with status {} and no result", status)),
        }
    }
}

/// Can the SUT's expander loop at all on this definition? Only under a template ellipsis.
fn mentions_ellipsis_in_template(def: &Sx) -> bool {
    match loose_spec(def) {
        Some((_, s)) => s.rules.iter().any(|r| {
            let mut found = false;
            r.template.walk(&mut |x| {
                if matches!(x, Sx::Sym(y) if *y == s.ellipsis) {
                    found = true;
                }
            });
            found
        }),
        // not even the outline of a definition: the SUT rejects it before any expansion
        None => false,
    }
}

fn run_case<F: Fn(&str) -> Sx>(ctx: &Ctx, def_of: F, args: Option<&Sx>) -> Sut {
    if args.is_some() && mentions_ellipsis_in_template(&def_of("kw")) {
        ctx.extra_add("cases_run_in_forked_child", 1);
        run_sut_forked(ctx.strict, def_of, args)
    } else {
        run_sut(ctx.strict, def_of, args)
    }
}

/// Structural feature that names the signature of a disagreement on a use
/// that the reference matched with rule `i` (KNOWN_FINDINGS are keyed on
/// these; `plain` = none of the shapes the SUT is known to mishandle).
fn match_feature(spec: &Spec, vars: &[std::collections::BTreeMap<String, usize>], i: usize, ev: &sr::MatchEvents) -> String {
    let r = &spec.rules[i];
    let pfeat = pattern_features(spec, &r.pattern);
    let tfeat = template_features(spec, &r.template, &vars[i]);
    if pfeat.vector && ev.vector_pattern_used {
        return "pattern:vector".into();
    }
    if ev.dotted_pattern_used {
        return "pattern:dotted-tail".into();
    }
    if ev.zero_items_before_fixed_tail {
        return "pattern:ellipsis-before-fixed-tail|zero-items".into();
    }
    if tfeat.nested_ellipsis {
        return "template:nested-ellipsis".into();
    }
    if tfeat.var_twice_under_one_ellipsis {
        return "template:var-twice-under-one-ellipsis".into();
    }
    if tfeat.zip_then_reuse {
        return "template:ellipsis-variable-reused-after-zip".into();
    }
    if tfeat.dotted_tail {
        return "template:dotted-tail".into();
    }
    if tfeat.vector_with_var {
        return "template:vector".into();
    }
    "plain".into()
}

/// Shape of a pattern on which the SUT is known to accept uses that R7RS rejects.
fn wrong_accept_feature(spec: &Spec, pattern: &Sx) -> Option<&'static str> {
    // (_ . P): the rest pattern is not a pair
    if let Sx::Dotted(v, _) = pattern {
        if v.len() == 1 {
            return Some("pattern:dot-after-keyword");
        }
    }
    let f = pattern_features(spec, pattern);
    if f.vector {
        Some("pattern:vector")
    } else if f.dotted_tail {
        Some("pattern:dotted-tail")
    } else {
        None
    }
}

/// Feature for "no rule matches, yet the SUT expanded".
fn nomatch_feature(spec: &Spec) -> String {
    let fs: Vec<_> = spec.rules.iter().filter_map(|r| wrong_accept_feature(spec, &r.pattern)).collect();
    for want in ["pattern:dot-after-keyword", "pattern:vector", "pattern:dotted-tail"] {
        if fs.contains(&want) {
            return want.into();
        }
    }
    "plain".into()
}

/// The reference selected rule `i` and nothing about it explains a difference: did an
/// earlier rule with a wrongly-accepting shape take the use?
fn earlier_rule_feature(spec: &Spec, i: usize) -> Option<String> {
    spec.rules[..i]
        .iter()
        .filter_map(|r| wrong_accept_feature(spec, &r.pattern))
        .next()
        .map(|f| format!("earlier-rule-accepted|{}", f))
}

fn record_classes(ctx: &Ctx, spec: &Spec, vars: &[std::collections::BTreeMap<String, usize>], args: &Sx) {
    ctx.class(&format!("rules:{}", spec.rules.len()));
    if spec.custom_ellipsis {
        ctx.class("custom-ellipsis");
    }
    let mut any = (false, false, false, false, false, false, false, false);
    let mut maxnest = 0;
    for (r, v) in spec.rules.iter().zip(vars.iter()) {
        let p = pattern_features(spec, &r.pattern);
        let t = template_features(spec, &r.template, v);
        any.0 |= p.ellipsis;
        any.1 |= p.nested_ellipsis;
        any.2 |= p.ellipsis_before_fixed_tail;
        any.3 |= p.dotted_tail;
        any.4 |= p.vector;
        any.5 |= p.literal;
        any.6 |= p.underscore;
        any.7 |= p.datum;
        maxnest = maxnest.max(p.nesting);
        for (on, name) in [
            (t.ellipsis, "template:ellipsis"),
            (t.nested_ellipsis, "template:nested-ellipsis"),
            (t.multi_ellipsis, "template:multi-ellipsis"),
            (t.dotted_tail, "template:dotted-tail"),
            (t.vector_with_var, "template:vector"),
            (t.var_twice_under_one_ellipsis, "template:var-twice-under-one-ellipsis"),
            (t.zip, "template:zip"),
            (t.zip_then_reuse, "template:ellipsis-variable-reused-after-zip"),
            (t.dup_var, "template:duplicates-var"),
            (t.drops_var, "template:drops-var"),
            (t.reserved_symbol, "template:reserved-symbol"),
        ] {
            if on {
                ctx.class(name);
            }
        }
    }
    for (on, name) in [
        (any.0, "pattern:ellipsis"),
        (any.1, "pattern:nested-ellipsis"),
        (any.2, "pattern:ellipsis-before-fixed-tail"),
        (any.3, "pattern:dotted-tail"),
        (any.4, "pattern:vector"),
        (any.5, "pattern:literal"),
        (any.6, "pattern:underscore"),
        (any.7, "pattern:datum"),
    ] {
        if on {
            ctx.class(name);
        }
    }
    ctx.class(&format!("pattern:nesting-{}", maxnest));
    if !matches!(args, Sx::List(_)) {
        ctx.class("use:improper");
    }
}

/// The SUT's reason for a rejection, without the quoted form (histogram only).
fn error_kind(m: &str) -> String {
    let m = m.split(" in ").next().unwrap_or(m);
    let m: String = m.chars().filter(|c| c.is_ascii_alphabetic() || *c == ' ' || *c == '(').take(60).collect();
    m.trim().to_string()
}

/// `VERIF_SHOW=1 ./check --replay <file>` prints the case before running it (hang triage).
fn show(ctx: &Ctx, def: &Sx, args: &Sx) {
    if ctx.strict && std::env::var_os("VERIF_SHOW").is_some() {
        eprintln!("C17 case: {}\n          {}", def, make_use("kw", args));
    }
}

fn render(spec_def: &Sx, args: &Sx, expected: &str, got: &str) -> Value {
    json!({
        "definition": spec_def.to_string(),
        "use": make_use("kw", args).to_string(),
        "expected": expected,
        "got": got,
    })
}

/// The oracle for a valid transformer. `journal_payload` is what the driver
/// needs to re-execute the case should it not return.
fn check_valid(ctx: &Ctx, kind: &str, journal_payload: Value, spec: &Spec, args: &Sx, exotic: Option<bool>) -> Outcome {
    let vars = match validate(spec) {
        Ok(v) => v,
        Err(_) => {
            ctx.discard("harness: generated transformer is not valid (generator bug, case dropped)");
            return Outcome::Discard;
        }
    };
    let reference = expand_use(spec, args);
    record_classes(ctx, spec, &vars, args);
    if let Some(e) = exotic {
        ctx.class(if e { "profile:anything" } else { "profile:supported-subset" });
    }
    let def_canon = spec.definition("kw");
    show(ctx, &def_canon, args);
    // known non-terminating shapes: never expanded in the search tier (each costs a worker);
    // the definition alone is still checked (it must terminate and not panic)
    let hang = known_hang_feature(spec);
    let mut jp = journal_payload;
    jp["hang_sig"] = json!(match &hang {
        Some(f) => format!("C17|nonterm|{}", f),
        None => NO_KNOWN_HANG_FEATURE.to_string(),
    });
    // (only while that shape is a *listed* finding: once repaired it is expanded like any other,
    // in the forked child, so that the repair cannot silently regress)
    let listed = hang.as_ref().map(|f| ctx.is_known(&format!("C17|nonterm|{}|abort", f)) || ctx.is_known(&format!("C17|nonterm|{}|hang", f))).unwrap_or(false);
    let run_use = !listed || ctx.strict;
    if let Some(f) = &hang {
        if listed {
            ctx.class(&format!("excluded-known-nontermination:{}", f));
            ctx.extra_add("uses_not_run_known_nontermination", 1);
        } else {
            ctx.class(&format!("formerly-nonterminating-shape-expanded:{}", f));
        }
    }
    if !ctx.journal(&json!({"kind": kind, "payload": jp})) {
        ctx.discard("skipped: did not return in an earlier incarnation of this shard");
        return Outcome::Discard;
    }
    let out = run_case(ctx, |kw| spec.definition(kw), if run_use { Some(args) } else { None });
    let (ref_rule, ref_text) = match &reference {
        RefOutcome::Match { rule, expansion, .. } => (Some(*rule), expansion.to_string()),
        RefOutcome::NoMatch => (None, "<no rule matches: error>".to_string()),
        RefOutcome::LengthMismatch { rule } => (Some(*rule), "<unequal ellipsis lengths: excluded>".into()),
        RefOutcome::Invalid { rule, why } => (Some(*rule), format!("<invalid: {}>", why)),
    };
    match &reference {
        RefOutcome::Match { .. } => ctx.extra_add("ref_match", 1),
        RefOutcome::NoMatch => ctx.extra_add("ref_nomatch", 1),
        RefOutcome::LengthMismatch { .. } => ctx.extra_add("ref_unequal_lengths_excluded", 1),
        RefOutcome::Invalid { .. } => ctx.extra_add("ref_invalid", 1),
    }
    let panic_feature = || match (&reference, ref_rule) {
        (RefOutcome::Match { rule, events, .. }, _) => match_feature(spec, &vars, *rule, events),
        _ => nomatch_feature(spec),
    };
    let nonterm_sig = |how: &str| match &hang {
        Some(f) => format!("C17|nonterm|{}|{}", f, how),
        None => format!("{}|{}", NO_KNOWN_HANG_FEATURE, how),
    };
    match out {
        Sut::Inconclusive(m) => {
            ctx.discard(&format!("inconclusive: {}", m));
            Outcome::Discard
        }
        Sut::NonTerm(how, m) => Outcome::fail(
            nonterm_sig(how),
            format!(
                "expansion did not terminate ({}: {}) :: {} :: {}",
                how,
                m,
                def_canon,
                make_use("kw", args)
            ),
            render(&def_canon, args, &ref_text, "<did not terminate>"),
        ),
        Sut::DefPanic(p) if p.starts_with("Vm::new panicked") => {
            Outcome::fail("C17|prelude|panic-in-Vm-new", p, render(&def_canon, args, &ref_text, "<panic in Vm::new>"))
        }
        Sut::DefPanic(p) => Outcome::fail(
            format!("C17|{}|panic-at-definition", panic_feature()),
            format!("define-syntax panicked: {} :: {}", p, def_canon),
            render(&def_canon, args, &ref_text, "<panic at definition>"),
        ),
        Sut::UsePanic(p) => Outcome::fail(
            format!("C17|{}|panic-at-use", panic_feature()),
            format!("expansion panicked: {} :: {} :: {}", p, def_canon, make_use("kw", args)),
            render(&def_canon, args, &ref_text, "<panic at use>"),
        ),
        Sut::DefErr(m) => {
            ctx.extra_add("sut_rejected_definition", 1);
            ctx.class(&format!("sut-rejected-definition:{}", error_kind(&m)));
            Outcome::Pass
        }
        Sut::DefOnly => Outcome::Pass,
        Sut::UseErr(_) => {
            if matches!(reference, RefOutcome::Match { .. }) {
                ctx.extra_add("sut_rejected_matching_use", 1);
            } else {
                ctx.extra_add("sut_rejected_nonmatching_use", 1);
            }
            Outcome::Pass
        }
        Sut::Ok(got) => {
            match &reference {
                RefOutcome::LengthMismatch { .. } => {
                    ctx.discard("ellipsis variables of unequal length under one template ellipsis (excluded by the statement)");
                    Outcome::Discard
                }
                RefOutcome::Invalid { .. } => {
                    ctx.discard("harness: reference could not instantiate a generated template (generator bug, case dropped)");
                    Outcome::Discard
                }
                RefOutcome::NoMatch => Outcome::fail(
                    format!("C17|nomatch-accepted|{}", nomatch_feature(spec)),
                    format!(
                        "no rule matches the use, yet it expanded to {} :: {} :: {}",
                        got,
                        def_canon,
                        make_use("kw", args)
                    ),
                    render(&def_canon, args, &ref_text, &got.to_string()),
                ),
                RefOutcome::Match { rule, expansion, events } => {
                    if events.ambiguous_atom_as_improper_list {
                        ctx.discard("use (kw . atom) against (_ P ... . T): R7RS not explicit");
                        return Outcome::Discard;
                    }
                    // the keyword of this case differs from the canonical one only in name
                    if equal_up_to_renaming(expansion, &got) {
                        ctx.extra_add("ref_match_accepted_and_equal", 1);
                        let pf = pattern_features(spec, &spec.rules[*rule].pattern);
                        if pf.ellipsis || pf.nesting >= 2 {
                            let text = format!("{} {}", def_canon, args);
                            ctx.nontrivial_str(&text);
                        }
                        ctx.sample(|| render(&def_canon, args, &ref_text, &got.to_string()));
                        Outcome::Pass
                    } else {
                        let mut feat = match_feature(spec, &vars, *rule, events);
                        if feat == "plain" {
                            if let Some(f) = earlier_rule_feature(spec, *rule) {
                                feat = f;
                            }
                        }
                        let others = sr::all_matches(spec, args);
                        let as_other = others
                            .iter()
                            .find(|(j, x)| j != rule && x.as_ref().map(|x| equal_up_to_renaming(x, &got)).unwrap_or(false))
                            .map(|(j, _)| *j);
                        let how = match as_other {
                            Some(j) => format!("the expansion of rule {} (a later rule) instead of rule {}", j + 1, rule + 1),
                            None => format!("not the instantiation of rule {}", rule + 1),
                        };
                        Outcome::fail(
                            format!("C17|{}", feat),
                            format!(
                                "silently different expansion ({}): got {} expected {} :: {} :: {}",
                                how,
                                got,
                                expansion,
                                def_canon,
                                make_use("kw", args)
                            ),
                            render(&def_canon, args, &ref_text, &got.to_string()),
                        )
                    }
                }
            }
        }
    }
}

fn valid_outcome(ctx: &Ctx, bytes: &[u8]) -> Outcome {
    let mut c = Choices::new(bytes);
    let g = gen_valid(&mut c);
    if g.mutated {
        ctx.class("use:edited");
    }
    check_valid(ctx, "valid", json!({"bytes": hex(bytes)}), &g.spec, &g.args, Some(g.exotic))
}

/// Termination / no panic for an arbitrary definition datum and use.
fn check_arbitrary(ctx: &Ctx, kind: &str, journal_payload: Value, def_of: &dyn Fn(&str) -> Sx, args: &Sx, ops: &str) -> Outcome {
    let def_canon = def_of("kw");
    show(ctx, &def_canon, args);
    let hang = loose_spec(&def_canon).and_then(|(_, s)| known_hang_feature(&s));
    let mut jp = journal_payload;
    jp["hang_sig"] = json!(match &hang {
        Some(f) => format!("C17|nonterm|{}", f),
        None => NO_KNOWN_HANG_FEATURE.to_string(),
    });
    let listed = hang.as_ref().map(|f| ctx.is_known(&format!("C17|nonterm|{}|abort", f)) || ctx.is_known(&format!("C17|nonterm|{}|hang", f))).unwrap_or(false);
    if let Some(f) = &hang {
        if listed {
            ctx.class(&format!("excluded-known-nontermination:{}", f));
            ctx.extra_add("uses_not_run_known_nontermination", 1);
        } else {
            ctx.class(&format!("formerly-nonterminating-shape-expanded:{}", f));
        }
    }
    let run_use = !listed || ctx.strict;
    if !ctx.journal(&json!({"kind": kind, "payload": jp})) {
        ctx.discard("skipped: did not return in an earlier incarnation of this shard");
        return Outcome::Discard;
    }
    let out = run_case(ctx, def_of, if run_use { Some(args) } else { None });
    let r = |got: &str| json!({"definition": def_canon.to_string(), "use": make_use("kw", args).to_string(), "edits": ops, "got": got});
    match out {
        Sut::Inconclusive(m) => {
            ctx.discard(&format!("inconclusive: {}", m));
            Outcome::Discard
        }
        Sut::NonTerm(how, m) => Outcome::fail(
            match &hang {
                Some(f) => format!("C17|nonterm|{}|{}", f, how),
                None => format!("{}|{}", NO_KNOWN_HANG_FEATURE, how),
            },
            format!(
                "expansion did not terminate ({}: {}) :: {} :: {}",
                how,
                m,
                def_canon,
                make_use("kw", args)
            ),
            r("<did not terminate>"),
        ),
        Sut::DefPanic(p) if p.starts_with("Vm::new panicked") => Outcome::fail("C17|prelude|panic-in-Vm-new", p, r("<panic in Vm::new>")),
        Sut::DefPanic(p) => Outcome::fail(
            format!("C17|arbitrary-definition|panic-at-definition|{}", ops),
            format!("define-syntax panicked: {} :: {}", p, def_canon),
            r("<panic at definition>"),
        ),
        Sut::UsePanic(p) => Outcome::fail(
            format!("C17|arbitrary-definition|panic-at-use|{}", ops),
            format!("expansion panicked: {} :: {} :: {}", p, def_canon, make_use("kw", args)),
            r("<panic at use>"),
        ),
        Sut::DefErr(_) => {
            ctx.class("arbitrary:definition-rejected");
            Outcome::Pass
        }
        Sut::UseErr(_) => {
            ctx.class("arbitrary:use-rejected");
            Outcome::Pass
        }
        Sut::DefOnly => Outcome::Pass,
        Sut::Ok(_) => {
            ctx.class("arbitrary:expanded");
            Outcome::Pass
        }
    }
}

fn invalid_outcome(ctx: &Ctx, bytes: &[u8]) -> Outcome {
    let mut c = Choices::new(bytes);
    let inv = gen_invalid(&mut c);
    let mut ops = inv.def.ops.clone();
    ops.sort();
    ops.dedup();
    let ops = ops.join("+");
    for o in &inv.def.ops {
        ctx.class(&format!("edit:{}", o));
    }
    // an edited definition that is still valid gets the full oracle
    let canon = inv.def.definition("kw");
    if let Some((_, spec)) = Spec::from_definition(&canon) {
        if validate(&spec).is_ok() {
            ctx.class("arbitrary:still-valid");
            // `kw` inside patterns was rendered from the marker: read it back as such
            return check_valid(ctx, "invalid", json!({"bytes": hex(bytes)}), &respec(&inv.def), &inv.args, None);
        }
    }
    let def = inv.def.clone();
    check_arbitrary(ctx, "invalid", json!({"bytes": hex(bytes)}), &move |kw| def.definition(kw), &inv.args, &ops)
}

/// LooseDef that happens to be a valid transformer -> Spec (keeps the keyword marker).
fn respec(def: &sr::LooseDef) -> Spec {
    let (_, s) = Spec::from_definition(&def.definition(sr::KW_MARK)).expect("checked by the caller");
    s
}

fn text_outcome(ctx: &Ctx, payload: &Value) -> Outcome {
    let def = match sx::read(payload["definition"].as_str().unwrap_or("")) {
        Ok(d) => d,
        Err(_) => return Outcome::Discard,
    };
    let use_ = match sx::read(payload["use"].as_str().unwrap_or("")) {
        Ok(d) => d,
        Err(_) => return Outcome::Discard,
    };
    let (kw, loose) = match loose_spec(&def) {
        Some(x) => x,
        None => return Outcome::Discard,
    };
    let args = match use_ {
        Sx::List(mut v) if !v.is_empty() => {
            v.remove(0);
            Sx::List(v)
        }
        Sx::Dotted(mut v, t) if !v.is_empty() => {
            v.remove(0);
            sr::cons_list(v, *t)
        }
        _ => return Outcome::Discard,
    };
    // the recorded hang signature must be the one this harness computes from the definition
    if let Some(h) = payload["hang_sig"].as_str() {
        let mine = match known_hang_feature(&loose) {
            Some(f) => format!("C17|nonterm|{}", f),
            None => NO_KNOWN_HANG_FEATURE.to_string(),
        };
        if h != mine {
            return Outcome::fail(
                "C17|replay-file|hang-sig-mismatch",
                format!("recorded hang_sig {} but the definition has {}", h, mine),
                payload.clone(),
            );
        }
    }
    // rename the keyword to the marker so that a fresh keyword can be substituted
    let rename = |x: &Sx| -> Sx { rename_sym(x, &kw, sr::KW_MARK) };
    if let Some((_, spec)) = Spec::from_definition(&def) {
        if validate(&spec).is_ok() {
            let spec = Spec {
                rules: spec
                    .rules
                    .iter()
                    .map(|r| sr::Rule { pattern: rename_head(&r.pattern, &kw), template: r.template.clone() })
                    .collect(),
                ..spec
            };
            return check_valid(ctx, "text", payload.clone(), &spec, &args, None);
        }
    }
    let body = rename(&def);
    check_arbitrary(
        ctx,
        "text",
        payload.clone(),
        &move |k| rename_sym(&body, sr::KW_MARK, k),
        &args,
        "text",
    )
}

fn rename_sym(x: &Sx, from: &str, to: &str) -> Sx {
    match x {
        Sx::Sym(s) if s == from => Sx::sym(to),
        Sx::List(v) => Sx::List(v.iter().map(|e| rename_sym(e, from, to)).collect()),
        Sx::Vector(v) => Sx::Vector(v.iter().map(|e| rename_sym(e, from, to)).collect()),
        Sx::Dotted(v, t) => Sx::Dotted(
            v.iter().map(|e| rename_sym(e, from, to)).collect(),
            Box::new(rename_sym(t, from, to)),
        ),
        o => o.clone(),
    }
}

/// Only the keyword position of a pattern refers to the macro itself.
fn rename_head(p: &Sx, kw: &str) -> Sx {
    match p {
        Sx::List(v) if !v.is_empty() && v[0].as_sym() == Some(kw) => {
            let mut v = v.clone();
            v[0] = Sx::sym(sr::KW_MARK);
            Sx::List(v)
        }
        Sx::Dotted(v, t) if !v.is_empty() && v[0].as_sym() == Some(kw) => {
            let mut v = v.clone();
            v[0] = Sx::sym(sr::KW_MARK);
            Sx::Dotted(v, t.clone())
        }
        o => o.clone(),
    }
}

impl Prop for C17 {
    fn id(&self) -> &'static str {
        "C17"
    }
    fn rule(&self) -> &'static str {
        "valid: a transformer valid by construction (1-3 rules, patterns nested to depth 3 with literals, _, default/custom ellipsis, ellipsis depth 0-2, fixed tails after an ellipsis, dotted tails, vector patterns; templates reusing/dropping/duplicating/nesting the variables at their depth, template-only symbols from {t1,t2,t3}) and a use = one rule's pattern instantiated with random data, edited in about a third of the cases; every template is wrapped in quote. invalid: such a definition after 1-3 random structural edits (termination and no panic only, full oracle if still valid). A case is non-trivial when the SUT accepted definition and use, the value equals the reference expansion, and the selected rule's pattern has an ellipsis or list nesting >= 2; distinct by (definition, use). Acceptance rate = ref_match_accepted_and_equal / ref_match."
    }
    fn assumptions(&self) -> Vec<&'static str> {
        vec![
            "reference expander written from R7RS 4.3.2, non-hygienic; an ellipsis variable must be followed by exactly as many ellipses as in its pattern, depth-0 variables may occur at any depth",
            "definitions and uses are handed to Vm::eval as data (Cell), not through the reader (C10/C11 check the reader)",
            "data are exact integers, booleans, strings, characters, symbols, lists, improper lists and vectors; no inexact numbers (pattern data are compared with the SUT's number equality)",
            "uses whose ellipsis variables matched different numbers of items under one template ellipsis are excluded (statement); (kw . atom) against (_ P ... . T) is excluded (R7RS not explicit)",
            "a case whose templates contain an ellipsis runs in a forked copy of the worker under an address-space limit (current size + 256 MiB) and a 10 s alarm: a runaway expansion is seen as an abort of the child; the driver's watchdog (20 s, 2 GiB limit on the worker) is the backstop",
            "uses of transformers with a shape on which expansion is known not to terminate (KNOWN_FINDINGS C17|nonterm|*) are not run in the search tier (counted in uses_not_run_known_nontermination; the definition alone is still checked); their reproducers run in the regression tier",
            "one Vm serves up to 200 cases with a fresh keyword each; a fresh Vm after any panic",
        ]
    }
    fn case_timeout_s(&self) -> u64 {
        20
    }
    fn replay_timeout_s(&self) -> u64 {
        20
    }
    fn hang_is_violation(&self) -> bool {
        true
    }
    fn alloc_failure_is_nontermination(&self) -> bool {
        true
    }
    fn run(&self, ctx: &Ctx) {
        limit_address_space();
        let valid = ctx.tier.pick(4_000u32, 90_000u32);
        let invalid = ctx.tier.pick(1_500u32, 30_000u32);
        ctx.run_bytes("valid", valid, 320, valid_outcome);
        ctx.run_bytes("invalid", invalid, 320, invalid_outcome);
    }
    fn replay(&self, ctx: &Ctx, kind: &str, payload: &Value) -> Outcome {
        limit_address_space();
        match kind {
            "valid" => valid_outcome(ctx, &unhex(payload["bytes"].as_str().unwrap_or(""))),
            "invalid" => invalid_outcome(ctx, &unhex(payload["bytes"].as_str().unwrap_or(""))),
            _ => text_outcome(ctx, payload),
        }
    }
}
