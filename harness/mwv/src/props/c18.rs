//! C18 — symbols are interned: same name iff eq?, across collections and conversions.
//!
//! Domain: names (random Unicode strings incl. empty, delimiters, backslash,
//! `|`, `#`, digit-/sign-/dot-initial, whitespace, long) x pairs of production
//! routes (source literal, element of a quoted list, string->symbol, macro
//! output, eval of a quoted form, (string->symbol (symbol->string y))) x what
//! happens between the two productions (nothing, a forced collection, garbage
//! plus collections, end of the evaluation, a collection at every k-th
//! instruction) x first product kept reachable or dropped.
//! Oracle: (eq? s1 s2) iff the names are the same string; symbol->string of
//! string->symbol is the identity on strings; string->symbol of symbol->string
//! is the identity on symbols; collector invariants (symbol table) at every
//! observed collection.

use crate::ctx::{Ctx, Outcome, Tier};
use crate::props::c03::install_observer;
use crate::props::Prop;
use crate::session::{RunOpts, SutSession};
use crate::sut::guard;
use marwood::cell::Cell;
use marwood::lex;
use marwood::parse;
use marwood::vm::verif::GcSchedule;
use mwv_core::choice::{unhex, Choices};
use serde_json::{json, Value};

pub struct C18;

#[derive(Clone, Copy, Debug, PartialEq)]
enum Route {
    Literal,
    QuotedListElement,
    StringToSymbol,
    MacroOutput,
    EvalQuoted,
    RoundTripOfLiteral,
    RoundTripOfStringToSymbol,
    /// string->symbol applied by a tail call inside a procedure
    StringToSymbolInTailPosition,
    /// the symbol travels through a pair and a vector before it is used
    StringToSymbolThroughData,
    /// the symbol is a literal inside a procedure that an earlier evaluation defined (quoted,
    /// inside a quoted list, in a quasiquote template, in the dotted tail of one): it is kept
    /// alive by compiled code only
    LiteralInStoredProcedure,
}

const ROUTES: [Route; 10] = [
    Route::StringToSymbol,
    Route::Literal,
    Route::QuotedListElement,
    Route::MacroOutput,
    Route::EvalQuoted,
    Route::RoundTripOfLiteral,
    Route::RoundTripOfStringToSymbol,
    Route::StringToSymbolInTailPosition,
    Route::StringToSymbolThroughData,
    Route::LiteralInStoredProcedure,
];

fn is_reader_route(r: Route) -> bool {
    matches!(r, Route::Literal | Route::QuotedListElement | Route::MacroOutput | Route::EvalQuoted | Route::RoundTripOfLiteral | Route::LiteralInStoredProcedure)
}

fn sym(s: &str) -> Cell {
    Cell::Symbol(s.to_string())
}
fn list(v: Vec<Cell>) -> Cell {
    Cell::new_list(v)
}
fn quote(c: Cell) -> Cell {
    list(vec![sym("quote"), c])
}

/// expression producing the symbol named `name` by `route` (None: route not applicable)
/// Definitions an earlier evaluation makes for `LiteralInStoredProcedure` (slot 1 or 2); the
/// position of the literal is chosen from the name.
fn stored_procedure_setup(name: &str, slot: usize) -> Vec<Cell> {
    let helper = format!("c18-helper-{}", slot);
    let stored = format!("c18-stored-{}", slot);
    let qq = |inner: Cell| list(vec![sym("quasiquote"), inner]);
    let unq = |e: Cell| list(vec![sym("unquote"), e]);
    let variant = mwv_core::choice::fnv(name.as_bytes()) % 4;
    match variant {
        0 => vec![
            // `(,x . NAME)
            list(vec![sym("define"), list(vec![sym(&helper), sym("x")]), qq(Cell::new_improper_list(vec![unq(sym("x"))], sym(name)))]),
            list(vec![sym("define"), list(vec![sym(&stored)]), list(vec![sym("cdr"), list(vec![sym(&helper), Cell::Number(marwood::number::Number::Fixnum(0))])])]),
        ],
        1 => vec![list(vec![sym("define"), list(vec![sym(&stored)]), quote(sym(name))])],
        2 => vec![list(vec![
            sym("define"),
            list(vec![sym(&stored)]),
            list(vec![sym("car"), list(vec![sym("cdr"), quote(list(vec![sym("z"), sym(name), sym("w")]))])]),
        ])],
        _ => vec![list(vec![
            sym("define"),
            list(vec![sym(&stored)]),
            list(vec![sym("car"), list(vec![sym("cdr"), qq(list(vec![unq(list(vec![sym("+"), Cell::Number(marwood::number::Number::Fixnum(1)), Cell::Number(marwood::number::Number::Fixnum(1))])), sym(name)]))])]),
        ])],
    }
}

fn produce(route: Route, name: &str, reader_spellable: bool, slot: usize) -> Option<Cell> {
    let s2s = |n: &str| list(vec![sym("string->symbol"), Cell::String(n.to_string())]);
    let needs_reader = !matches!(route, Route::StringToSymbol | Route::RoundTripOfStringToSymbol | Route::StringToSymbolInTailPosition | Route::StringToSymbolThroughData);
    if needs_reader && !reader_spellable {
        return None;
    }
    Some(match route {
        Route::Literal => quote(sym(name)),
        Route::QuotedListElement => list(vec![sym("car"), list(vec![sym("cdr"), quote(list(vec![sym("z"), sym(name), sym("w")]))])]),
        Route::StringToSymbol => s2s(name),
        Route::MacroOutput => list(vec![sym("c18-quote-it"), sym(name)]),
        Route::EvalQuoted => list(vec![sym("eval"), list(vec![sym("list"), quote(sym("quote")), quote(sym(name))])]),
        Route::RoundTripOfLiteral => list(vec![sym("string->symbol"), list(vec![sym("symbol->string"), quote(sym(name))])]),
        Route::RoundTripOfStringToSymbol => list(vec![sym("string->symbol"), list(vec![sym("symbol->string"), s2s(name)])]),
        Route::StringToSymbolInTailPosition => list(vec![
            list(vec![sym("lambda"), list(vec![sym("c18-s")]), list(vec![sym("if"), Cell::Bool(true), list(vec![sym("string->symbol"), sym("c18-s")]), Cell::Bool(false)])]),
            Cell::String(name.to_string()),
        ]),
        Route::LiteralInStoredProcedure => list(vec![sym(&format!("c18-stored-{}", slot))]),
        Route::StringToSymbolThroughData => list(vec![
            sym("vector-ref"),
            list(vec![sym("vector"), list(vec![sym("car"), list(vec![sym("list"), s2s(name)])])]),
            Cell::Number(marwood::number::Number::Fixnum(0)),
        ]),
    })
}

const ALPHABET: [&str; 40] = [
    "a", "b", "foo", "x1", "-", "+", ".", "...", "1", "12", "0", " ", "\t", "\n", "(", ")", "\"", ";", "'", "`", ",", "|", "#", "\\", "\\x41;", "/",
    "λ", "é", "日本", "𝒳", "\u{a0}", "\u{2028}", "A", "?", "!", "*", "->", "@", "%", "_",
];

fn gen_name(c: &mut Choices) -> String {
    match c.weighted(&[10, 2, 1, 1]) {
        0 => {
            let n = c.below(5);
            let mut s = String::new();
            for _ in 0..n {
                s.push_str(c.pick_str(&ALPHABET));
            }
            s
        }
        1 => {
            // plain identifiers (the common case for users)
            let n = 1 + c.below(6);
            (0..n).map(|_| *c.pick(&['a', 'b', 'c', 'x', 'y', '-', '?', '1', 'Z'][..])).collect::<String>()
        }
        2 => {
            let n = c.below(4);
            (0..n).filter_map(|_| char::from_u32(c.u32() % 0x110000)).collect()
        }
        _ => "long-".repeat(1 + c.below(40)),
    }
}

fn reader_spellable(name: &str) -> bool {
    matches!(parse::parse_text(name), Ok((Cell::Symbol(s), None)) if s == name)
}

/// input-derived class of a name w.r.t. the known findings
fn name_class(name: &str, involves_reader_route: bool, involves_s2s: bool) -> Option<&'static str> {
    // the listed finding is about symbols the *reader* spells with a raw backslash; the
    // string->symbol side was repaired and must not hide behind it
    if name.contains('\\') && involves_reader_route {
        return Some("name-has-backslash");
    }
    let escaped_by_s2s = name
        .char_indices()
        .any(|(i, ch)| if i == 0 { !lex::is_initial_identifier(ch) } else { !lex::is_subsequent_identifier(ch) });
    if escaped_by_s2s && involves_reader_route && involves_s2s && reader_spellable(name) {
        return Some("reader-spelling-escaped-by-string->symbol");
    }
    None
}

fn eval_cell(s: &mut SutSession, c: &Cell) -> Result<Cell, String> {
    let vm = &mut s.vm;
    match guard(|| vm.eval(c)) {
        Ok(Ok(v)) => Ok(v),
        Ok(Err(e)) => Err(format!("error: {}", e)),
        Err(p) => Err(format!("PANIC: {}", p)),
    }
}

struct Params {
    n1: String,
    n2: String,
    r1: Route,
    r2: Route,
    sep: usize,
    keep: bool,
    k: u64,
}

fn case(ctx: &Ctx, bytes: &[u8]) -> Outcome {
    let mut c = Choices::new(bytes);
    let n1 = gen_name(&mut c);
    let same = c.flip();
    let n2 = if same {
        n1.clone()
    } else {
        match c.below(3) {
            0 => format!("{}{}", n1, c.pick_str(&ALPHABET)),
            1 => gen_name(&mut c),
            _ => n1.to_uppercase(),
        }
    };
    let r1 = ROUTES[c.below(ROUTES.len())];
    let r2 = ROUTES[c.below(ROUTES.len())];
    let sep = c.below(5);
    let keep = c.chance(170);
    let k = 1 + c.below(16) as u64;
    check(ctx, Params { n1, n2, r1, r2, sep, keep, k })
}

fn check(ctx: &Ctx, p: Params) -> Outcome {
    let Params { n1, n2, r1, r2, sep, keep, k } = p;
    let same = n1 == n2;
    let sp1 = reader_spellable(&n1);
    let sp2 = reader_spellable(&n2);
    let (e1, e2) = match (produce(r1, &n1, sp1, 1), produce(r2, &n2, sp2, 2)) {
        (Some(a), Some(b)) => (a, b),
        _ => {
            ctx.discard("route needs a reader-spellable name");
            return Outcome::Discard;
        }
    };
    let between = ["nothing", "forced-collection", "garbage+collections", "next-evaluation", "collection-every-k"][sep];
    let render = json!({"name1": n1, "name2": n2, "route1": format!("{:?}", r1), "route2": format!("{:?}", r2), "between": between, "first-kept": keep, "k": k});
    let involves_reader = is_reader_route(r1) || is_reader_route(r2);
    let involves_s2s = !matches!(r1, Route::Literal | Route::QuotedListElement | Route::MacroOutput | Route::EvalQuoted) || !matches!(r2, Route::Literal | Route::QuotedListElement | Route::MacroOutput | Route::EvalQuoted);
    let classify = |kind: &str, name: &str| -> String {
        match name_class(name, involves_reader, involves_s2s) {
            Some(cl) => format!("C18|{}", cl),
            None => format!("C18|{}", kind),
        }
    };

    let mut s = SutSession::new(RunOpts::default());
    let obs = install_observer(&mut s, 1);
    let setup = list(vec![
        sym("define-syntax"),
        sym("c18-quote-it"),
        list(vec![sym("syntax-rules"), Cell::Nil, list(vec![list(vec![sym("_"), sym("n")]), quote(sym("n"))])]),
    ]);
    if let Err(e) = eval_cell(&mut s, &setup) {
        return Outcome::fail("C18|harness", e, render);
    }
    for (r, n, slot) in [(r1, &n1, 1usize), (r2, &n2, 2usize)] {
        if r == Route::LiteralInStoredProcedure {
            for f in stored_procedure_setup(n, slot) {
                if let Err(e) = eval_cell(&mut s, &f) {
                    return Outcome::fail("C18|harness", format!("stored procedure for {:?}: {}", n, e), render);
                }
            }
        }
    }
    if sep == 4 {
        s.vm.verif_set_gc_schedule(GcSchedule::EveryK(k));
    }
    // first production
    let first = if keep { list(vec![sym("define"), sym("c18-x"), e1.clone()]) } else { list(vec![sym("begin"), e1.clone(), Cell::Bool(true)]) };
    if let Err(e) = eval_cell(&mut s, &first) {
        return Outcome::fail(classify("production-failed", &n1), format!("producing {:?} by {:?}: {}", n1, r1, e), render);
    }
    match sep {
        1 => s.vm.verif_force_gc(),
        2 => {
            let garbage = parse::parse_text("(let loop ((i 0)) (if (< i 4000) (begin (list i i (string->symbol (string-append \"c18-g\" (number->string (remainder i 50))))) (loop (+ i 1))) 0))").unwrap().0;
            let _ = eval_cell(&mut s, &garbage);
            s.vm.verif_force_gc();
        }
        3 => {
            let _ = eval_cell(&mut s, &Cell::Bool(true));
            s.vm.verif_force_gc();
        }
        _ => {}
    }
    // second production and comparison
    let second = list(vec![sym("define"), sym("c18-y"), e2.clone()]);
    if let Err(e) = eval_cell(&mut s, &second) {
        return Outcome::fail(classify("production-failed", &n2), format!("producing {:?} by {:?}: {}", n2, r2, e), render);
    }
    let lhs = if keep { sym("c18-x") } else { e1.clone() };
    let cmp = list(vec![sym("eq?"), lhs, sym("c18-y")]);
    let got = match eval_cell(&mut s, &cmp) {
        Ok(Cell::Bool(b)) => b,
        Ok(other) => return Outcome::fail("C18|eq?-not-boolean", format!("{:#}", other), render),
        Err(e) => return Outcome::fail(classify("comparison-failed", &n1), e, render),
    };
    let want = n1 == n2;
    let mut failure: Option<(String, String)> = None;
    if got != want {
        let kind = if want { "same-name-not-eq" } else { "different-names-eq" };
        let nm = if name_class(&n1, involves_reader, involves_s2s).is_some() { &n1 } else { &n2 };
        failure = Some((classify(kind, nm), format!("(eq? <{:?} via {:?}> <{:?} via {:?}>) = {} but the names are {}", n1, r1, n2, r2, got, if want { "equal" } else { "different" })));
    }
    // conversions
    if failure.is_none() {
        let rt = list(vec![sym("symbol->string"), list(vec![sym("string->symbol"), Cell::String(n1.clone())])]);
        match eval_cell(&mut s, &rt) {
            Ok(Cell::String(back)) => {
                if back != n1 {
                    failure = Some((
                        match name_class(&n1, false, true) {
                            Some(cl) => format!("C18|{}", cl),
                            None => "C18|symbol->string-of-string->symbol".into(),
                        },
                        format!("(symbol->string (string->symbol {:?})) = {:?}", n1, back),
                    ));
                }
            }
            Ok(other) => failure = Some(("C18|symbol->string-not-a-string".into(), format!("{:#}", other))),
            Err(e) => failure = Some((classify("conversion-failed", &n1), format!("(symbol->string (string->symbol {:?})): {}", n1, e))),
        }
    }
    if failure.is_none() {
        let y = sym("c18-y");
        let rt = list(vec![sym("eq?"), list(vec![sym("string->symbol"), list(vec![sym("symbol->string"), y.clone()])]), y]);
        match eval_cell(&mut s, &rt) {
            Ok(Cell::Bool(true)) => {}
            Ok(other) => {
                let reader_route = is_reader_route(r2);
                let sig = match name_class(&n2, reader_route, true) {
                    Some(cl) => format!("C18|{}", cl),
                    None => "C18|string->symbol-of-symbol->string".to_string(),
                };
                failure = Some((sig, format!("(eq? (string->symbol (symbol->string y)) y) = {:#} for y = {:?} via {:?}", other, n2, r2)));
            }
            Err(e) => failure = Some((classify("conversion-failed", &n2), format!("(string->symbol (symbol->string y)) for y = {:?} via {:?}: {}", n2, r2, e))),
        }
    }
    let o = obs.borrow();
    if failure.is_none() {
        if let Some((kind, d)) = o.failures.first() {
            failure = Some((format!("C18|collector-invariant|{}", kind), d.clone()));
        }
    }
    if ctx.counting() {
        ctx.class(&format!("route:{:?}", r1));
        ctx.class(&format!("between:{}", render["between"].as_str().unwrap_or("")));
        ctx.class(if same { "same-name" } else { "different-names" });
        ctx.class(if keep { "first-kept" } else { "first-dropped" });
        let needs_escape = n1.chars().any(|ch| !lex::is_subsequent_identifier(ch)) || n1.is_empty();
        if needs_escape {
            ctx.class("name-needs-escaping");
        }
        if o.collections > 0 || needs_escape {
            ctx.nontrivial_str(&render.to_string());
        }
        ctx.sample(|| render.clone());
    }
    match failure {
        Some((sig, detail)) => Outcome::fail(sig, detail, render),
        None => Outcome::Pass,
    }
}

impl Prop for C18 {
    fn id(&self) -> &'static str {
        "C18"
    }
    fn rule(&self) -> &'static str {
        "a pair of names (equal with probability 1/2; built from a 40-lexeme alphabet incl. empty, delimiters, backslash, |, #, digits, signs, dots, whitespace, non-ASCII, astral, or random scalars, or very long) x two production routes out of 9 (literal, quoted-list element, string->symbol, macro output, eval, round trips, string->symbol in tail position of a procedure, string->symbol passed through a pair and a vector) x what happens between the productions (nothing / forced collection / garbage + collections / next evaluation / collection every k-th instruction) x first product kept or dropped. Checked: (eq? s1 s2) iff names equal; (symbol->string (string->symbol s)) = s; (eq? (string->symbol (symbol->string y)) y); collector invariants. Non-trivial: a collection ran between the productions or the name needs escaping; distinct by the rendered case."
    }
    fn assumptions(&self) -> Vec<&'static str> {
        vec![
            "routes that need the reader (literal, quoted list, macro, eval) are used only for names parse_text reads back as exactly that symbol; data is injected as Cell values, not text",
            "forced collections go through the real run_gc via the verif hook",
        ]
    }
    fn run(&self, ctx: &Ctx) {
        ctx.journal_bytes.set(true);
        let cases = ctx.tier.pick(2_000u32, 60_000u32);
        ctx.run_bytes("case", cases, 96, case);
    }
    fn replay(&self, ctx: &Ctx, _kind: &str, payload: &Value) -> Outcome {
        if let Some(n1) = payload["name1"].as_str() {
            let route = |s: &str| ROUTES.iter().copied().find(|r| format!("{:?}", r) == s).unwrap_or(Route::StringToSymbol);
            let seps = ["nothing", "forced-collection", "garbage+collections", "next-evaluation", "collection-every-k"];
            return check(
                ctx,
                Params {
                    n1: n1.to_string(),
                    n2: payload["name2"].as_str().unwrap_or(n1).to_string(),
                    r1: route(payload["route1"].as_str().unwrap_or("")),
                    r2: route(payload["route2"].as_str().unwrap_or("")),
                    sep: seps.iter().position(|x| Some(*x) == payload["between"].as_str()).unwrap_or(0),
                    keep: payload["first-kept"].as_bool().unwrap_or(true),
                    k: payload["k"].as_u64().unwrap_or(1),
                },
            );
        }
        case(ctx, &unhex(payload["bytes"].as_str().unwrap_or("")))
    }
    fn shards(&self, _tier: Tier) -> usize {
        16
    }
}
